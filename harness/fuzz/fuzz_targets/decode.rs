//! C12 coverage-guided target: the first byte selects a public decode entry point, the rest is the input.
//! Oracle inside the target: an accepted value re-encodes to exactly the consumed bytes, reports that length,
//! and decodes again to an equal value. A violation is a panic (libFuzzer saves the input as an artifact).
#![no_main]
use libfuzzer_sys::fuzz_target;
use mls_rs::group::ExportedTree;
use mls_rs::mls_rs_codec::{MlsDecode, MlsEncode, MlsSize};
use mls_rs::MlsMessage;

fn roundtrip<T: MlsDecode + MlsEncode + MlsSize + PartialEq>(what: &str, b: &[u8]) {
    let mut rd = b;
    if let Ok(v) = T::mls_decode(&mut rd) {
        let consumed = b.len() - rd.len();
        let enc = v.mls_encode_to_vec().expect("accepted value must encode");
        assert_eq!(v.mls_encoded_len(), enc.len(), "{what}: mls_encoded_len differs from the bytes written");
        assert_eq!(&enc[..], &b[..consumed], "{what}: re-encoding differs from the consumed bytes");
        let mut rd2 = &enc[..];
        let v2 = T::mls_decode(&mut rd2).expect("own encoding must decode");
        assert!(v2 == v && rd2.is_empty(), "{what}: decode(encode(v)) != v");
    }
}

fuzz_target!(|data: &[u8]| {
    let Some((sel, b)) = data.split_first() else { return };
    match sel % 4 {
        0 | 1 => roundtrip::<MlsMessage>("MlsMessage", b),
        2 => {
            if let Ok(t) = ExportedTree::from_bytes(b) {
                let enc = t.to_bytes().expect("accepted tree must encode");
                assert!(b.starts_with(&enc), "ExportedTree: re-encoding is not a prefix of the input");
            }
        }
        _ => {
            if let Ok(m) = MlsMessage::from_bytes(b) {
                let enc = m.to_bytes().expect("accepted message must encode");
                assert!(b.starts_with(&enc), "MlsMessage::from_bytes: re-encoding is not a prefix of the input");
                let _ = m.epoch();
                let _ = m.wire_format();
                let _ = m.group_id().map(|g| g.len());
            }
        }
    }
});
