//! Multi-party simulator: parties, delivery, commits, joins — shared by the history-based properties.
#![allow(dead_code)]

use crate::engine::{catch, panic_signature, CaseResult, Failure};
use crate::providers::*;
use mls_rs::client_builder::{
    BaseConfig, PaddingMode, WithCryptoProvider, WithGroupStateStorage, WithIdentityProvider, WithKeyPackageRepo,
    WithMlsRules, WithPskStore,
};
use mls_rs::crypto::{SignaturePublicKey, SignatureSecretKey};
use mls_rs::error::MlsError;
use mls_rs::group::proposal::{CustomProposal, ProposalType};
use mls_rs::group::{CommitEffect, CommitOutput, ExportedTree, ReceivedMessage};
use mls_rs::identity::basic::BasicCredential;
use mls_rs::identity::SigningIdentity;
use mls_rs::mls_rules::{CommitOptions, DefaultMlsRules, EncryptionOptions};
use mls_rs::time::MlsTime;
use mls_rs::{CipherSuite, CipherSuiteProvider, Client, CryptoProvider, Extension, ExtensionList, Group, MlsMessage};
use std::collections::BTreeMap;
use std::sync::Arc;

pub type VConfig = WithMlsRules<
    VRules,
    WithCryptoProvider<
        VCrypto,
        WithIdentityProvider<
            VIdentity,
            WithGroupStateStorage<VGroupStore, WithPskStore<VPskStore, WithKeyPackageRepo<VKeyPkgStore, BaseConfig>>>,
        >,
    >,
>;
pub type VClient = Client<VConfig>;
pub type VGroup = Group<VConfig>;

pub const T0: u64 = 1_750_000_000;
pub const EXT_TYPE: u16 = 0xF0A0;
pub const EXT_TYPE2: u16 = 0xF0A1;
pub const CUSTOM_PROPOSAL: u16 = 0xF0B0;
/// "kick": the application's rules expand it, on every member, into a local Remove of the leaf named in its data
/// (4 bytes, big endian); the application declares that it needs no update path
pub const KICK_PROPOSAL: u16 = 0xF0B2;
/// the same, declared to need an update path
pub const KICK_WITH_PATH_PROPOSAL: u16 = 0xF0B3;

/// The application's rules: the library's default rules, plus the expansion of the two "kick" custom proposals into
/// `ProposalSource::Local` Remove proposals (the documented way to give a custom proposal an effect on the tree).
#[derive(Clone, Debug, Default)]
pub struct VRules {
    pub inner: DefaultMlsRules,
}

impl mls_rs::MlsRules for VRules {
    type Error = <DefaultMlsRules as mls_rs::MlsRules>::Error;

    fn filter_proposals(
        &self,
        direction: mls_rs::mls_rules::CommitDirection,
        source: mls_rs::mls_rules::CommitSource,
        roster: &mls_rs::group::Roster,
        context: &mls_rs::group::GroupContext,
        mut proposals: mls_rs::mls_rules::ProposalBundle,
    ) -> Result<mls_rs::mls_rules::ProposalBundle, Self::Error> {
        let kicks: Vec<(u32, mls_rs::group::Sender)> = proposals
            .custom_proposals()
            .iter()
            .filter(|p| matches!(p.proposal.proposal_type().raw_value(), KICK_PROPOSAL | KICK_WITH_PATH_PROPOSAL))
            .filter_map(|p| Some((u32::from_be_bytes(p.proposal.data().try_into().ok()?), p.sender)))
            .collect();
        for (leaf, sender) in kicks {
            if let Ok(r) = mls_rs::group::proposal::RemoveProposal::removing(leaf) {
                proposals.add(mls_rs::group::proposal::Proposal::Remove(r), sender, mls_rs::mls_rules::ProposalSource::Local);
            }
        }
        self.inner.filter_proposals(direction, source, roster, context, proposals)
    }

    fn commit_options(&self, roster: &mls_rs::group::Roster, context: &mls_rs::group::GroupContext, proposals: &mls_rs::mls_rules::ProposalBundle) -> Result<CommitOptions, Self::Error> {
        self.inner.commit_options(roster, context, proposals)
    }

    fn encryption_options(&self, roster: &mls_rs::group::Roster, context: &mls_rs::group::GroupContext) -> Result<EncryptionOptions, Self::Error> {
        self.inner.encryption_options(roster, context)
    }

    fn custom_proposal_requires_update_path(&self, t: ProposalType) -> bool {
        t.raw_value() == KICK_WITH_PATH_PROPOSAL || (t.raw_value() != KICK_PROPOSAL && self.inner.custom_proposal_requires_update_path(t))
    }
}

// ---------------------------------------------------------------------------------------------
// guarded library calls

#[derive(Clone, Debug)]
pub enum OpErr {
    Mls(String),
    Panic(String),
}

impl OpErr {
    /// Variant name of the MlsError (or "panic").
    pub fn class(&self) -> String {
        match self {
            OpErr::Panic(_) => "panic".into(),
            OpErr::Mls(s) => s
                .split(|c: char| !(c.is_alphanumeric() || c == '_'))
                .next()
                .unwrap_or("")
                .to_string(),
        }
    }
    pub fn text(&self) -> &str {
        match self {
            OpErr::Mls(s) | OpErr::Panic(s) => s,
        }
    }
    pub fn is_panic(&self) -> bool {
        matches!(self, OpErr::Panic(_))
    }
    pub fn is_injected_fault(&self) -> bool {
        self.text().contains(INJECTED)
    }
}

/// Run one library call; a panic becomes `OpErr::Panic`.
pub fn guard<T>(f: impl FnOnce() -> Result<T, MlsError>) -> Result<T, OpErr> {
    match catch(f) {
        Ok(Ok(v)) => Ok(v),
        Ok(Err(e)) => Err(OpErr::Mls(format!("{e:?}"))),
        Err(p) => Err(OpErr::Panic(p)),
    }
}

/// A library panic is a violation of every property that states "never panics" and a defect in
/// any case; report it under the running property with the panic site as signature.
pub fn panic_failure(prop: &str, site: &str, e: &OpErr) -> Failure {
    Failure::new(
        format!("{prop}|panic|{site}|{}", panic_signature(e.text())),
        format!("library panicked in {site}: {}", e.text()),
    )
}

// ---------------------------------------------------------------------------------------------
// configuration

#[derive(Clone, Debug)]
pub struct WorldCfg {
    pub suite: u16,
    /// provider of party i = providers[i % len]
    pub providers: Vec<ProviderKind>,
    pub store: StoreKind,
    pub sql_key_packages: bool,
    /// lifetime of the key packages the parties publish (seconds from the fake clock's now)
    pub kp_lifetime: u64,
    pub retention: usize,
    pub ratchet_tree_extension: bool,
    pub single_welcome: bool,
    pub path_required: bool,
    pub allow_external_commit: bool,
    pub encrypt_handshake: bool,
    pub padding: u8,
    /// per-party variation of the commit/encryption options (party index parity flips them)
    pub vary_options: bool,
    /// parties whose id is a multiple of this (if non-zero) publish last-resort key packages
    pub last_resort_every: usize,
}

impl WorldCfg {
    pub fn default_for(suite: u16) -> WorldCfg {
        WorldCfg {
            suite,
            providers: vec![ProviderKind::OpenSsl],
            store: StoreKind::Mem,
            sql_key_packages: false,
            kp_lifetime: KEY_PACKAGE_LIFETIME,
            retention: 3,
            ratchet_tree_extension: true,
            single_welcome: true,
            path_required: false,
            allow_external_commit: true,
            encrypt_handshake: false,
            padding: 0,
            vary_options: false,
            last_resort_every: 0,
        }
    }
    pub fn to_json(&self) -> serde_json::Value {
        serde_json::json!({
            "suite": self.suite,
            "providers": self.providers.iter().map(|p| p.name()).collect::<Vec<_>>(),
            "store": format!("{:?}", self.store),
            "retention": self.retention,
            "key_package_lifetime_s": self.kp_lifetime,
            "ratchet_tree_extension": self.ratchet_tree_extension,
            "single_welcome": self.single_welcome,
            "path_required": self.path_required,
            "encrypt_handshake": self.encrypt_handshake,
            "padding": self.padding,
            "vary_options": self.vary_options,
        })
    }
}

#[derive(Clone, Copy, PartialEq, Eq, Debug)]
pub enum Status {
    Outside,
    Member,
    Removed,
}

pub struct Party {
    pub id: usize,
    pub name: Vec<u8>,
    pub provider: ProviderKind,
    pub signer: SignatureSecretKey,
    pub identity: SigningIdentity,
    pub crypto: VCrypto,
    pub ctl: Arc<FaultCtl>,
    pub gstore: VGroupStore,
    pub kstore: VKeyPkgStore,
    pub pstore: VPskStore,
    pub idp: VIdentity,
    pub client: VClient,
    pub group: Option<VGroup>,
    pub status: Status,
    pub commit_opts: CommitOptions,
    pub enc_opts: EncryptionOptions,
    /// epoch at which this party joined / created the group
    pub joined_epoch: u64,
    /// pending new signer for an own update proposal with identity change: leaf key -> (signer, identity)
    pub pending_identity: Option<(SignatureSecretKey, SigningIdentity)>,
}

impl Party {
    pub fn g(&self) -> &VGroup {
        self.group.as_ref().expect("party has a group")
    }
    pub fn gm(&mut self) -> &mut VGroup {
        self.group.as_mut().expect("party has a group")
    }
    pub fn suite_provider(&self, suite: u16) -> VSuite {
        self.crypto.suite(CipherSuite::from(suite)).expect("suite supported")
    }
    pub fn leaf(&self) -> u32 {
        self.g().current_member_index()
    }
}

/// Key packages live 100 years from the fake clock T0: wherever the library falls back to the wall
/// clock (e.g. the commit inside `branch` / `ReinitClient::commit`) they are still valid.
pub const KEY_PACKAGE_LIFETIME: u64 = 100 * 365 * 86400;

#[allow(clippy::too_many_arguments)]
pub fn build_client(
    crypto: VCrypto,
    idp: VIdentity,
    gstore: VGroupStore,
    kstore: VKeyPkgStore,
    pstore: VPskStore,
    rules: VRules,
    identity: SigningIdentity,
    signer: SignatureSecretKey,
    suite: u16,
) -> VClient {
    build_client_with_lifetime(crypto, idp, gstore, kstore, pstore, rules, identity, signer, suite, KEY_PACKAGE_LIFETIME)
}

#[allow(clippy::too_many_arguments)]
pub fn build_client_with_lifetime(
    crypto: VCrypto,
    idp: VIdentity,
    gstore: VGroupStore,
    kstore: VKeyPkgStore,
    pstore: VPskStore,
    rules: VRules,
    identity: SigningIdentity,
    signer: SignatureSecretKey,
    suite: u16,
    lifetime: u64,
) -> VClient {
    Client::builder()
        .key_package_lifetime(std::time::Duration::from_secs(lifetime))
        .key_package_repo(kstore)
        .psk_store(pstore)
        .group_state_storage(gstore)
        .identity_provider(idp)
        .crypto_provider(crypto)
        .mls_rules(rules)
        .extension_types([EXT_TYPE.into(), EXT_TYPE2.into()])
        .custom_proposal_types([ProposalType::new(CUSTOM_PROPOSAL), ProposalType::new(KICK_PROPOSAL), ProposalType::new(KICK_WITH_PATH_PROPOSAL)])
        .signing_identity(identity, signer, CipherSuite::from(suite))
        .build()
}

pub fn make_identity(cs: &VSuite, name: &[u8]) -> (SignatureSecretKey, SigningIdentity) {
    let (sk, pk): (SignatureSecretKey, SignaturePublicKey) = cs.signature_key_generate().expect("sig keygen");
    let cred = BasicCredential::new(name.to_vec()).into_credential();
    (sk, SigningIdentity::new(cred, pk))
}

// ---------------------------------------------------------------------------------------------
// in-flight traffic

#[derive(Clone, Copy, PartialEq, Eq, Debug)]
pub enum FlightKind {
    Proposal,
    App,
}

#[derive(Clone)]
pub struct Flight {
    pub bytes: Vec<u8>,
    pub sender: usize,
    pub sender_leaf: u32,
    pub kind: FlightKind,
    pub payload: Vec<u8>,
    pub aad: Vec<u8>,
    pub epoch: u64,
}

pub struct World {
    pub cfg: WorldCfg,
    pub parties: Vec<Party>,
    pub group_id: Vec<u8>,
    /// epoch the harness expects all members to be in
    pub epoch: u64,
    pub clock: u64,
    pub inflight: Vec<Flight>,
    /// number of commits accepted so far
    pub commits: u64,
    /// everything that crossed the wire, by kind (for harvesting C12 corpora / C03 messages)
    pub wire_log: Vec<(&'static str, Vec<u8>)>,
    pub keep_wire_log: bool,
    pub counters: BTreeMap<String, u64>,
    pub prop: &'static str,
    /// record every hpke_seal / aead_seal the committer performs while building a commit
    pub record_crypto: bool,
    pub last_commit_hpke: Vec<HpkeSealRec>,
    pub last_commit_aead: Vec<AeadSealRec>,
    /// last key package generated by each party (encoded MlsMessage)
    pub last_kp: BTreeMap<usize, Vec<u8>>,
    /// every key package a party has published through `key_package` (a client may be proposed twice)
    pub all_kps: BTreeMap<usize, Vec<Vec<u8>>>,
    /// second instances of members, loaded from a copy of their storage, fed the same incoming
    /// messages as long as the member only receives (C06 lockstep oracle)
    pub twins: BTreeMap<usize, Twin>,
    pub twin_failure: Option<Failure>,
    pub twin_checks: u64,
    /// identity listed in the group's ExternalSendersExt at creation (C16)
    pub external_sender: Option<(SignatureSecretKey, SigningIdentity)>,
    /// further entries of the external senders list: [0] goes in front of the real one, the rest behind it
    pub external_sender_decoys: Vec<SigningIdentity>,
    /// the group context requires support for the harness extension EXT_TYPE (RequiredCapabilities)
    pub require_ext: bool,
}

pub struct Twin {
    pub group: VGroup,
    pub client: VClient,
    pub ctl: Arc<FaultCtl>,
    pub deliveries: u64,
}

#[derive(Clone, Debug, Default)]
pub struct CommitSpec {
    /// parties (outside) to add by value
    pub add: Vec<usize>,
    /// leaf indices to remove by value
    pub remove: Vec<u32>,
    pub external_psks: Vec<Vec<u8>>,
    /// list the resumption PSKs before the external ones in the commit
    pub resumption_psks_first: bool,
    pub resumption_psk_epochs: Vec<u64>,
    pub gce: Option<Vec<u8>>,
    pub custom: Option<Vec<u8>>,
    /// "kick" custom proposal by value: (leaf to remove, declared to need an update path)
    pub kick: Option<(u32, bool)>,
    pub new_identity: bool,
    /// outside parties whose add was proposed by reference (they join iff the commit added them)
    pub by_ref_add_candidates: Vec<usize>,
    pub aad: Vec<u8>,
    /// order seed for delivering in-flight traffic to each member before the commit
    pub order: u16,
}

pub enum Stage<'a> {
    /// the commit has been built and is pending at the committer
    AfterBuild { committer: usize },
    /// right before `receiver` processes the genuine commit
    BeforeReceive { receiver: usize, bytes: &'a [u8] },
}

pub struct CommitInfo {
    pub committer: usize,
    pub epoch_before: u64,
    pub had_path: bool,
    pub joined: Vec<usize>,
    pub removed: Vec<usize>,
    pub commit_bytes: Vec<u8>,
    pub welcome_bytes: Vec<Vec<u8>>,
    pub external: bool,
    pub unused: usize,
    /// ratchet tree delivered out of band (None when it travels in the Welcome's GroupInfo extension)
    pub tree_oob: Option<Vec<u8>>,
    /// the commit carried a "kick" custom proposal (leaf, declared to need a path)
    pub kick: Option<(u32, bool)>,
}

impl World {
    pub fn new(prop: &'static str, cfg: WorldCfg) -> World {
        World {
            cfg,
            parties: vec![],
            group_id: vec![],
            epoch: 0,
            clock: T0,
            inflight: vec![],
            commits: 0,
            wire_log: vec![],
            keep_wire_log: false,
            counters: BTreeMap::new(),
            prop,
            record_crypto: false,
            last_commit_hpke: vec![],
            last_commit_aead: vec![],
            last_kp: BTreeMap::new(),
            all_kps: BTreeMap::new(),
            twins: BTreeMap::new(),
            twin_failure: None,
            twin_checks: 0,
            external_sender: None,
            external_sender_decoys: vec![],
            require_ext: false,
        }
    }

    pub fn is_last_resort(&self, p: usize) -> bool {
        self.cfg.last_resort_every > 0 && p % self.cfg.last_resort_every == 0
    }

    pub fn count(&mut self, k: &str) {
        *self.counters.entry(k.to_string()).or_insert(0) += 1;
    }

    pub fn now(&self) -> MlsTime {
        MlsTime::from(self.clock)
    }

    pub fn tick(&mut self) -> MlsTime {
        self.clock += 7;
        self.now()
    }

    pub fn log_wire(&mut self, kind: &'static str, bytes: &[u8]) {
        if self.keep_wire_log {
            self.wire_log.push((kind, bytes.to_vec()));
        }
    }

    pub fn provider_for(&self, idx: usize) -> ProviderKind {
        let wanted = self.cfg.providers[idx % self.cfg.providers.len()];
        if wanted.suites().contains(&self.cfg.suite) {
            wanted
        } else {
            ProviderKind::OpenSsl
        }
    }

    pub fn new_party(&mut self) -> usize {
        let id = self.parties.len();
        self.new_party_named(format!("party-{id:03}").into_bytes())
    }

    pub fn new_party_named(&mut self, name: Vec<u8>) -> usize {
        let id = self.parties.len();
        let provider = self.provider_for(id);
        let crypto = VCrypto::new(provider);
        let cs = crypto.suite(CipherSuite::from(self.cfg.suite)).expect("suite");
        let (signer, identity) = make_identity(&cs, &name);
        let ctl = Arc::new(FaultCtl::default());
        ctl.reset();
        let gstore = VGroupStore::new(self.cfg.store, self.cfg.retention, ctl.clone());
        let kstore = VKeyPkgStore::new(self.cfg.sql_key_packages, ctl.clone());
        let pstore = VPskStore::new(ctl.clone());
        let idp = VIdentity::new();
        let flip = self.cfg.vary_options && id % 2 == 1;
        let commit_opts = CommitOptions::new()
            .with_path_required(self.cfg.path_required ^ (flip && id % 4 == 1))
            .with_ratchet_tree_extension(self.cfg.ratchet_tree_extension ^ flip)
            .with_single_welcome_message(self.cfg.single_welcome ^ flip)
            .with_allow_external_commit(self.cfg.allow_external_commit);
        let padding = match (self.cfg.padding + flip as u8) % 3 {
            0 => PaddingMode::StepFunction,
            1 => PaddingMode::Padme,
            _ => PaddingMode::None,
        };
        let enc_opts = EncryptionOptions::new(self.cfg.encrypt_handshake ^ (flip && id % 4 == 3), padding);
        let rules = VRules {
            inner: DefaultMlsRules::new().with_commit_options(commit_opts).with_encryption_options(enc_opts).with_custom_proposals_that_require_update_path(vec![]),
        };
        let client = build_client_with_lifetime(
            crypto.clone(),
            idp.clone(),
            gstore.clone(),
            kstore.clone(),
            pstore.clone(),
            rules,
            identity.clone(),
            signer.clone(),
            self.cfg.suite,
            self.cfg.kp_lifetime,
        );
        self.parties.push(Party {
            id,
            name,
            provider,
            signer,
            identity,
            crypto,
            ctl,
            gstore,
            kstore,
            pstore,
            idp,
            client,
            group: None,
            status: Status::Outside,
            commit_opts,
            enc_opts,
            joined_epoch: 0,
            pending_identity: None,
        });
        id
    }

    /// Rebuild a party's client (after an identity change the client must carry the new signer).
    pub fn rebuild_client(&mut self, p: usize) {
        let suite = self.cfg.suite;
        let lifetime = self.cfg.kp_lifetime;
        let party = &mut self.parties[p];
        let rules = VRules {
            inner: DefaultMlsRules::new().with_commit_options(party.commit_opts).with_encryption_options(party.enc_opts).with_custom_proposals_that_require_update_path(vec![]),
        };
        party.client = build_client_with_lifetime(
            party.crypto.clone(),
            party.idp.clone(),
            party.gstore.clone(),
            party.kstore.clone(),
            party.pstore.clone(),
            rules,
            party.identity.clone(),
            party.signer.clone(),
            suite,
            lifetime,
        );
    }

    pub fn members(&self) -> Vec<usize> {
        self.parties
            .iter()
            .filter(|p| p.status == Status::Member)
            .map(|p| p.id)
            .collect()
    }

    pub fn outsiders(&self) -> Vec<usize> {
        self.parties
            .iter()
            .filter(|p| p.status == Status::Outside)
            .map(|p| p.id)
            .collect()
    }

    pub fn party_at_leaf(&self, leaf: u32) -> Option<usize> {
        self.members().into_iter().find(|m| self.parties[*m].leaf() == leaf)
    }

    pub fn give_psk_to_all(&mut self, id: &[u8], value: &[u8]) {
        for p in &self.parties {
            p.pstore.put(id, value);
        }
    }

    pub fn create_group(&mut self, p: usize) -> Result<(), OpErr> {
        let t = self.now();
        let mut ext = ExtensionList::new();
        ext.set(Extension::new(EXT_TYPE.into(), vec![1, 2, 3]));
        if self.require_ext {
            use mls_rs::extension::MlsExtension;
            let rc = mls_rs::extension::built_in::RequiredCapabilitiesExt::new(vec![EXT_TYPE.into()], vec![], vec![]);
            ext.set(rc.into_extension().expect("required capabilities ext"));
        }
        if let Some((_, id)) = &self.external_sender {
            use mls_rs::extension::MlsExtension;
            // optionally the real entry is not the first one carrying its credential: an older key of the same service
            // identity is still listed in front of it, and an unrelated sender behind it
            let mut senders = vec![];
            for (i, d) in self.external_sender_decoys.iter().enumerate() {
                if i == 0 {
                    senders.push(d.clone());
                }
            }
            senders.push(id.clone());
            senders.extend(self.external_sender_decoys.iter().skip(1).cloned());
            let es = mls_rs::extension::built_in::ExternalSendersExt::new(senders);
            ext.set(es.into_extension().expect("external senders ext"));
        }
        let party = &mut self.parties[p];
        let g = guard(|| party.client.group_builder()?.with_now_time(t).with_group_context_extensions(ext).build())?;
        self.group_id = g.group_id().to_vec();
        party.group = Some(g);
        party.status = Status::Member;
        party.joined_epoch = 0;
        self.epoch = 0;
        Ok(())
    }

    pub fn key_package(&mut self, p: usize) -> Result<MlsMessage, OpErr> {
        let t = self.now();
        let party = &self.parties[p];
        let mut kp_ext = ExtensionList::default();
        if self.is_last_resort(p) {
            use mls_rs::extension::MlsExtension;
            kp_ext.set(mls_rs::extension::recommended::LastResortKeyPackageExt.into_extension().expect("ext"));
        }
        let kp = guard(|| party.client.generate_key_package_message(kp_ext, ExtensionList::default(), Some(t)))?;
        let bytes = kp.to_bytes().map_err(|e| OpErr::Mls(format!("{e:?}")))?;
        self.log_wire("key_package", &bytes);
        self.all_kps.entry(p).or_default().push(bytes.clone());
        self.last_kp.insert(p, bytes);
        Ok(kp)
    }

    // ---- traffic ---------------------------------------------------------------------------

    pub fn send_app(&mut self, p: usize, payload: Vec<u8>, aad: Vec<u8>) -> Result<(), OpErr> {
        self.drop_twin(p);
        let epoch = self.epoch;
        let party = &mut self.parties[p];
        let leaf = party.leaf();
        let (pl, ad) = (payload.clone(), aad.clone());
        let msg = guard(|| party.gm().encrypt_application_message(&pl, ad))?;
        let bytes = msg.to_bytes().map_err(|e| OpErr::Mls(format!("{e:?}")))?;
        self.log_wire("application", &bytes);
        self.inflight.push(Flight {
            bytes,
            sender: p,
            sender_leaf: leaf,
            kind: FlightKind::App,
            payload,
            aad,
            epoch,
        });
        Ok(())
    }

    pub fn push_proposal(&mut self, p: usize, msg: MlsMessage, aad: Vec<u8>) -> Result<(), OpErr> {
        self.drop_twin(p);
        let bytes = msg.to_bytes().map_err(|e| OpErr::Mls(format!("{e:?}")))?;
        self.log_wire("proposal", &bytes);
        let leaf = self.parties[p].leaf();
        self.inflight.push(Flight {
            bytes,
            sender: p,
            sender_leaf: leaf,
            kind: FlightKind::Proposal,
            payload: vec![],
            aad,
            epoch: self.epoch,
        });
        Ok(())
    }

    /// Process a message at party `p` with the fake clock.
    pub fn process(&mut self, p: usize, bytes: &[u8]) -> Result<ReceivedMessage, OpErr> {
        let t = self.now();
        let party = &mut self.parties[p];
        let r = guard(|| {
            let m = MlsMessage::from_bytes(bytes)?;
            party.gm().process_incoming_message_with_time(m, t)
        });
        if self.twins.contains_key(&p) {
            self.feed_twin(p, bytes, r.as_ref().map(|_| ()).map_err(|e| e.class()));
        }
        r
    }

    fn feed_twin(&mut self, p: usize, bytes: &[u8], real: Result<(), String>) {
        let t = self.now();
        let prop = self.prop;
        let Some(twin) = self.twins.get_mut(&p) else { return };
        let r = guard(|| {
            let m = MlsMessage::from_bytes(bytes)?;
            twin.group.process_incoming_message_with_time(m, t)
        })
        .map(|_| ())
        .map_err(|e| e.class());
        twin.deliveries += 1;
        self.twin_checks += 1;
        if r != real && self.twin_failure.is_none() {
            self.twin_failure = Some(Failure::new(
                format!("{prop}|reloaded_twin_diverges|outcome"),
                format!("party {p}: member {real:?}, twin loaded from storage {r:?}"),
            ));
            return;
        }
        let party = &self.parties[p];
        let a = {
            let _s = party.ctl.suspend();
            party.g().verif_state()
        };
        let b = {
            let _s = twin.ctl.suspend();
            twin.group.verif_state()
        };
        if let (Ok(a), Ok(b)) = (a, b) {
            // the member (written, not reloaded) still holds the reference of the key package it joined
            // with; the loaded twin does not: unobservable, see props/c06.rs
            let d: Vec<(String, String)> = a.diff(&b).into_iter().filter(|(c, _)| c != "pending_key_package_removal").collect();
            if !d.is_empty() && self.twin_failure.is_none() {
                let mut comps: Vec<&str> = d.iter().map(|(c, _)| c.as_str()).collect();
                comps.sort();
                comps.dedup();
                self.twin_failure = Some(Failure::new(
                    format!("{prop}|reloaded_twin_diverges|diff={}", comps.join(",")),
                    format!("party {p} after {} deliveries: {d:?}", twin.deliveries),
                ));
            }
        }
    }

    /// Save party p, copy its storage, and load a second instance (twin) from the copy.
    pub fn spawn_twin(&mut self, p: usize) -> Result<(), OpErr> {
        self.save(p)?;
        let suite = self.cfg.suite;
        let lifetime = self.cfg.kp_lifetime;
        let gid = self.group_id.clone();
        let party = &self.parties[p];
        let ctl = Arc::new(FaultCtl::default());
        ctl.reset();
        let gstore = party.gstore.fork(ctl.clone());
        let rules = VRules {
            inner: DefaultMlsRules::new().with_commit_options(party.commit_opts).with_encryption_options(party.enc_opts).with_custom_proposals_that_require_update_path(vec![]),
        };
        let client = build_client_with_lifetime(
            party.crypto.clone(),
            party.idp.clone(),
            gstore,
            party.kstore.clone(),
            party.pstore.clone(),
            rules,
            party.identity.clone(),
            party.signer.clone(),
            suite,
            lifetime,
        );
        let group = guard(|| client.load_group(&gid))?;
        self.twins.insert(p, Twin { group, client, ctl, deliveries: 0 });
        Ok(())
    }

    pub fn has_twin(&self, p: usize) -> bool {
        self.twins.contains_key(&p)
    }

    pub fn drop_twin(&mut self, p: usize) {
        self.twins.remove(&p);
    }

    /// Deliver all in-flight traffic of the current epoch to every member except the sender, each
    /// member in its own order (derived from `order`). Genuine traffic must be accepted and be
    /// reported with the true sender, payload and authenticated data.
    pub fn flush(&mut self, order: u16) -> CaseResult {
        let flights = std::mem::take(&mut self.inflight);
        if flights.is_empty() {
            return Ok(());
        }
        let members = self.members();
        for (mi, m) in members.iter().enumerate() {
            let idx = permutation(flights.len(), order as u64 ^ ((mi as u64 + 1) * 0x9E37));
            for i in idx {
                let f = &flights[i];
                if f.sender == *m {
                    continue;
                }
                if self.parties[*m].joined_epoch > f.epoch || f.epoch != self.epoch {
                    continue;
                }
                let r = self.process(*m, &f.bytes);
                self.check_genuine(*m, f, r)?;
            }
        }
        Ok(())
    }

    pub fn check_genuine(&mut self, receiver: usize, f: &Flight, r: Result<ReceivedMessage, OpErr>) -> CaseResult {
        let prop = self.prop;
        match r {
            Err(e) if e.is_panic() => Err(panic_failure(prop, "process_incoming_message", &e)),
            Err(e) => Err(Failure::new(
                format!("{prop}|genuine_{:?}_rejected|{}", f.kind, e.class()),
                format!(
                    "party {receiver} rejected a genuine {:?} message of party {} (leaf {}) in epoch {}: {}",
                    f.kind,
                    f.sender,
                    f.sender_leaf,
                    f.epoch,
                    e.text()
                ),
            )),
            Ok(ReceivedMessage::ApplicationMessage(d)) if f.kind == FlightKind::App => {
                if d.sender_index != f.sender_leaf || d.data() != &f.payload[..] || d.authenticated_data != f.aad {
                    return Err(Failure::new(
                        format!("{prop}|genuine_app_misreported"),
                        format!(
                            "receiver {receiver}: sender {} (want {}), payload ok={}, aad ok={}",
                            d.sender_index,
                            f.sender_leaf,
                            d.data() == &f.payload[..],
                            d.authenticated_data == f.aad
                        ),
                    ));
                }
                Ok(())
            }
            Ok(ReceivedMessage::Proposal(_)) if f.kind == FlightKind::Proposal && f.sender == usize::MAX => Ok(()),
            Ok(ReceivedMessage::Proposal(d)) if f.kind == FlightKind::Proposal => {
                use mls_rs::group::ProposalSender;
                if d.sender != ProposalSender::Member(f.sender_leaf) || d.authenticated_data != f.aad {
                    return Err(Failure::new(
                        format!("{prop}|genuine_proposal_misreported"),
                        format!("receiver {receiver}: sender {:?} want leaf {}", d.sender, f.sender_leaf),
                    ));
                }
                Ok(())
            }
            Ok(other) => Err(Failure::new(
                format!("{prop}|genuine_message_wrong_kind"),
                format!("receiver {receiver}: {:?} message reported as {other:?}", f.kind),
            )),
        }
    }

    // ---- commits ---------------------------------------------------------------------------

    /// Build a commit at `committer` per `spec`. Ok(None) = the library refused to build it.
    pub fn build_commit(&mut self, committer: usize, spec: &CommitSpec) -> Result<Result<CommitOutput, OpErr>, Failure> {
        self.drop_twin(committer);
        let t = self.tick();
        let suite = self.cfg.suite;
        let mut kps = vec![];
        for a in &spec.add {
            match self.key_package(*a) {
                Ok(kp) => kps.push(kp),
                Err(e) => return Ok(Err(e)),
            }
        }
        let party = &mut self.parties[committer];
        let new_id = if spec.new_identity {
            let cs = party.suite_provider(suite);
            Some(make_identity(&cs, &party.name))
        } else {
            None
        };
        let new_id2 = new_id.clone();
        let spec2 = spec.clone();
        let record = self.record_crypto;
        let party = &mut self.parties[committer];
        if record {
            party.crypto.log.start();
        }
        let r = guard(|| {
            let mut b = party.group.as_mut().unwrap().commit_builder();
            for kp in kps {
                b = b.add_member(kp)?;
            }
            for r in &spec2.remove {
                b = b.remove_member(*r)?;
            }
            if spec2.resumption_psks_first {
                for e in &spec2.resumption_psk_epochs {
                    b = b.add_resumption_psk(*e)?;
                }
            }
            for id in &spec2.external_psks {
                b = b.add_external_psk(mls_rs::psk::ExternalPskId::new(id.clone()))?;
            }
            if !spec2.resumption_psks_first {
                for e in &spec2.resumption_psk_epochs {
                    b = b.add_resumption_psk(*e)?;
                }
            }
            if let Some(data) = &spec2.gce {
                let mut ext = ExtensionList::new();
                ext.set(Extension::new(EXT_TYPE.into(), data.clone()));
                b = b.set_group_context_ext(ext)?;
            }
            if let Some(data) = &spec2.custom {
                b = b.custom_proposal(CustomProposal::new(ProposalType::new(CUSTOM_PROPOSAL), data.clone()));
            }
            if let Some((leaf, with_path)) = spec2.kick {
                let ty = if with_path { KICK_WITH_PATH_PROPOSAL } else { KICK_PROPOSAL };
                b = b.custom_proposal(CustomProposal::new(ProposalType::new(ty), leaf.to_be_bytes().to_vec()));
            }
            if let Some((sk, id)) = new_id2 {
                b = b.set_new_signing_identity(sk, id);
            }
            b.authenticated_data(spec2.aad.clone()).commit_time(t).build()
        });
        if record {
            let (h, a) = self.parties[committer].crypto.log.stop();
            self.last_commit_hpke = h;
            self.last_commit_aead = a;
        }
        if r.is_ok() {
            if let Some(ni) = new_id {
                self.parties[committer].pending_identity = Some(ni);
            }
        }
        Ok(r)
    }

    /// Full commit round: flush traffic, build at `committer`, deliver to all other members,
    /// apply at the committer, join the added parties. Returns Ok(None) when the library refused
    /// to build the commit (the caller decides whether that matters).
    pub fn commit_round(&mut self, committer: usize, spec: &CommitSpec) -> Result<Result<CommitInfo, OpErr>, Failure> {
        self.commit_round_with(committer, spec, &mut |_, _| Ok(()))
    }

    /// `commit_round` with a hook that runs right before each receiver processes the genuine
    /// commit (used to inject rejected messages, withhold PSKs, ...).
    pub fn commit_round_with(
        &mut self,
        committer: usize,
        spec: &CommitSpec,
        hook: &mut dyn FnMut(&mut World, Stage) -> CaseResult,
    ) -> Result<Result<CommitInfo, OpErr>, Failure> {
        let prop = self.prop;
        self.flush(spec.order)?;
        let epoch_before = self.epoch;
        let members_before = self.members();
        let out = match self.build_commit(committer, spec)? {
            Ok(o) => o,
            Err(e) if e.is_panic() => return Err(panic_failure(prop, "commit_builder.build", &e)),
            Err(e) => {
                self.parties[committer].pending_identity = None;
                return Ok(Err(e));
            }
        };
        let commit_bytes = out.commit_message.to_bytes().expect("commit encodes");
        self.log_wire("commit", &commit_bytes);
        hook(self, Stage::AfterBuild { committer })?;
        let mut welcome_bytes = vec![];
        for w in &out.welcome_messages {
            let b = w.to_bytes().expect("welcome encodes");
            self.log_wire("welcome", &b);
            welcome_bytes.push(b);
        }
        let tree_oob = match &out.ratchet_tree {
            Some(t) => Some(t.to_bytes().expect("tree encodes")),
            None => None,
        };
        if let Some(t) = &tree_oob {
            self.log_wire("tree", t);
        }

        // receivers
        let mut removed = vec![];
        let mut leaves_removed_by_value: Vec<u32> = spec.remove.clone();
        leaves_removed_by_value.extend(spec.kick.map(|k| k.0));
        for m in &members_before {
            if *m == committer {
                continue;
            }
            let must_be_told = leaves_removed_by_value.contains(&self.parties[*m].leaf());
            hook(self, Stage::BeforeReceive { receiver: *m, bytes: &commit_bytes })?;
            let r = self.process(*m, &commit_bytes);
            match r {
                Err(e) if e.is_panic() => return Err(panic_failure(prop, "process_incoming_message(commit)", &e)),
                Err(e) => {
                    return Err(Failure::new(
                        format!("{prop}|receiver_rejects_commit|{}", e.class()),
                        format!(
                            "party {m} (leaf {}) rejected the commit of party {committer} (leaf {}) in epoch {epoch_before}: {}",
                            self.parties[*m].leaf(),
                            self.parties[committer].leaf(),
                            e.text()
                        ),
                    ))
                }
                Ok(ReceivedMessage::Commit(d)) => {
                    if d.committer != self.parties[committer].leaf() || d.authenticated_data != spec.aad || d.is_external {
                        return Err(Failure::new(
                            format!("{prop}|commit_misreported"),
                            format!("party {m}: committer {} external {}", d.committer, d.is_external),
                        ));
                    }
                    match d.effect {
                        CommitEffect::Removed { .. } => removed.push(*m),
                        _ if must_be_told => {
                            return Err(Failure::new(
                                format!("{prop}|removed_member_not_told"),
                                format!("party {m}: the commit of party {committer} in epoch {epoch_before} removes its leaf (by value: {:?}, kick: {:?}) but it reports {:?}", spec.remove, spec.kick, &format!("{:?}", d.effect).chars().take(40).collect::<String>()),
                            ))
                        }
                        CommitEffect::NewEpoch(_) => {}
                        CommitEffect::ReInit(_) => {}
                    }
                }
                Ok(o) => {
                    return Err(Failure::new(
                        format!("{prop}|commit_wrong_kind"),
                        format!("party {m}: commit reported as {o:?}"),
                    ))
                }
            }
        }
        // committer applies
        {
            let party = &mut self.parties[committer];
            match guard(|| party.gm().apply_pending_commit()) {
                Ok(_) => {}
                Err(e) if e.is_panic() => return Err(panic_failure(prop, "apply_pending_commit", &e)),
                Err(e) => {
                    return Err(Failure::new(
                        format!("{prop}|apply_pending_commit_failed|{}", e.class()),
                        format!("party {committer}: {}", e.text()),
                    ))
                }
            }
            if let Some((sk, id)) = party.pending_identity.take() {
                party.signer = sk;
                party.identity = id;
            }
        }
        if spec.new_identity {
            self.rebuild_client(committer);
        }
        for r in &removed {
            self.parties[*r].status = Status::Removed;
        }
        self.epoch = epoch_before + 1;
        self.commits += 1;

        // an update proposal with identity change that was just committed switches that member's signer
        for m in self.members() {
            if m == committer {
                continue;
            }
            let party = &mut self.parties[m];
            if let Some((sk, id)) = party.pending_identity.clone() {
                let cur = party.g().current_member_signing_identity().ok().cloned();
                if cur.as_ref() == Some(&id) {
                    party.signer = sk;
                    party.identity = id;
                    party.pending_identity = None;
                    self.rebuild_client(m);
                } else {
                    // proposal was not committed (dropped / superseded): the attempt is over
                    party.pending_identity = None;
                }
            }
        }

        // joiners
        let mut joined = vec![];
        let roster_names: Vec<Vec<u8>> = self.parties[committer]
            .g()
            .roster()
            .members()
            .into_iter()
            .filter_map(|m| m.signing_identity.credential.as_basic().map(|b| b.identifier.clone()))
            .collect();
        let mut candidates = spec.add.clone();
        for c in &spec.by_ref_add_candidates {
            if !candidates.contains(c) {
                candidates.push(*c);
            }
        }
        for a in &candidates {
            if !roster_names.contains(&self.parties[*a].name) {
                if spec.add.contains(a) {
                    return Err(Failure::new(
                        format!("{prop}|by_value_add_not_in_roster"),
                        format!("party {a} was added by value but is not in the committer's roster"),
                    ));
                }
                continue;
            }
            let t = self.now();
            let mut ok = false;
            let mut last_err = None;
            let tree = tree_oob.clone();
            let party = &mut self.parties[*a];
            for wb in &welcome_bytes {
                let tree = tree.clone();
                let r = guard(|| {
                    let w = MlsMessage::from_bytes(wb)?;
                    let tree = match &tree {
                        Some(t) => Some(ExportedTree::from_bytes(t)?),
                        None => None,
                    };
                    party.client.join_group(tree, &w, Some(t))
                });
                match r {
                    Ok((g, _info)) => {
                        party.group = Some(g);
                        party.status = Status::Member;
                        party.joined_epoch = epoch_before + 1;
                        ok = true;
                        break;
                    }
                    Err(e) if e.is_panic() => return Err(panic_failure(prop, "join_group", &e)),
                    Err(e) => last_err = Some(e),
                }
            }
            if !ok {
                let e = last_err.unwrap_or(OpErr::Mls("no welcome produced".into()));
                return Err(Failure::new(
                    format!("{prop}|joiner_rejects_welcome|{}", e.class()),
                    format!(
                        "party {a} could not join with any of {} welcome(s) (tree out of band: {}): {}",
                        welcome_bytes.len(),
                        tree_oob.is_some(),
                        e.text()
                    ),
                ));
            }
            joined.push(*a);
        }

        Ok(Ok(CommitInfo {
            committer,
            epoch_before,
            had_path: out.contains_update_path,
            joined,
            removed,
            commit_bytes,
            welcome_bytes,
            external: false,
            unused: out.unused_proposals.len(),
            tree_oob,
            kick: spec.kick,
        }))
    }

    /// External commit by party `joiner` (outside or removed), using the GroupInfo of member `via`.
    /// `remove_leaf`: old leaf of the same identity to remove (resync / rejoin).
    pub fn external_commit_round(
        &mut self,
        joiner: usize,
        via: usize,
        remove_leaf: Option<u32>,
        tree_in_info: bool,
        order: u16,
    ) -> Result<Result<CommitInfo, OpErr>, Failure> {
        self.external_commit_round_with(joiner, via, remove_leaf, tree_in_info, order, &mut |_, _| Ok(()))
    }

    #[allow(clippy::too_many_arguments)]
    pub fn external_commit_round_with(
        &mut self,
        joiner: usize,
        via: usize,
        remove_leaf: Option<u32>,
        tree_in_info: bool,
        order: u16,
        hook: &mut dyn FnMut(&mut World, Stage) -> CaseResult,
    ) -> Result<Result<CommitInfo, OpErr>, Failure> {
        let prop = self.prop;
        self.drop_twin(joiner);
        self.flush(order)?;
        let epoch_before = self.epoch;
        let t = self.tick();
        let members_before = self.members();
        let (gi_bytes, tree_bytes) = {
            let party = &self.parties[via];
            let gi = match guard(|| party.g().group_info_message_allowing_ext_commit(tree_in_info)) {
                Ok(g) => g,
                Err(e) if e.is_panic() => return Err(panic_failure(prop, "group_info_message", &e)),
                Err(e) => return Ok(Err(e)),
            };
            let tree = (!tree_in_info).then(|| party.g().export_tree().to_bytes().expect("tree"));
            (gi.to_bytes().expect("gi"), tree)
        };
        self.log_wire("group_info", &gi_bytes);
        let record = self.record_crypto;
        let party = &mut self.parties[joiner];
        if record {
            party.crypto.log.start();
        }
        let r = guard(|| {
            let gi = MlsMessage::from_bytes(&gi_bytes)?;
            let mut b = party.client.external_commit_builder()?.commit_time(t);
            if let Some(tb) = &tree_bytes {
                b = b.with_tree_data(ExportedTree::from_bytes(tb)?.into_owned());
            }
            if let Some(l) = remove_leaf {
                b = b.with_removal(l);
            }
            b.build(gi)
        });
        if record {
            let (h, a) = self.parties[joiner].crypto.log.stop();
            self.last_commit_hpke = h;
            self.last_commit_aead = a;
        }
        let (g, commit) = match r {
            Ok(x) => x,
            Err(e) if e.is_panic() => return Err(panic_failure(prop, "external_commit_builder.build", &e)),
            Err(e) => return Ok(Err(e)),
        };
        let commit_bytes = commit.to_bytes().expect("commit");
        self.log_wire("external_commit", &commit_bytes);
        let new_leaf = g.current_member_index();
        let mut removed = vec![];
        for m in &members_before {
            if *m == joiner {
                continue;
            }
            hook(self, Stage::BeforeReceive { receiver: *m, bytes: &commit_bytes })?;
            match self.process(*m, &commit_bytes) {
                Err(e) if e.is_panic() => return Err(panic_failure(prop, "process_incoming_message(external commit)", &e)),
                Err(e) => {
                    return Err(Failure::new(
                        format!("{prop}|receiver_rejects_external_commit|{}", e.class()),
                        format!("party {m} rejected the external commit of party {joiner}: {}", e.text()),
                    ))
                }
                Ok(ReceivedMessage::Commit(d)) => {
                    if !d.is_external || d.committer != new_leaf {
                        return Err(Failure::new(
                            format!("{prop}|commit_misreported"),
                            format!("party {m}: external commit reported committer {} external {}", d.committer, d.is_external),
                        ));
                    }
                    if let CommitEffect::Removed { .. } = d.effect {
                        removed.push(*m);
                    }
                }
                Ok(o) => {
                    return Err(Failure::new(
                        format!("{prop}|commit_wrong_kind"),
                        format!("party {m}: {o:?}"),
                    ))
                }
            }
        }
        for r in &removed {
            self.parties[*r].status = Status::Removed;
        }
        let party = &mut self.parties[joiner];
        party.group = Some(g);
        party.status = Status::Member;
        party.joined_epoch = epoch_before + 1;
        self.epoch = epoch_before + 1;
        self.commits += 1;
        Ok(Ok(CommitInfo {
            committer: joiner,
            epoch_before,
            had_path: true,
            joined: vec![joiner],
            removed,
            commit_bytes,
            welcome_bytes: vec![],
            external: true,
            unused: 0,
            tree_oob: None,
            kick: None,
        }))
    }

    // ---- oracles ---------------------------------------------------------------------------

    /// N-way agreement of all current members (C01 core oracle).
    pub fn agree(&mut self, export_probe: &[(Vec<u8>, Vec<u8>, usize)]) -> CaseResult {
        let prop = self.prop;
        let members = self.members();
        if members.is_empty() {
            return Ok(());
        }
        let fail = |what: &str, a: usize, b: usize, detail: String| {
            Err(Failure::new(
                format!("{prop}|disagree|{what}"),
                format!("members {a} and {b} differ in {what}: {detail}"),
            ))
        };
        let first = members[0];
        let g0 = self.parties[first].g();
        if g0.current_epoch() != self.epoch {
            return Err(Failure::new(
                format!("{prop}|epoch_not_incremented_by_one"),
                format!("party {first} is in epoch {} but {} commits were accepted since creation (expected {})", g0.current_epoch(), self.commits, self.epoch),
            ));
        }
        let ctx0 = g0.context().clone();
        let tree0 = g0.export_tree().to_bytes().expect("tree");
        let roster0: Vec<_> = g0.roster().members().into_iter().map(|m| (m.index, m.signing_identity)).collect();
        let auth0 = guard(|| g0.epoch_authenticator()).map(|s| s.as_bytes().to_vec());
        let exp0: Vec<_> = export_probe
            .iter()
            .map(|(l, c, n)| guard(|| g0.export_secret(l, c, *n)).map(|s| s.as_bytes().to_vec()).map_err(|e| e.class()))
            .collect();
        for m in members.iter().skip(1) {
            let g = self.parties[*m].g();
            if g.context() != &ctx0 {
                let c = g.context();
                let what = if c.epoch != ctx0.epoch {
                    "context.epoch"
                } else if c.tree_hash != ctx0.tree_hash {
                    "context.tree_hash"
                } else if c.confirmed_transcript_hash != ctx0.confirmed_transcript_hash {
                    "context.confirmed_transcript_hash"
                } else if c.extensions != ctx0.extensions {
                    "context.extensions"
                } else {
                    "context.other"
                };
                return fail(what, first, *m, format!("epoch {} vs {}", ctx0.epoch, c.epoch));
            }
            let tree = g.export_tree().to_bytes().expect("tree");
            if tree != tree0 {
                return fail("exported_tree", first, *m, format!("{} vs {} bytes", tree0.len(), tree.len()));
            }
            let roster: Vec<_> = g.roster().members().into_iter().map(|m| (m.index, m.signing_identity)).collect();
            if roster != roster0 {
                return fail("roster", first, *m, format!("{} vs {} members", roster0.len(), roster.len()));
            }
            let auth = guard(|| g.epoch_authenticator()).map(|s| s.as_bytes().to_vec());
            match (&auth0, &auth) {
                (Ok(a), Ok(b)) if a == b => {}
                _ => return fail("epoch_authenticator", first, *m, String::new()),
            }
            for (i, (l, c, n)) in export_probe.iter().enumerate() {
                let e = guard(|| g.export_secret(l, c, *n)).map(|s| s.as_bytes().to_vec()).map_err(|e| e.class());
                if e != exp0[i] {
                    return fail("export_secret", first, *m, format!("label {} len {n}", hex::encode(l)));
                }
            }
        }
        // roster must be exactly the harness's member set (identities)
        let mut want: Vec<Vec<u8>> = members.iter().map(|m| self.parties[*m].name.clone()).collect();
        want.sort();
        let mut got: Vec<Vec<u8>> = roster0
            .iter()
            .filter_map(|(_, id)| id.credential.as_basic().map(|b| b.identifier.clone()))
            .collect();
        got.sort();
        if want != got {
            return Err(Failure::new(
                format!("{prop}|roster_not_member_set"),
                format!("roster has {} identities, {} parties follow the group", got.len(), want.len()),
            ));
        }
        Ok(())
    }

    /// Every member encrypts one application message; every other member decrypts it.
    pub fn cross_decrypt(&mut self, tag: u64) -> CaseResult {
        let members = self.members();
        for (i, m) in members.iter().enumerate() {
            let payload = format!("x-{tag}-{i}").into_bytes();
            let aad = vec![i as u8, tag as u8];
            if let Err(e) = self.send_app(*m, payload, aad) {
                let prop = self.prop;
                if e.is_panic() {
                    return Err(panic_failure(prop, "encrypt_application_message", &e));
                }
                return Err(Failure::new(
                    format!("{prop}|member_cannot_encrypt|{}", e.class()),
                    format!("party {m}: {}", e.text()),
                ));
            }
        }
        self.flush(tag as u16)
    }
}

/// Deterministic permutation of 0..n from a seed.
pub fn permutation(n: usize, seed: u64) -> Vec<usize> {
    let mut v: Vec<usize> = (0..n).collect();
    let mut r = crate::engine::SplitMix::new(seed, 77);
    if seed & 0xffff == 0 {
        return v;
    }
    for i in (1..n).rev() {
        let j = r.below(i as u64 + 1) as usize;
        v.swap(i, j);
    }
    v
}

impl World {
    /// `write_to_storage` at party p.
    pub fn save(&mut self, p: usize) -> Result<(), OpErr> {
        let party = &mut self.parties[p];
        guard(|| party.gm().write_to_storage())
    }

    /// The application keeps the ratchet tree elsewhere: tree-less write, returns the tree it has to keep.
    pub fn save_tree_less(&mut self, p: usize) -> Result<Vec<u8>, OpErr> {
        let party = &mut self.parties[p];
        let tree = party.g().export_tree().to_bytes().map_err(|e| OpErr::Mls(format!("{e:?}")))?;
        guard(|| party.gm().write_to_storage_without_ratchet_tree())?;
        Ok(tree)
    }

    /// Counterpart of `save_tree_less`.
    pub fn reload_with_tree(&mut self, p: usize, tree: &[u8]) -> Result<(), OpErr> {
        self.drop_twin(p);
        let gid = self.group_id.clone();
        let party = &mut self.parties[p];
        let g = guard(|| party.client.load_group_with_ratchet_tree(&gid, ExportedTree::from_bytes(tree)?))?;
        party.group = Some(g);
        Ok(())
    }

    /// Drop the in-memory group of party p and load it again from its storage.
    pub fn reload(&mut self, p: usize) -> Result<(), OpErr> {
        self.drop_twin(p);
        let gid = self.group_id.clone();
        let party = &mut self.parties[p];
        let g = guard(|| party.client.load_group(&gid))?;
        party.group = Some(g);
        Ok(())
    }
}
