//! mlsv — property-based verification harness for awslabs/mls-rs (see /verif/DESIGN.md).
mod alloc_track;
mod engine;
mod forge;
mod history;
mod mutate;
mod providers;
mod world;
mod props;
mod refmodel;

use engine::Tier;

#[global_allocator]
static GLOBAL: alloc_track::CountingAlloc = alloc_track::CountingAlloc;

pub struct Ctx {
    pub tier: Tier,
    pub seed: u64,
    pub replay: Option<std::path::PathBuf>,
}

fn usage() -> ! {
    eprintln!("usage: mlsv <C01..C20> [quick|thorough] [--replay <file>]");
    std::process::exit(2);
}

fn main() {
    let args: Vec<String> = std::env::args().skip(1).collect();
    if args.is_empty() {
        usage();
    }
    let prop = args[0].to_uppercase();
    let mut tier = match std::env::var("VERIF_TIER").ok().as_deref() {
        Some("thorough") => Tier::Thorough,
        _ => Tier::Quick,
    };
    let mut replay = None;
    let mut i = 1;
    while i < args.len() {
        match args[i].as_str() {
            "quick" => tier = Tier::Quick,
            "thorough" => tier = Tier::Thorough,
            "--replay" => {
                i += 1;
                replay = Some(std::path::PathBuf::from(args.get(i).unwrap_or_else(|| usage())));
            }
            _ => usage(),
        }
        i += 1;
    }
    let seed = std::env::var("VERIF_SEED")
        .ok()
        .and_then(|s| s.trim().parse::<i128>().ok())
        .map(|s| s as u64)
        .unwrap_or(20260922);

    engine::install_panic_hook();
    let ctx = Ctx { tier, seed, replay };
    props::dispatch(&prop, &ctx);
}
