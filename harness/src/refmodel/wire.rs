//! Span-level parser of MLS wire messages (RFC 9420 §6, §12), independent of /repo: enough to
//! address *fields* (for mutation / splicing) and to cut the TBS / TBM / transcript inputs out of
//! real messages.

use super::tls::Reader;
use super::tree::parse_leaf;

#[derive(Clone, Debug, PartialEq, Eq)]
pub struct Span {
    pub name: String,
    pub start: usize,
    pub end: usize,
}

pub struct Rec<'a> {
    pub r: Reader<'a>,
    pub spans: Vec<Span>,
    prefix: Vec<String>,
}

impl<'a> Rec<'a> {
    pub fn new(b: &'a [u8]) -> Self {
        Rec { r: Reader::new(b), spans: vec![], prefix: vec![] }
    }
    fn name(&self, n: &str) -> String {
        if self.prefix.is_empty() {
            n.to_string()
        } else {
            format!("{}.{n}", self.prefix.join("."))
        }
    }
    fn mark(&mut self, n: &str, start: usize) {
        let name = self.name(n);
        self.spans.push(Span { name, start, end: self.r.pos });
    }
    fn push(&mut self, n: &str) {
        self.prefix.push(n.to_string());
    }
    fn pop(&mut self) {
        self.prefix.pop();
    }
    fn u8(&mut self, n: &str) -> Option<u8> {
        let s = self.r.pos;
        let v = self.r.u8()?;
        self.mark(n, s);
        Some(v)
    }
    fn u16(&mut self, n: &str) -> Option<u16> {
        let s = self.r.pos;
        let v = self.r.u16()?;
        self.mark(n, s);
        Some(v)
    }
    fn u32(&mut self, n: &str) -> Option<u32> {
        let s = self.r.pos;
        let v = self.r.u32()?;
        self.mark(n, s);
        Some(v)
    }
    fn u64(&mut self, n: &str) -> Option<u64> {
        let s = self.r.pos;
        let v = self.r.u64()?;
        self.mark(n, s);
        Some(v)
    }
    fn opaque(&mut self, n: &str) -> Option<&'a [u8]> {
        let s = self.r.pos;
        let v = self.r.opaque()?;
        self.mark(n, s);
        Some(v)
    }
}

fn leaf_node(c: &mut Rec, n: &str) -> Option<()> {
    let s = c.r.pos;
    c.push(n);
    c.opaque("encryption_key")?;
    c.opaque("signature_key")?;
    c.u16("credential_type")?;
    c.opaque("credential")?;
    c.opaque("capabilities.versions")?;
    c.opaque("capabilities.cipher_suites")?;
    c.opaque("capabilities.extensions")?;
    c.opaque("capabilities.proposals")?;
    c.opaque("capabilities.credentials")?;
    match c.u8("source")? {
        1 => {
            c.u64("not_before")?;
            c.u64("not_after")?;
        }
        2 => {}
        3 => {
            c.opaque("parent_hash")?;
        }
        _ => return None,
    }
    c.opaque("extensions")?;
    c.opaque("signature")?;
    c.pop();
    c.mark(n, s);
    Some(())
}

fn key_package(c: &mut Rec, n: &str) -> Option<()> {
    let s = c.r.pos;
    c.push(n);
    c.u16("version")?;
    c.u16("cipher_suite")?;
    c.opaque("init_key")?;
    leaf_node(c, "leaf_node")?;
    c.opaque("extensions")?;
    c.opaque("signature")?;
    c.pop();
    c.mark(n, s);
    Some(())
}

fn psk_id(c: &mut Rec) -> Option<()> {
    match c.u8("psk_type")? {
        1 => {
            c.opaque("psk_id")?;
        }
        2 => {
            c.u8("usage")?;
            c.opaque("psk_group_id")?;
            c.u64("psk_epoch")?;
        }
        _ => return None,
    }
    c.opaque("psk_nonce")?;
    Some(())
}

fn proposal(c: &mut Rec) -> Option<u16> {
    let ty = c.u16("proposal_type")?;
    match ty {
        1 => key_package(c, "add.key_package")?,
        2 => leaf_node(c, "update.leaf_node")?,
        3 => {
            c.u32("remove.leaf")?;
        }
        4 => {
            c.push("psk");
            psk_id(c)?;
            c.pop();
        }
        5 => {
            c.opaque("reinit.group_id")?;
            c.u16("reinit.version")?;
            c.u16("reinit.cipher_suite")?;
            c.opaque("reinit.extensions")?;
        }
        6 => {
            c.opaque("external_init.kem_output")?;
        }
        7 => {
            c.opaque("gce.extensions")?;
        }
        _ => {
            c.opaque("custom.data")?;
        }
    }
    Some(ty)
}

fn commit(c: &mut Rec) -> Option<()> {
    // proposals<V>: parse the inside for spans
    let s = c.r.pos;
    let body = c.r.opaque()?;
    c.mark("commit.proposals", s);
    {
        let base = c.r.pos - body.len();
        let mut inner = Rec::new(body);
        let mut i = 0;
        while !inner.r.is_empty() {
            inner.push(&format!("commit.proposals[{i}]"));
            match inner.u8("kind")? {
                1 => {
                    proposal(&mut inner)?;
                }
                2 => {
                    inner.opaque("reference")?;
                }
                _ => return None,
            }
            inner.pop();
            i += 1;
        }
        for sp in inner.spans {
            c.spans.push(Span { name: sp.name, start: sp.start + base, end: sp.end + base });
        }
    }
    match c.u8("commit.has_path")? {
        0 => {}
        1 => {
            leaf_node(c, "commit.path.leaf_node")?;
            let s = c.r.pos;
            let nodes = c.r.opaque()?;
            c.mark("commit.path.nodes", s);
            let base = c.r.pos - nodes.len();
            let mut inner = Rec::new(nodes);
            let mut i = 0;
            while !inner.r.is_empty() {
                inner.push(&format!("commit.path.nodes[{i}]"));
                inner.opaque("encryption_key")?;
                let s2 = inner.r.pos;
                let cts = inner.r.opaque()?;
                inner.mark("ciphertexts", s2);
                let base2 = inner.r.pos - cts.len();
                let mut in2 = Rec::new(cts);
                let mut j = 0;
                while !in2.r.is_empty() {
                    in2.opaque(&format!("commit.path.nodes[{i}].ct[{j}].kem_output"))?;
                    in2.opaque(&format!("commit.path.nodes[{i}].ct[{j}].ciphertext"))?;
                    j += 1;
                }
                for sp in in2.spans {
                    inner.spans.push(Span { name: sp.name, start: sp.start + base2, end: sp.end + base2 });
                }
                inner.pop();
                i += 1;
            }
            for sp in inner.spans {
                c.spans.push(Span { name: sp.name, start: sp.start + base, end: sp.end + base });
            }
        }
        _ => return None,
    }
    Some(())
}

pub struct FramedInfo {
    pub start: usize,
    pub end: usize,
    pub group_id: Vec<u8>,
    pub epoch: u64,
    pub sender_type: u8,
    pub sender_index: Option<u32>,
    pub content_type: u8,
}

fn framed_content(c: &mut Rec) -> Option<FramedInfo> {
    let start = c.r.pos;
    let group_id = c.opaque("group_id")?.to_vec();
    let epoch = c.u64("epoch")?;
    let sender_type = c.u8("sender_type")?;
    let sender_index = match sender_type {
        1 | 2 => Some(c.u32("sender_index")?),
        3 | 4 => None,
        _ => return None,
    };
    c.opaque("authenticated_data")?;
    let content_type = c.u8("content_type")?;
    match content_type {
        1 => {
            c.opaque("application_data")?;
        }
        2 => {
            c.push("proposal");
            proposal(c)?;
            c.pop();
        }
        3 => commit(c)?,
        _ => return None,
    }
    let end = c.r.pos;
    c.spans.push(Span { name: "framed_content".into(), start, end });
    Some(FramedInfo { start, end, group_id, epoch, sender_type, sender_index, content_type })
}

pub struct AuthContentParts<'a> {
    pub wire_format: u16,
    pub framed_content: &'a [u8],
    pub signature: &'a [u8],
    pub confirmation_tag: Option<&'a [u8]>,
}

/// AuthenticatedContent = wire_format || FramedContent || signature<V> || [confirmation_tag<V>]
pub fn split_authenticated_content(b: &[u8]) -> Option<AuthContentParts<'_>> {
    let mut c = Rec::new(b);
    let wire_format = c.u16("wire_format")?;
    let f = framed_content(&mut c)?;
    let signature = c.r.opaque()?;
    let confirmation_tag = if f.content_type == 3 { Some(c.r.opaque()?) } else { None };
    Some(AuthContentParts { wire_format, framed_content: &b[f.start..f.end], signature, confirmation_tag })
}

pub struct PublicMessageParts<'a> {
    pub version: u16,
    pub framed: FramedInfo,
    pub framed_content: &'a [u8],
    pub signature: &'a [u8],
    pub confirmation_tag: Option<&'a [u8]>,
    pub membership_tag: Option<&'a [u8]>,
    /// FramedContentAuthData bytes (signature<V> [confirmation_tag<V>])
    pub auth_data: &'a [u8],
    pub spans: Vec<Span>,
}

/// Parse an MLSMessage carrying a PublicMessage.
pub fn parse_public_message(b: &[u8]) -> Option<PublicMessageParts<'_>> {
    let mut c = Rec::new(b);
    let version = c.u16("version")?;
    if c.u16("wire_format")? != 1 {
        return None;
    }
    let f = framed_content(&mut c)?;
    let auth_start = c.r.pos;
    let signature = c.opaque("signature")?;
    let confirmation_tag = if f.content_type == 3 { Some(c.opaque("confirmation_tag")?) } else { None };
    let auth_end = c.r.pos;
    let membership_tag = if f.sender_type == 1 { Some(c.opaque("membership_tag")?) } else { None };
    if !c.r.is_empty() {
        return None;
    }
    Some(PublicMessageParts {
        version,
        framed_content: &b[f.start..f.end],
        framed: f,
        signature,
        confirmation_tag,
        membership_tag,
        auth_data: &b[auth_start..auth_end],
        spans: c.spans,
    })
}

/// Labelled field ranges of any MLSMessage (public, private, welcome, group info, key package).
/// Returns None when the bytes do not parse as one complete message.
pub fn message_spans(b: &[u8]) -> Option<(u16, Vec<Span>)> {
    let mut c = Rec::new(b);
    c.u16("version")?;
    let wf = c.u16("wire_format")?;
    match wf {
        1 => {
            let f = framed_content(&mut c)?;
            c.opaque("signature")?;
            if f.content_type == 3 {
                c.opaque("confirmation_tag")?;
            }
            if f.sender_type == 1 {
                c.opaque("membership_tag")?;
            }
        }
        2 => {
            c.opaque("group_id")?;
            c.u64("epoch")?;
            c.u8("content_type")?;
            c.opaque("authenticated_data")?;
            c.opaque("encrypted_sender_data")?;
            c.opaque("ciphertext")?;
        }
        3 => {
            c.u16("welcome.cipher_suite")?;
            let s = c.r.pos;
            let secrets = c.r.opaque()?;
            c.mark("welcome.secrets", s);
            let base = c.r.pos - secrets.len();
            let mut inner = Rec::new(secrets);
            let mut i = 0;
            while !inner.r.is_empty() {
                inner.push(&format!("welcome.secrets[{i}]"));
                inner.opaque("new_member")?;
                inner.opaque("kem_output")?;
                inner.opaque("ciphertext")?;
                inner.pop();
                i += 1;
            }
            for sp in inner.spans {
                c.spans.push(Span { name: sp.name, start: sp.start + base, end: sp.end + base });
            }
            c.opaque("welcome.encrypted_group_info")?;
        }
        4 => {
            c.push("group_info");
            c.u16("context.version")?;
            c.u16("context.cipher_suite")?;
            c.opaque("context.group_id")?;
            c.u64("context.epoch")?;
            c.opaque("context.tree_hash")?;
            c.opaque("context.confirmed_transcript_hash")?;
            c.opaque("context.extensions")?;
            c.opaque("extensions")?;
            c.opaque("confirmation_tag")?;
            c.u32("signer")?;
            c.opaque("signature")?;
            c.pop();
        }
        5 => key_package(&mut c, "key_package")?,
        _ => return None,
    }
    if !c.r.is_empty() {
        return None;
    }
    Some((wf, c.spans))
}

/// Spans of an exported ratchet tree: per node, and the interesting fields of each node.
pub fn tree_spans(b: &[u8]) -> Option<Vec<Span>> {
    let mut outer = Reader::new(b);
    let body = outer.opaque()?;
    if !outer.is_empty() {
        return None;
    }
    let base = b.len() - body.len();
    let mut r = Reader::new(body);
    let mut spans = vec![];
    let mut i = 0;
    while !r.is_empty() {
        let s = r.pos;
        match r.u8()? {
            0 => {}
            1 => match r.u8()? {
                1 => {
                    parse_leaf(&mut r)?;
                }
                2 => {
                    r.opaque()?;
                    r.opaque()?;
                    r.opaque()?;
                }
                _ => return None,
            },
            _ => return None,
        }
        spans.push(Span { name: format!("node[{i}]"), start: base + s, end: base + r.pos });
        i += 1;
    }
    Some(spans)
}


/// Length of the encoded Commit struct at the start of `b` (what a PrivateMessage's decrypted content starts with).
pub fn commit_len(b: &[u8]) -> Option<usize> {
    let mut c = Rec::new(b);
    commit(&mut c)?;
    Some(c.r.pos)
}
