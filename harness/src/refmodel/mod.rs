//! Independent reference model written from the RFC 9420 text (shares no code with /repo).
pub mod keysched;
pub mod tls;
pub mod tree;
pub mod treemath;
pub mod wire;
