//! Minimal TLS-presentation-language reader/writer for MLS (RFC 9420 §2.1), independent of /repo.

#[derive(Clone, Copy)]
pub struct Reader<'a> {
    pub buf: &'a [u8],
    pub pos: usize,
}

impl<'a> Reader<'a> {
    pub fn new(buf: &'a [u8]) -> Self {
        Reader { buf, pos: 0 }
    }
    pub fn remaining(&self) -> usize {
        self.buf.len() - self.pos
    }
    pub fn is_empty(&self) -> bool {
        self.remaining() == 0
    }
    pub fn take(&mut self, n: usize) -> Option<&'a [u8]> {
        if self.remaining() < n {
            return None;
        }
        let s = &self.buf[self.pos..self.pos + n];
        self.pos += n;
        Some(s)
    }
    pub fn u8(&mut self) -> Option<u8> {
        self.take(1).map(|b| b[0])
    }
    pub fn u16(&mut self) -> Option<u16> {
        self.take(2).map(|b| u16::from_be_bytes([b[0], b[1]]))
    }
    pub fn u32(&mut self) -> Option<u32> {
        self.take(4).map(|b| u32::from_be_bytes([b[0], b[1], b[2], b[3]]))
    }
    pub fn u64(&mut self) -> Option<u64> {
        self.take(8).map(|b| u64::from_be_bytes(b.try_into().unwrap()))
    }
    /// Variable-length integer (RFC 9420 §2.1.2), minimal encoding required.
    pub fn varint(&mut self) -> Option<u32> {
        let first = self.u8()?;
        let (len, min) = match first >> 6 {
            0 => (1, 0u32),
            1 => (2, 64),
            2 => (4, 16384),
            _ => return None,
        };
        let mut v = (first & 0x3f) as u32;
        for _ in 1..len {
            v = (v << 8) | self.u8()? as u32;
        }
        if v < min {
            return None;
        }
        Some(v)
    }
    /// opaque<V>
    pub fn opaque(&mut self) -> Option<&'a [u8]> {
        let n = self.varint()? as usize;
        self.take(n)
    }
    /// A sub-reader over a `<V>` vector's contents.
    pub fn vector(&mut self) -> Option<Reader<'a>> {
        self.opaque().map(Reader::new)
    }
    /// Bytes consumed between `start` and the current position.
    pub fn span_from(&self, start: usize) -> &'a [u8] {
        &self.buf[start..self.pos]
    }
}

pub fn put_varint(out: &mut Vec<u8>, n: usize) {
    let n = n as u32;
    if n < 64 {
        out.push(n as u8);
    } else if n < 16384 {
        out.extend_from_slice(&((n as u16) | 0x4000).to_be_bytes());
    } else {
        assert!(n < (1 << 30));
        out.extend_from_slice(&(n | 0x8000_0000).to_be_bytes());
    }
}

pub fn put_opaque(out: &mut Vec<u8>, data: &[u8]) {
    put_varint(out, data.len());
    out.extend_from_slice(data);
}
