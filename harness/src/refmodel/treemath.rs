//! Left-balanced binary tree of RFC 9420 Appendix C, by its *recursive definition*:
//! a tree over leaves [lo, hi) (hi - lo a power of two) has root node `lo + hi - 1`
//! (leaf i is node 2i); for hi - lo > 1 its left subtree covers [lo, mid) and its right
//! subtree covers [mid, hi), mid = (lo + hi) / 2. No bit tricks.

#[derive(Clone, Debug, Default)]
pub struct RefTree {
    pub n_leaves: u32,
    pub root: u32,
    pub parent: Vec<Option<u32>>,
    pub left: Vec<Option<u32>>,
    pub right: Vec<Option<u32>>,
    pub sibling: Vec<Option<u32>>,
    /// level of each node (leaf = 0)
    pub level: Vec<u32>,
    /// leaf range [lo, hi) below each node
    pub range: Vec<(u32, u32)>,
}

impl RefTree {
    pub fn new(n_leaves: u32) -> RefTree {
        assert!(n_leaves.is_power_of_two());
        let width = (2 * n_leaves - 1) as usize;
        let mut t = RefTree {
            n_leaves,
            root: 0,
            parent: vec![None; width],
            left: vec![None; width],
            right: vec![None; width],
            sibling: vec![None; width],
            level: vec![0; width],
            range: vec![(0, 0); width],
        };
        t.root = t.build(0, n_leaves, None);
        t
    }

    fn build(&mut self, lo: u32, hi: u32, parent: Option<u32>) -> u32 {
        let me = lo + hi - 1;
        self.parent[me as usize] = parent;
        self.range[me as usize] = (lo, hi);
        if hi - lo == 1 {
            self.level[me as usize] = 0;
            return me;
        }
        let mid = lo + (hi - lo) / 2;
        let l = self.build(lo, mid, Some(me));
        let r = self.build(mid, hi, Some(me));
        self.left[me as usize] = Some(l);
        self.right[me as usize] = Some(r);
        self.sibling[l as usize] = Some(r);
        self.sibling[r as usize] = Some(l);
        self.level[me as usize] = self.level[l as usize] + 1;
        me
    }

    pub fn width(&self) -> u32 {
        2 * self.n_leaves - 1
    }

    /// (path node, copath node) pairs from `x`'s parent up to the root.
    pub fn direct_copath(&self, x: u32) -> Vec<(u32, u32)> {
        let mut out = vec![];
        let mut cur = x;
        while let Some(p) = self.parent[cur as usize] {
            out.push((p, self.sibling[cur as usize].unwrap()));
            cur = p;
        }
        out
    }

    /// Lowest common ancestor node of leaves `a`, `b` (leaf indices).
    pub fn lca(&self, a: u32, b: u32) -> u32 {
        let mut node = self.root;
        loop {
            let (lo, hi) = self.range[node as usize];
            if hi - lo == 1 {
                return node;
            }
            let mid = lo + (hi - lo) / 2;
            let side = |x: u32| x >= mid;
            if side(a) != side(b) {
                return node;
            }
            node = if side(a) {
                self.right[node as usize].unwrap()
            } else {
                self.left[node as usize].unwrap()
            };
        }
    }

    /// Nodes in breadth-first order from the root, left to right.
    pub fn bfs(&self) -> Vec<u32> {
        let mut out = vec![];
        let mut frontier = vec![self.root];
        while !frontier.is_empty() {
            let mut next = vec![];
            for n in &frontier {
                out.push(*n);
                if let (Some(l), Some(r)) = (self.left[*n as usize], self.right[*n as usize]) {
                    next.push(l);
                    next.push(r);
                }
            }
            frontier = next;
        }
        out
    }
}

/// Closed-form level/parent for huge sampled sizes where tables are too large: derived from the
/// recursive definition by descending from the root (O(log n) per query).
pub struct RefDescent {
    pub n_leaves: u32,
}

impl RefDescent {
    /// Returns (level, parent, sibling, range) of node x by descending from the root.
    pub fn locate(&self, x: u32) -> Option<(u32, Option<u32>, Option<u32>, (u32, u32))> {
        let n = self.n_leaves as u64;
        if (x as u64) > 2 * n - 2 {
            return None;
        }
        let (mut lo, mut hi) = (0u64, n);
        let mut parent = None;
        let mut sibling = None;
        loop {
            let me = lo + hi - 1;
            if me == x as u64 {
                let level = (hi - lo).trailing_zeros();
                return Some((level, parent, sibling, (lo as u32, hi as u32)));
            }
            let mid = lo + (hi - lo) / 2;
            parent = Some(me as u32);
            if (x as u64) < me {
                sibling = Some((mid + hi - 1) as u32);
                hi = mid;
            } else {
                sibling = Some((lo + mid - 1) as u32);
                lo = mid;
            }
        }
    }
}
