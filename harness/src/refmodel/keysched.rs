//! RFC 9420 §8-§9 derivations on bare SHA-2 / HMAC (independent of /repo): ExpandWithLabel,
//! DeriveSecret, key schedule, PSK chain, secret tree, ratchets, exporter, tags, transcript hashes.

use super::tls::{put_opaque, put_varint};
use hmac::{Hmac, Mac};
use sha2::{Digest, Sha256, Sha384, Sha512};

#[derive(Clone, Copy, PartialEq, Eq, Debug)]
pub struct Suite {
    pub id: u16,
    /// 0 = SHA-256, 1 = SHA-384, 2 = SHA-512
    pub hash: u8,
    pub nk: usize,
    pub nn: usize,
}

impl Suite {
    pub fn new(id: u16) -> Suite {
        let (hash, nk) = match id {
            1 | 2 => (0, 16),
            3 => (0, 32),
            4 | 5 | 6 => (2, 32),
            7 => (1, 32),
            _ => (0, 16),
        };
        Suite { id, hash, nk, nn: 12 }
    }
    pub fn nh(&self) -> usize {
        [32, 48, 64][self.hash as usize]
    }
    pub fn hash(&self, data: &[u8]) -> Vec<u8> {
        match self.hash {
            0 => Sha256::digest(data).to_vec(),
            1 => Sha384::digest(data).to_vec(),
            _ => Sha512::digest(data).to_vec(),
        }
    }
    pub fn hmac(&self, key: &[u8], data: &[u8]) -> Vec<u8> {
        match self.hash {
            0 => {
                let mut m = <Hmac<Sha256> as Mac>::new_from_slice(key).expect("hmac key");
                m.update(data);
                m.finalize().into_bytes().to_vec()
            }
            1 => {
                let mut m = <Hmac<Sha384> as Mac>::new_from_slice(key).expect("hmac key");
                m.update(data);
                m.finalize().into_bytes().to_vec()
            }
            _ => {
                let mut m = <Hmac<Sha512> as Mac>::new_from_slice(key).expect("hmac key");
                m.update(data);
                m.finalize().into_bytes().to_vec()
            }
        }
    }
    /// HKDF-Extract (RFC 5869)
    pub fn extract(&self, salt: &[u8], ikm: &[u8]) -> Vec<u8> {
        let zero = vec![0u8; self.nh()];
        self.hmac(if salt.is_empty() { &zero } else { salt }, ikm)
    }
    /// HKDF-Expand (RFC 5869)
    pub fn expand(&self, prk: &[u8], info: &[u8], len: usize) -> Vec<u8> {
        let mut out = Vec::with_capacity(len);
        let mut t: Vec<u8> = vec![];
        let mut i = 1u8;
        while out.len() < len {
            let mut data = t.clone();
            data.extend_from_slice(info);
            data.push(i);
            t = self.hmac(prk, &data);
            out.extend_from_slice(&t);
            i = i.wrapping_add(1);
        }
        out.truncate(len);
        out
    }
    pub fn expand_with_label(&self, secret: &[u8], label: &[u8], context: &[u8], len: usize) -> Vec<u8> {
        let mut info = vec![];
        info.extend_from_slice(&(len as u16).to_be_bytes());
        let mut full = b"MLS 1.0 ".to_vec();
        full.extend_from_slice(label);
        put_opaque(&mut info, &full);
        put_opaque(&mut info, context);
        self.expand(secret, &info, len)
    }
    pub fn derive_secret(&self, secret: &[u8], label: &[u8]) -> Vec<u8> {
        self.expand_with_label(secret, label, &[], self.nh())
    }
    pub fn derive_tree_secret(&self, secret: &[u8], label: &[u8], generation: u32, len: usize) -> Vec<u8> {
        self.expand_with_label(secret, label, &generation.to_be_bytes(), len)
    }
}

#[derive(Clone, Debug, PartialEq, Eq, Default)]
pub struct EpochSecretsRef {
    pub joiner_secret: Vec<u8>,
    pub welcome_secret: Vec<u8>,
    pub welcome_key: Vec<u8>,
    pub welcome_nonce: Vec<u8>,
    pub epoch_secret: Vec<u8>,
    pub sender_data_secret: Vec<u8>,
    pub encryption_secret: Vec<u8>,
    pub exporter_secret: Vec<u8>,
    pub external_secret: Vec<u8>,
    pub confirmation_key: Vec<u8>,
    pub membership_key: Vec<u8>,
    pub resumption_psk: Vec<u8>,
    pub epoch_authenticator: Vec<u8>,
    pub init_secret: Vec<u8>,
}

pub fn key_schedule(s: &Suite, init_secret: &[u8], commit_secret: &[u8], group_context: &[u8], psk_secret: &[u8]) -> EpochSecretsRef {
    let nh = s.nh();
    let joiner_seed = s.extract(init_secret, commit_secret);
    let joiner_secret = s.expand_with_label(&joiner_seed, b"joiner", group_context, nh);
    from_joiner(s, &joiner_secret, group_context, psk_secret)
}

pub fn from_joiner(s: &Suite, joiner_secret: &[u8], group_context: &[u8], psk_secret: &[u8]) -> EpochSecretsRef {
    let nh = s.nh();
    let member = s.extract(joiner_secret, psk_secret);
    let welcome_secret = s.derive_secret(&member, b"welcome");
    let epoch_secret = s.expand_with_label(&member, b"epoch", group_context, nh);
    EpochSecretsRef {
        joiner_secret: joiner_secret.to_vec(),
        welcome_key: s.expand_with_label(&welcome_secret, b"key", &[], s.nk),
        welcome_nonce: s.expand_with_label(&welcome_secret, b"nonce", &[], s.nn),
        welcome_secret,
        sender_data_secret: s.derive_secret(&epoch_secret, b"sender data"),
        encryption_secret: s.derive_secret(&epoch_secret, b"encryption"),
        exporter_secret: s.derive_secret(&epoch_secret, b"exporter"),
        external_secret: s.derive_secret(&epoch_secret, b"external"),
        confirmation_key: s.derive_secret(&epoch_secret, b"confirm"),
        membership_key: s.derive_secret(&epoch_secret, b"membership"),
        resumption_psk: s.derive_secret(&epoch_secret, b"resumption"),
        epoch_authenticator: s.derive_secret(&epoch_secret, b"authentication"),
        init_secret: s.derive_secret(&epoch_secret, b"init"),
        epoch_secret,
    }
}

#[derive(Clone, Debug, PartialEq, Eq)]
pub enum PskIdRef {
    External { id: Vec<u8>, nonce: Vec<u8> },
    Resumption { usage: u8, group_id: Vec<u8>, epoch: u64, nonce: Vec<u8> },
}

impl PskIdRef {
    pub fn encode(&self) -> Vec<u8> {
        let mut out = vec![];
        match self {
            PskIdRef::External { id, nonce } => {
                out.push(1);
                put_opaque(&mut out, id);
                put_opaque(&mut out, nonce);
            }
            PskIdRef::Resumption { usage, group_id, epoch, nonce } => {
                out.push(2);
                out.push(*usage);
                put_opaque(&mut out, group_id);
                out.extend_from_slice(&epoch.to_be_bytes());
                put_opaque(&mut out, nonce);
            }
        }
        out
    }
}

pub fn psk_secret(s: &Suite, psks: &[(PskIdRef, Vec<u8>)]) -> Vec<u8> {
    let nh = s.nh();
    let mut secret = vec![0u8; nh];
    let count = psks.len() as u16;
    for (i, (id, psk)) in psks.iter().enumerate() {
        let extracted = s.extract(&vec![0u8; nh], psk);
        let mut label = id.encode();
        label.extend_from_slice(&(i as u16).to_be_bytes());
        label.extend_from_slice(&count.to_be_bytes());
        let input = s.expand_with_label(&extracted, b"derived psk", &label, nh);
        secret = s.extract(&input, &secret);
    }
    secret
}

pub fn exporter(s: &Suite, exporter_secret: &[u8], label: &[u8], context: &[u8], len: usize) -> Vec<u8> {
    let d = s.derive_secret(exporter_secret, label);
    s.expand_with_label(&d, b"exported", &s.hash(context), len)
}

/// Secret of tree node `node` in a secret tree with `n_leaves` leaves (power of two), by descending
/// from the root along the recursive tree definition.
pub fn secret_tree_node(s: &Suite, encryption_secret: &[u8], n_leaves: u32, node: u32) -> Vec<u8> {
    let (mut lo, mut hi) = (0u64, n_leaves as u64);
    let mut secret = encryption_secret.to_vec();
    loop {
        let me = lo + hi - 1;
        if me == node as u64 {
            return secret;
        }
        let mid = lo + (hi - lo) / 2;
        if (node as u64) < me {
            secret = s.expand_with_label(&secret, b"tree", b"left", s.nh());
            hi = mid;
        } else {
            secret = s.expand_with_label(&secret, b"tree", b"right", s.nh());
            lo = mid;
        }
    }
}

/// (key, nonce) of generation `generation` of the leaf's handshake / application ratchet.
pub fn ratchet_key(s: &Suite, encryption_secret: &[u8], n_leaves: u32, leaf: u32, handshake: bool, generation: u32) -> (Vec<u8>, Vec<u8>) {
    let leaf_secret = secret_tree_node(s, encryption_secret, n_leaves, 2 * leaf);
    let label: &[u8] = if handshake { b"handshake" } else { b"application" };
    let mut secret = s.expand_with_label(&leaf_secret, label, &[], s.nh());
    for j in 0..generation {
        secret = s.derive_tree_secret(&secret, b"secret", j, s.nh());
    }
    (
        s.derive_tree_secret(&secret, b"key", generation, s.nk),
        s.derive_tree_secret(&secret, b"nonce", generation, s.nn),
    )
}

pub fn sender_data_key(s: &Suite, sender_data_secret: &[u8], ciphertext: &[u8]) -> (Vec<u8>, Vec<u8>) {
    let sample = &ciphertext[..ciphertext.len().min(s.nh())];
    (
        s.expand_with_label(sender_data_secret, b"key", sample, s.nk),
        s.expand_with_label(sender_data_secret, b"nonce", sample, s.nn),
    )
}

pub fn confirmation_tag(s: &Suite, confirmation_key: &[u8], confirmed_transcript_hash: &[u8]) -> Vec<u8> {
    s.hmac(confirmation_key, confirmed_transcript_hash)
}

/// confirmed_transcript_hash = Hash(interim_before || wire_format || FramedContent || signature<V>)
pub fn confirmed_transcript_hash(s: &Suite, interim_before: &[u8], wire_format: u16, framed_content: &[u8], signature: &[u8]) -> Vec<u8> {
    let mut input = interim_before.to_vec();
    input.extend_from_slice(&wire_format.to_be_bytes());
    input.extend_from_slice(framed_content);
    put_opaque(&mut input, signature);
    s.hash(&input)
}

pub fn interim_transcript_hash(s: &Suite, confirmed: &[u8], confirmation_tag: &[u8]) -> Vec<u8> {
    let mut input = confirmed.to_vec();
    put_opaque(&mut input, confirmation_tag);
    s.hash(&input)
}

/// membership_tag = MAC(membership_key, FramedContentTBS || FramedContentAuthData)
/// FramedContentTBS = version || wire_format || FramedContent || GroupContext (member sender)
pub fn membership_tag(s: &Suite, membership_key: &[u8], version: u16, wire_format: u16, framed_content: &[u8], group_context: &[u8], auth_data: &[u8]) -> Vec<u8> {
    let mut tbm = vec![];
    tbm.extend_from_slice(&version.to_be_bytes());
    tbm.extend_from_slice(&wire_format.to_be_bytes());
    tbm.extend_from_slice(framed_content);
    tbm.extend_from_slice(group_context);
    tbm.extend_from_slice(auth_data);
    s.hmac(membership_key, &tbm)
}

pub fn encode_group_context(suite: u16, group_id: &[u8], epoch: u64, tree_hash: &[u8], cth: &[u8], extensions: &[(u16, Vec<u8>)]) -> Vec<u8> {
    let mut out = vec![];
    out.extend_from_slice(&1u16.to_be_bytes());
    out.extend_from_slice(&suite.to_be_bytes());
    put_opaque(&mut out, group_id);
    out.extend_from_slice(&epoch.to_be_bytes());
    put_opaque(&mut out, tree_hash);
    put_opaque(&mut out, cth);
    let mut ext = vec![];
    for (t, d) in extensions {
        ext.extend_from_slice(&t.to_be_bytes());
        put_opaque(&mut ext, d);
    }
    put_varint(&mut out, ext.len());
    out.extend_from_slice(&ext);
    out
}

// -------------------------------------------------------------------------------------------------
// calibration on the IETF vectors

fn hx(v: &serde_json::Value) -> Vec<u8> {
    hex::decode(v.as_str().unwrap_or("")).unwrap_or_default()
}
fn suite_of(tc: &serde_json::Value) -> u16 {
    tc["cipher_suite"].as_u64().or_else(|| tc["cipher_suite"].as_str().and_then(|s| s.parse().ok())).unwrap_or(0) as u16
}
fn load(name: &str) -> Result<serde_json::Value, String> {
    let path = format!("{}/vectors/{name}.json", crate::engine::VERIF_ROOT);
    let s = std::fs::read_to_string(&path).map_err(|e| format!("{path}: {e}"))?;
    serde_json::from_str(&s).map_err(|e| e.to_string())
}

pub fn calibrate() -> Result<usize, String> {
    let mut checked = 0;
    // basic crypto: ExpandWithLabel, DeriveSecret, DeriveTreeSecret
    for tc in load("basic_crypto")?.as_array().ok_or("basic_crypto")? {
        let s = Suite::new(suite_of(tc));
        let e = &tc["expand_with_label"];
        if s.expand_with_label(&hx(&e["secret"]), e["label"].as_str().unwrap_or("").as_bytes(), &hx(&e["context"]), e["length"].as_u64().unwrap_or(0) as usize) != hx(&e["out"]) {
            return Err(format!("expand_with_label suite {}", s.id));
        }
        let d = &tc["derive_secret"];
        if s.derive_secret(&hx(&d["secret"]), d["label"].as_str().unwrap_or("").as_bytes()) != hx(&d["out"]) {
            return Err(format!("derive_secret suite {}", s.id));
        }
        let t = &tc["derive_tree_secret"];
        if s.derive_tree_secret(&hx(&t["secret"]), t["label"].as_str().unwrap_or("").as_bytes(), t["generation"].as_u64().unwrap_or(0) as u32, t["length"].as_u64().unwrap_or(0) as usize) != hx(&t["out"]) {
            return Err(format!("derive_tree_secret suite {}", s.id));
        }
        checked += 3;
    }
    // key schedule
    for tc in load("key_schedule_test_vector")?.as_array().ok_or("key_schedule")? {
        let s = Suite::new(suite_of(tc));
        let mut init = hx(&tc["initial_init_secret"]);
        for ep in tc["epochs"].as_array().ok_or("epochs")? {
            let r = key_schedule(&s, &init, &hx(&ep["commit_secret"]), &hx(&ep["group_context"]), &hx(&ep["psk_secret"]));
            let pairs = [
                ("joiner_secret", &r.joiner_secret),
                ("welcome_secret", &r.welcome_secret),
                ("init_secret", &r.init_secret),
                ("sender_data_secret", &r.sender_data_secret),
                ("encryption_secret", &r.encryption_secret),
                ("exporter_secret", &r.exporter_secret),
                ("epoch_authenticator", &r.epoch_authenticator),
                ("external_secret", &r.external_secret),
                ("confirmation_key", &r.confirmation_key),
                ("membership_key", &r.membership_key),
                ("resumption_psk", &r.resumption_psk),
            ];
            for (k, v) in pairs {
                if &hx(&ep[k]) != v {
                    return Err(format!("key schedule suite {}: {k}", s.id));
                }
            }
            let ex = &ep["exporter"];
            if exporter(&s, &r.exporter_secret, ex["label"].as_str().unwrap_or("").as_bytes(), &hx(&ex["context"]), ex["length"].as_u64().unwrap_or(0) as usize) != hx(&ex["secret"]) {
                return Err(format!("exporter suite {}", s.id));
            }
            init = r.init_secret.clone();
            checked += 12;
        }
    }
    // psk secret
    for tc in load("psk_secret")?.as_array().ok_or("psk")? {
        let s = Suite::new(suite_of(tc));
        let psks: Vec<(PskIdRef, Vec<u8>)> = tc["psks"]
            .as_array()
            .map(|a| a.iter().map(|p| (PskIdRef::External { id: hx(&p["id"]), nonce: hx(&p["nonce"]) }, hx(&p["psk"]))).collect())
            .unwrap_or_default();
        if psk_secret(&s, &psks) != hx(&tc["psk_secret"]) {
            return Err(format!("psk_secret suite {} ({} psks)", s.id, psks.len()));
        }
        checked += 1;
    }
    // secret tree
    for tc in load("secret_tree_interop")?.as_array().ok_or("secret_tree")? {
        let s = Suite::new(suite_of(tc));
        let enc = hx(&tc["encryption_secret"]);
        let sd = &tc["sender_data"];
        let (k, n) = sender_data_key(&s, &hx(&sd["sender_data_secret"]), &hx(&sd["ciphertext"]));
        if k != hx(&sd["key"]) || n != hx(&sd["nonce"]) {
            return Err(format!("sender data key suite {}", s.id));
        }
        let leaves = tc["leaves"].as_array().ok_or("leaves")?;
        let n_leaves = (leaves.len() as u32).next_power_of_two();
        for (li, gens) in leaves.iter().enumerate() {
            for g in gens.as_array().ok_or("gens")? {
                let generation = g["generation"].as_u64().unwrap_or(0) as u32;
                let (ak, an) = ratchet_key(&s, &enc, n_leaves, li as u32, false, generation);
                let (hk, hn) = ratchet_key(&s, &enc, n_leaves, li as u32, true, generation);
                if ak != hx(&g["application_key"]) || an != hx(&g["application_nonce"]) || hk != hx(&g["handshake_key"]) || hn != hx(&g["handshake_nonce"]) {
                    return Err(format!("secret tree suite {} leaf {li} generation {generation}", s.id));
                }
                checked += 4;
            }
        }
    }
    // transcript hashes
    for tc in load("interop_transcript_hashes")?.as_array().ok_or("transcript")? {
        let s = Suite::new(suite_of(tc));
        let ac = hx(&tc["authenticated_content"]);
        // AuthenticatedContent = wire_format || FramedContent || signature<V> || confirmation_tag<V>
        let parsed = super::wire::split_authenticated_content(&ac).ok_or("authenticated_content does not parse")?;
        let confirmed = confirmed_transcript_hash(&s, &hx(&tc["interim_transcript_hash_before"]), parsed.wire_format, parsed.framed_content, parsed.signature);
        if confirmed != hx(&tc["confirmed_transcript_hash_after"]) {
            return Err(format!("confirmed transcript hash suite {}", s.id));
        }
        let tag = confirmation_tag(&s, &hx(&tc["confirmation_key"]), &confirmed);
        if Some(&tag[..]) != parsed.confirmation_tag {
            return Err(format!("confirmation tag suite {}", s.id));
        }
        if interim_transcript_hash(&s, &confirmed, &tag) != hx(&tc["interim_transcript_hash_after"]) {
            return Err(format!("interim transcript hash suite {}", s.id));
        }
        checked += 3;
    }
    Ok(checked)
}
