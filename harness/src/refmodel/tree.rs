//! Independent ratchet-tree model on the *exported bytes* (RFC 9420 §4, §7.1-7.9):
//! parsing, resolution, filtered direct path, tree hash, parent-hash validity,
//! unmerged-leaf consistency. Shares no code with /repo.

use super::tls::{put_opaque, Reader};
use super::treemath::RefTree;
use sha2::Digest;

#[derive(Clone, Debug, PartialEq)]
pub struct RefLeaf {
    pub encryption_key: Vec<u8>,
    pub signature_key: Vec<u8>,
    pub credential_type: u16,
    pub identity: Vec<u8>,
    /// 1 key_package, 2 update, 3 commit
    pub source: u8,
    pub parent_hash: Vec<u8>,
    /// the exact encoded bytes of the LeafNode
    pub raw: Vec<u8>,
}

#[derive(Clone, Debug, PartialEq)]
pub struct RefParent {
    pub encryption_key: Vec<u8>,
    pub parent_hash: Vec<u8>,
    pub unmerged: Vec<u32>,
    pub raw: Vec<u8>,
}

#[derive(Clone, Debug, PartialEq)]
pub enum RefNode {
    Blank,
    Leaf(RefLeaf),
    Parent(RefParent),
}

#[derive(Clone, Debug)]
pub struct RefTreeNodes {
    /// nodes padded with blanks to the full width 2n-1 of the smallest full tree
    pub nodes: Vec<RefNode>,
    /// number of nodes actually present in the encoding
    pub encoded_len: usize,
    pub math: RefTree,
}

#[derive(Clone, Copy, PartialEq, Eq, Debug)]
pub enum HashAlg {
    Sha256,
    Sha384,
    Sha512,
}

impl HashAlg {
    pub fn for_suite(suite: u16) -> HashAlg {
        match suite {
            1 | 2 | 3 => HashAlg::Sha256,
            7 => HashAlg::Sha384,
            _ => HashAlg::Sha512,
        }
    }
    pub fn hash(&self, data: &[u8]) -> Vec<u8> {
        match self {
            HashAlg::Sha256 => sha2::Sha256::digest(data).to_vec(),
            HashAlg::Sha384 => sha2::Sha384::digest(data).to_vec(),
            HashAlg::Sha512 => sha2::Sha512::digest(data).to_vec(),
        }
    }
    pub fn len(&self) -> usize {
        match self {
            HashAlg::Sha256 => 32,
            HashAlg::Sha384 => 48,
            HashAlg::Sha512 => 64,
        }
    }
}

pub fn parse_leaf(r: &mut Reader) -> Option<RefLeaf> {
    let start = r.pos;
    let encryption_key = r.opaque()?.to_vec();
    let signature_key = r.opaque()?.to_vec();
    let credential_type = r.u16()?;
    // basic: identity<V>; x509: certs<V>; custom: data<V> -- all one length-prefixed blob
    let identity = r.opaque()?.to_vec();
    // capabilities: five <V> vectors
    for _ in 0..5 {
        r.opaque()?;
    }
    let source = r.u8()?;
    let mut parent_hash = vec![];
    match source {
        1 => {
            r.u64()?;
            r.u64()?;
        }
        2 => {}
        3 => parent_hash = r.opaque()?.to_vec(),
        _ => return None,
    }
    r.opaque()?; // extensions
    r.opaque()?; // signature
    Some(RefLeaf {
        encryption_key,
        signature_key,
        credential_type,
        identity,
        source,
        parent_hash,
        raw: r.span_from(start).to_vec(),
    })
}

pub fn parse_parent(r: &mut Reader) -> Option<RefParent> {
    let start = r.pos;
    let encryption_key = r.opaque()?.to_vec();
    let parent_hash = r.opaque()?.to_vec();
    let mut u = r.vector()?;
    let mut unmerged = vec![];
    while !u.is_empty() {
        unmerged.push(u.u32()?);
    }
    Some(RefParent {
        encryption_key,
        parent_hash,
        unmerged,
        raw: r.span_from(start).to_vec(),
    })
}

impl RefTreeNodes {
    /// Parse `optional<Node> ratchet_tree<V>`.
    pub fn parse(bytes: &[u8]) -> Option<RefTreeNodes> {
        let mut outer = Reader::new(bytes);
        let mut r = outer.vector()?;
        if !outer.is_empty() {
            return None;
        }
        let mut nodes = vec![];
        while !r.is_empty() {
            match r.u8()? {
                0 => nodes.push(RefNode::Blank),
                1 => match r.u8()? {
                    1 => nodes.push(RefNode::Leaf(parse_leaf(&mut r)?)),
                    2 => nodes.push(RefNode::Parent(parse_parent(&mut r)?)),
                    _ => return None,
                },
                _ => return None,
            }
        }
        Some(Self::from_nodes(nodes))
    }

    pub fn from_nodes(mut nodes: Vec<RefNode>) -> RefTreeNodes {
        let encoded_len = nodes.len();
        let leaves = (encoded_len / 2 + 1).next_power_of_two().max(1) as u32;
        let width = (2 * leaves - 1) as usize;
        nodes.resize(width, RefNode::Blank);
        RefTreeNodes {
            nodes,
            encoded_len,
            math: RefTree::new(leaves),
        }
    }

    pub fn leaf_slots(&self) -> u32 {
        self.math.n_leaves
    }

    pub fn leaf(&self, i: u32) -> Option<&RefLeaf> {
        match self.nodes.get(2 * i as usize) {
            Some(RefNode::Leaf(l)) => Some(l),
            _ => None,
        }
    }

    pub fn occupied_leaves(&self) -> Vec<u32> {
        (0..self.leaf_slots()).filter(|i| self.leaf(*i).is_some()).collect()
    }

    pub fn has_interior_blank_leaf(&self) -> bool {
        let occ = self.occupied_leaves();
        match occ.last() {
            Some(last) => (0..*last).any(|i| self.leaf(i).is_none()),
            None => false,
        }
    }

    pub fn has_unmerged(&self) -> bool {
        self.nodes.iter().any(|n| matches!(n, RefNode::Parent(p) if !p.unmerged.is_empty()))
    }

    /// Resolution of node x (RFC 9420 §4.1.1) as node indices.
    pub fn resolution(&self, x: u32) -> Vec<u32> {
        match &self.nodes[x as usize] {
            RefNode::Leaf(_) => vec![x],
            RefNode::Parent(p) => {
                let mut v = vec![x];
                v.extend(p.unmerged.iter().map(|l| 2 * l));
                v
            }
            RefNode::Blank => match (self.math.left[x as usize], self.math.right[x as usize]) {
                (Some(l), Some(r)) => {
                    let mut v = self.resolution(l);
                    v.extend(self.resolution(r));
                    v
                }
                _ => vec![],
            },
        }
    }

    /// Filtered direct path of leaf `leaf` (§4.1.2): (path node, copath node) pairs whose copath
    /// child has a non-empty resolution.
    pub fn filtered_direct_path(&self, leaf: u32) -> Vec<(u32, u32)> {
        self.math
            .direct_copath(2 * leaf)
            .into_iter()
            .filter(|(_, c)| !self.resolution(*c).is_empty())
            .collect()
    }

    fn node_tree_hash(&self, alg: HashAlg, x: u32, nodes: &[RefNode]) -> Vec<u8> {
        let mut input = vec![];
        if self.math.level[x as usize] == 0 {
            input.push(1u8);
            input.extend_from_slice(&(x / 2).to_be_bytes());
            match &nodes[x as usize] {
                RefNode::Leaf(l) => {
                    input.push(1);
                    input.extend_from_slice(&l.raw);
                }
                _ => input.push(0),
            }
        } else {
            input.push(2u8);
            match &nodes[x as usize] {
                RefNode::Parent(p) => {
                    input.push(1);
                    // re-encode: the unmerged list may have been filtered
                    put_opaque(&mut input, &p.encryption_key);
                    put_opaque(&mut input, &p.parent_hash);
                    let mut u = vec![];
                    for l in &p.unmerged {
                        u.extend_from_slice(&l.to_be_bytes());
                    }
                    put_opaque(&mut input, &u);
                }
                _ => input.push(0),
            }
            let l = self.node_tree_hash(alg, self.math.left[x as usize].unwrap(), nodes);
            let r = self.node_tree_hash(alg, self.math.right[x as usize].unwrap(), nodes);
            put_opaque(&mut input, &l);
            put_opaque(&mut input, &r);
        }
        alg.hash(&input)
    }

    /// Tree hash of the subtree rooted at x (§7.8).
    pub fn tree_hash_of(&self, alg: HashAlg, x: u32) -> Vec<u8> {
        self.node_tree_hash(alg, x, &self.nodes)
    }

    pub fn root_tree_hash(&self, alg: HashAlg) -> Vec<u8> {
        self.tree_hash_of(alg, self.math.root)
    }

    /// Tree hash of subtree x in the tree where the leaves `without` are blanked and removed
    /// from every unmerged list ("original sibling tree hash", §7.9).
    pub fn tree_hash_without(&self, alg: HashAlg, x: u32, without: &[u32]) -> Vec<u8> {
        let mut nodes = self.nodes.clone();
        for l in without {
            nodes[2 * *l as usize] = RefNode::Blank;
        }
        for n in nodes.iter_mut() {
            if let RefNode::Parent(p) = n {
                p.unmerged.retain(|u| !without.contains(u));
            }
        }
        self.node_tree_hash(alg, x, &nodes)
    }

    /// ParentHash of parent node p with copath child s (§7.9).
    pub fn parent_hash_of(&self, alg: HashAlg, p: u32, s: u32) -> Option<Vec<u8>> {
        let RefNode::Parent(pn) = &self.nodes[p as usize] else {
            return None;
        };
        let mut input = vec![];
        put_opaque(&mut input, &pn.encryption_key);
        put_opaque(&mut input, &pn.parent_hash);
        let sib = self.tree_hash_without(alg, s, &pn.unmerged);
        put_opaque(&mut input, &sib);
        Some(alg.hash(&input))
    }

    fn leaves_under(&self, x: u32) -> (u32, u32) {
        self.math.range[x as usize]
    }

    /// Complete structural validation a joiner performs, minus signatures (§7.9.2, §12.4.3.1):
    /// returns a list of problems (empty = valid).
    pub fn validate(&self, alg: HashAlg) -> Vec<String> {
        let mut problems = vec![];
        // no trailing blank
        if self.encoded_len == 0 {
            problems.push("empty tree".into());
            return problems;
        }
        if matches!(self.nodes[self.encoded_len - 1], RefNode::Blank) {
            problems.push("tree ends in a blank node".into());
        }
        if self.encoded_len % 2 == 0 {
            problems.push("even number of nodes".into());
        }
        // node kinds at the right positions
        for (i, n) in self.nodes.iter().enumerate() {
            match n {
                RefNode::Leaf(_) if i % 2 == 1 => problems.push(format!("leaf node at parent position {i}")),
                RefNode::Parent(_) if i % 2 == 0 => problems.push(format!("parent node at leaf position {i}")),
                _ => {}
            }
        }
        // unique leaf keys
        let occ = self.occupied_leaves();
        for (i, a) in occ.iter().enumerate() {
            for b in occ.iter().skip(i + 1) {
                let (la, lb) = (self.leaf(*a).unwrap(), self.leaf(*b).unwrap());
                if la.encryption_key == lb.encryption_key {
                    problems.push(format!("leaves {a} and {b} share an encryption key"));
                }
                if la.signature_key == lb.signature_key {
                    problems.push(format!("leaves {a} and {b} share a signature key"));
                }
            }
        }
        for x in 0..self.nodes.len() as u32 {
            let RefNode::Parent(p) = &self.nodes[x as usize] else { continue };
            // unmerged leaves: sorted, unique, non-blank leaves below this node
            let (lo, hi) = self.leaves_under(x);
            let mut prev: Option<u32> = None;
            for u in &p.unmerged {
                if prev.map(|q| q >= *u).unwrap_or(false) {
                    problems.push(format!("parent {x}: unmerged leaves not strictly increasing"));
                }
                prev = Some(*u);
                if *u < lo || *u >= hi {
                    problems.push(format!("parent {x}: unmerged leaf {u} not below it"));
                } else if self.leaf(*u).is_none() {
                    problems.push(format!("parent {x}: unmerged leaf {u} is blank"));
                } else {
                    // every non-blank parent between the leaf and x must also list it
                    let mut cur = 2 * *u;
                    while let Some(q) = self.math.parent[cur as usize] {
                        if q == x {
                            break;
                        }
                        if let RefNode::Parent(qp) = &self.nodes[q as usize] {
                            if !qp.unmerged.contains(u) {
                                problems.push(format!("parent {x}: unmerged leaf {u} missing from intermediate parent {q}"));
                            }
                        }
                        cur = q;
                    }
                }
            }
            // parent-hash validity (§7.9.2)
            if !self.parent_hash_valid(alg, x) {
                problems.push(format!("parent {x} is not parent-hash valid"));
            }
        }
        problems
    }

    fn parent_hash_valid(&self, alg: HashAlg, p: u32) -> bool {
        let RefNode::Parent(pn) = &self.nodes[p as usize] else {
            return true;
        };
        let (l, r) = (self.math.left[p as usize].unwrap(), self.math.right[p as usize].unwrap());
        for (c, s) in [(l, r), (r, l)] {
            let Some(expected) = self.parent_hash_of(alg, p, s) else { continue };
            let res = self.resolution(c);
            let (clo, chi) = self.leaves_under(c);
            let mut unmerged_in_c: Vec<u32> = pn.unmerged.iter().copied().filter(|u| *u >= clo && *u < chi).map(|u| 2 * u).collect();
            unmerged_in_c.sort();
            for d in &res {
                // D in resolution(C); resolution(C) \ {D} == P.unmerged ∩ subtree(C)
                let mut rest: Vec<u32> = res.iter().copied().filter(|x| x != d).collect();
                rest.sort();
                if rest != unmerged_in_c {
                    continue;
                }
                let d_hash = match &self.nodes[*d as usize] {
                    RefNode::Leaf(lf) if lf.source == 3 => Some(&lf.parent_hash),
                    RefNode::Parent(q) => Some(&q.parent_hash),
                    _ => None,
                };
                if d_hash == Some(&expected) {
                    return true;
                }
            }
        }
        false
    }

    /// Leftmost blank leaf slot (where the next add must go), or the slot after the last leaf.
    pub fn leftmost_blank(&self) -> u32 {
        let last = self.occupied_leaves().last().copied();
        match last {
            None => 0,
            Some(last) => (0..=last).find(|i| self.leaf(*i).is_none()).unwrap_or(last + 1),
        }
    }
}

/// Calibration against the IETF `tree-validation` interop vectors: tree hashes of every node,
/// resolutions, and validity of every vector tree.
pub fn calibrate() -> Result<usize, String> {
    let path = format!("{}/vectors/interop_tree_validation.json", crate::engine::VERIF_ROOT);
    let s = std::fs::read_to_string(&path).map_err(|e| format!("{path}: {e}"))?;
    let v: serde_json::Value = serde_json::from_str(&s).map_err(|e| e.to_string())?;
    let mut checked = 0;
    for (ti, tc) in v.as_array().ok_or("not an array")?.iter().enumerate() {
        let suite = tc["cipher_suite"].as_u64().or_else(|| tc["cipher_suite"].as_str().and_then(|s| s.parse().ok())).ok_or("suite")? as u16;
        let alg = HashAlg::for_suite(suite);
        let bytes = hex::decode(tc["tree"].as_str().ok_or("tree")?).map_err(|e| e.to_string())?;
        let t = RefTreeNodes::parse(&bytes).ok_or(format!("vector {ti}: tree does not parse"))?;
        let hashes = tc["tree_hashes"].as_array().ok_or("tree_hashes")?;
        let res = tc["resolutions"].as_array().ok_or("resolutions")?;
        for (i, h) in hashes.iter().enumerate() {
            if i >= t.nodes.len() {
                break;
            }
            let want = hex::decode(h.as_str().unwrap_or("")).unwrap_or_default();
            if t.tree_hash_of(alg, i as u32) != want {
                return Err(format!("vector {ti}: tree hash of node {i} differs"));
            }
            let want_res: Vec<u32> = res[i].as_array().map(|a| a.iter().filter_map(|x| x.as_u64().map(|x| x as u32)).collect()).unwrap_or_default();
            if t.resolution(i as u32) != want_res {
                return Err(format!("vector {ti}: resolution of node {i}: got {:?} want {want_res:?}", t.resolution(i as u32)));
            }
        }
        let problems = t.validate(alg);
        if !problems.is_empty() {
            return Err(format!("vector {ti}: valid tree reported invalid: {problems:?}"));
        }
        checked += 1;
    }
    if checked < 10 {
        return Err("too few vectors".into());
    }
    Ok(checked)
}
