//! Field-addressed mutation of wire messages (outsider model): shared by C03 and C04.
#![allow(dead_code)]

use crate::engine::pick;
use crate::refmodel::wire::{message_spans, Span};

#[derive(Clone, Debug)]
pub struct Mutation {
    pub bytes: Vec<u8>,
    /// what was done, e.g. "flip:ciphertext", "truncate:signature"
    pub label: String,
    /// name of the field hit (without indices)
    pub field: String,
}

pub fn strip_indices(name: &str) -> String {
    let mut out = String::new();
    let mut depth = 0;
    for c in name.chars() {
        match c {
            '[' => depth += 1,
            ']' => depth -= 1,
            _ if depth == 0 => out.push(c),
            _ => {}
        }
    }
    out
}

/// Smallest span containing byte `pos`.
pub fn field_at(spans: &[Span], pos: usize) -> String {
    spans
        .iter()
        .filter(|s| s.start <= pos && pos < s.end)
        .min_by_key(|s| s.end - s.start)
        .map(|s| strip_indices(&s.name))
        .unwrap_or_else(|| "unknown".into())
}

/// Leaf spans (those not containing another span), in order.
pub fn leaf_spans(spans: &[Span]) -> Vec<Span> {
    let mut v: Vec<Span> = spans
        .iter()
        .filter(|s| s.end > s.start && !spans.iter().any(|o| o != *s && o.start >= s.start && o.end <= s.end && (o.end - o.start) < (s.end - s.start)))
        .cloned()
        .collect();
    v.sort_by_key(|s| s.start);
    v
}

/// One mutation of a valid message chosen by three selectors. Never returns the original bytes.
pub fn mutate_message(orig: &[u8], a: u16, b: u16, c: u16) -> Option<Mutation> {
    if orig.is_empty() {
        return None;
    }
    let spans = message_spans(orig).map(|(_, s)| s).unwrap_or_default();
    let leaves = leaf_spans(&spans);
    let mut bytes = orig.to_vec();
    let kind = pick(a, 10);
    let (label, pos) = match kind {
        // most mutations: one bit inside a field chosen uniformly among FIELDS (not bytes), so that
        // short fields (epoch, sender, tags) are hit as often as long ciphertexts
        0..=5 if !leaves.is_empty() => {
            let sp = &leaves[pick(b, leaves.len())];
            let pos = sp.start + pick(c, sp.end - sp.start);
            bytes[pos] ^= 1 << (c % 8);
            ("flip", pos)
        }
        6 => {
            let pos = pick(b, orig.len());
            bytes[pos] ^= 1 << (c % 8);
            ("flip", pos)
        }
        7 => {
            let pos = pick(b, orig.len());
            bytes.truncate(pos);
            ("truncate", pos.min(orig.len() - 1))
        }
        8 => {
            let pos = pick(b, orig.len());
            bytes[pos] = bytes[pos].wrapping_add(1 + (c % 255) as u8);
            ("set", pos)
        }
        _ => {
            // append garbage
            bytes.push(c as u8);
            ("append", orig.len() - 1)
        }
    };
    if bytes == orig {
        return None;
    }
    let field = if label == "append" { "trailing".to_string() } else { field_at(&spans, pos) };
    Some(Mutation { bytes, label: format!("{label}:{field}"), field })
}
