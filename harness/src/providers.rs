//! Real providers behind thin recording / faulting shims (nothing is mocked).
#![allow(dead_code)]

use mls_rs::crypto::{
    HpkeCiphertext, HpkeContextR, HpkeContextS, HpkePublicKey, HpkeSecretKey, SignaturePublicKey,
    SignatureSecretKey,
};
use mls_rs::error::IntoAnyError;
use mls_rs::identity::basic::BasicIdentityProvider;
use mls_rs::identity::{CredentialType, SigningIdentity};
use mls_rs::storage_provider::in_memory::{
    InMemoryGroupStateStorage, InMemoryKeyPackageStorage, InMemoryPreSharedKeyStorage,
};
use mls_rs::time::MlsTime;
use mls_rs::{
    CipherSuite, CipherSuiteProvider, CryptoProvider, ExtensionList, GroupStateStorage,
    IdentityProvider, KeyPackageStorage, PreSharedKeyStorage,
};
use mls_rs_core::crypto::HpkePsk;
use mls_rs_core::group::{EpochRecord, GroupState};
use mls_rs_core::identity::MemberValidationContext;
use mls_rs_core::key_package::KeyPackageData;
use mls_rs_core::psk::{ExternalPskId, PreSharedKey};
use mls_rs_crypto_awslc::AwsLcCryptoProvider;
use mls_rs_crypto_openssl::OpensslCryptoProvider;
use mls_rs_crypto_rustcrypto::RustCryptoProvider;
use mls_rs_provider_sqlite::connection_strategy::MemoryStrategy;
use mls_rs_provider_sqlite::storage::{SqLiteGroupStateStorage, SqLiteKeyPackageStorage};
use mls_rs_provider_sqlite::SqLiteDataStorageEngine;
use std::collections::{BTreeMap, BTreeSet};
use std::sync::atomic::{AtomicBool, AtomicI64, AtomicU64, Ordering};
use std::sync::{Arc, Mutex};
use zeroize::Zeroizing;

// ---------------------------------------------------------------------------------------------
// errors

#[derive(Debug, Clone)]
pub struct VError(pub String);
impl std::fmt::Display for VError {
    fn fmt(&self, f: &mut std::fmt::Formatter<'_>) -> std::fmt::Result {
        write!(f, "{}", self.0)
    }
}
impl std::error::Error for VError {}
impl IntoAnyError for VError {
    fn into_dyn_error(self) -> Result<Box<dyn std::error::Error + Send + Sync>, Self> {
        Ok(Box::new(self))
    }
}

pub const INJECTED: &str = "injected storage fault";

// ---------------------------------------------------------------------------------------------
// crypto

#[derive(Clone, Copy, PartialEq, Eq, Debug, Hash, PartialOrd, Ord)]
pub enum ProviderKind {
    OpenSsl,
    AwsLc,
    RustCrypto,
}

impl ProviderKind {
    pub const ALL: [ProviderKind; 3] = [ProviderKind::OpenSsl, ProviderKind::AwsLc, ProviderKind::RustCrypto];
    pub fn name(&self) -> &'static str {
        match self {
            ProviderKind::OpenSsl => "openssl",
            ProviderKind::AwsLc => "awslc",
            ProviderKind::RustCrypto => "rustcrypto",
        }
    }
    pub fn suites(&self) -> &'static [u16] {
        match self {
            ProviderKind::OpenSsl => &[1, 2, 3, 4, 5, 6, 7],
            ProviderKind::AwsLc => &[1, 2, 3, 5, 7],
            ProviderKind::RustCrypto => &[1, 2, 3, 7],
        }
    }
}

type OCs = <OpensslCryptoProvider as CryptoProvider>::CipherSuiteProvider;
type ACs = <AwsLcCryptoProvider as CryptoProvider>::CipherSuiteProvider;
type RCs = <RustCryptoProvider as CryptoProvider>::CipherSuiteProvider;

#[derive(Clone)]
pub enum Inner {
    O(OCs),
    A(ACs),
    R(RCs),
}

#[derive(Clone, Debug)]
pub struct HpkeSealRec {
    pub remote: Vec<u8>,
    pub info: Vec<u8>,
    pub pt: Vec<u8>,
}

#[derive(Clone, Debug)]
pub struct AeadSealRec {
    pub key: Vec<u8>,
    pub nonce: Vec<u8>,
    pub aad: Vec<u8>,
    pub pt_len: usize,
}

#[derive(Default)]
pub struct CryptoLog {
    pub enabled: AtomicBool,
    pub hpke_seals: Mutex<Vec<HpkeSealRec>>,
    pub aead_seals: Mutex<Vec<AeadSealRec>>,
    /// when set, random_bytes is served from this deterministic stream
    pub seeded_random: Mutex<Option<crate::engine::SplitMix>>,
}

impl CryptoLog {
    pub fn start(&self) {
        self.hpke_seals.lock().unwrap().clear();
        self.aead_seals.lock().unwrap().clear();
        self.enabled.store(true, Ordering::SeqCst);
    }
    pub fn stop(&self) -> (Vec<HpkeSealRec>, Vec<AeadSealRec>) {
        self.enabled.store(false, Ordering::SeqCst);
        (
            std::mem::take(&mut *self.hpke_seals.lock().unwrap()),
            std::mem::take(&mut *self.aead_seals.lock().unwrap()),
        )
    }
}

#[derive(Clone)]
pub struct VCrypto {
    pub kind: ProviderKind,
    pub log: Arc<CryptoLog>,
}

impl VCrypto {
    pub fn new(kind: ProviderKind) -> Self {
        VCrypto {
            kind,
            log: Arc::new(CryptoLog::default()),
        }
    }
    pub fn suite(&self, cs: CipherSuite) -> Option<VSuite> {
        self.cipher_suite_provider(cs)
    }
}

pub fn raw_suite(kind: ProviderKind, cs: CipherSuite) -> Option<Inner> {
    match kind {
        ProviderKind::OpenSsl => OpensslCryptoProvider::new().cipher_suite_provider(cs).map(Inner::O),
        ProviderKind::AwsLc => AwsLcCryptoProvider::new().cipher_suite_provider(cs).map(Inner::A),
        ProviderKind::RustCrypto => RustCryptoProvider::new().cipher_suite_provider(cs).map(Inner::R),
    }
}

impl CryptoProvider for VCrypto {
    type CipherSuiteProvider = VSuite;

    fn supported_cipher_suites(&self) -> Vec<CipherSuite> {
        self.kind.suites().iter().map(|s| CipherSuite::from(*s)).collect()
    }

    fn cipher_suite_provider(&self, cipher_suite: CipherSuite) -> Option<VSuite> {
        raw_suite(self.kind, cipher_suite).map(|inner| VSuite {
            inner,
            log: self.log.clone(),
        })
    }
}

#[derive(Clone)]
pub struct VSuite {
    pub inner: Inner,
    pub log: Arc<CryptoLog>,
}

macro_rules! d {
    ($self:ident, $cs:ident => $e:expr) => {
        match &$self.inner {
            Inner::O($cs) => $e.map_err(|e| VError(format!("{e:?}"))),
            Inner::A($cs) => $e.map_err(|e| VError(format!("{e:?}"))),
            Inner::R($cs) => $e.map_err(|e| VError(format!("{e:?}"))),
        }
    };
}

macro_rules! dplain {
    ($self:ident, $cs:ident => $e:expr) => {
        match &$self.inner {
            Inner::O($cs) => $e,
            Inner::A($cs) => $e,
            Inner::R($cs) => $e,
        }
    };
}

pub enum VCtxS {
    O(<OCs as CipherSuiteProvider>::HpkeContextS),
    A(<ACs as CipherSuiteProvider>::HpkeContextS),
    R(<RCs as CipherSuiteProvider>::HpkeContextS),
}
pub enum VCtxR {
    O(<OCs as CipherSuiteProvider>::HpkeContextR),
    A(<ACs as CipherSuiteProvider>::HpkeContextR),
    R(<RCs as CipherSuiteProvider>::HpkeContextR),
}

impl HpkeContextS for VCtxS {
    type Error = VError;
    fn seal(&mut self, aad: Option<&[u8]>, data: &[u8]) -> Result<Vec<u8>, VError> {
        match self {
            VCtxS::O(c) => c.seal(aad, data).map_err(|e| VError(format!("{e:?}"))),
            VCtxS::A(c) => c.seal(aad, data).map_err(|e| VError(format!("{e:?}"))),
            VCtxS::R(c) => c.seal(aad, data).map_err(|e| VError(format!("{e:?}"))),
        }
    }
    fn export(&self, ctx: &[u8], len: usize) -> Result<Zeroizing<Vec<u8>>, VError> {
        match self {
            VCtxS::O(c) => c.export(ctx, len).map_err(|e| VError(format!("{e:?}"))),
            VCtxS::A(c) => c.export(ctx, len).map_err(|e| VError(format!("{e:?}"))),
            VCtxS::R(c) => c.export(ctx, len).map_err(|e| VError(format!("{e:?}"))),
        }
    }
}

impl HpkeContextR for VCtxR {
    type Error = VError;
    fn open(&mut self, aad: Option<&[u8]>, ct: &[u8]) -> Result<Zeroizing<Vec<u8>>, VError> {
        match self {
            VCtxR::O(c) => c.open(aad, ct).map_err(|e| VError(format!("{e:?}"))),
            VCtxR::A(c) => c.open(aad, ct).map_err(|e| VError(format!("{e:?}"))),
            VCtxR::R(c) => c.open(aad, ct).map_err(|e| VError(format!("{e:?}"))),
        }
    }
    fn export(&self, ctx: &[u8], len: usize) -> Result<Zeroizing<Vec<u8>>, VError> {
        match self {
            VCtxR::O(c) => c.export(ctx, len).map_err(|e| VError(format!("{e:?}"))),
            VCtxR::A(c) => c.export(ctx, len).map_err(|e| VError(format!("{e:?}"))),
            VCtxR::R(c) => c.export(ctx, len).map_err(|e| VError(format!("{e:?}"))),
        }
    }
}

impl CipherSuiteProvider for VSuite {
    type Error = VError;
    type HpkeContextS = VCtxS;
    type HpkeContextR = VCtxR;

    fn cipher_suite(&self) -> CipherSuite {
        dplain!(self, c => c.cipher_suite())
    }
    fn hash(&self, data: &[u8]) -> Result<Vec<u8>, VError> {
        d!(self, c => c.hash(data))
    }
    fn mac(&self, key: &[u8], data: &[u8]) -> Result<Vec<u8>, VError> {
        d!(self, c => c.mac(key, data))
    }
    fn aead_seal(&self, key: &[u8], data: &[u8], aad: Option<&[u8]>, nonce: &[u8]) -> Result<Vec<u8>, VError> {
        if self.log.enabled.load(Ordering::Relaxed) {
            self.log.aead_seals.lock().unwrap().push(AeadSealRec {
                key: key.to_vec(),
                nonce: nonce.to_vec(),
                aad: aad.unwrap_or(&[]).to_vec(),
                pt_len: data.len(),
            });
        }
        d!(self, c => c.aead_seal(key, data, aad, nonce))
    }
    fn aead_open(&self, key: &[u8], ct: &[u8], aad: Option<&[u8]>, nonce: &[u8]) -> Result<Zeroizing<Vec<u8>>, VError> {
        d!(self, c => c.aead_open(key, ct, aad, nonce))
    }
    fn aead_key_size(&self) -> usize {
        dplain!(self, c => c.aead_key_size())
    }
    fn aead_nonce_size(&self) -> usize {
        dplain!(self, c => c.aead_nonce_size())
    }
    fn kdf_extract(&self, salt: &[u8], ikm: &[u8]) -> Result<Zeroizing<Vec<u8>>, VError> {
        d!(self, c => c.kdf_extract(salt, ikm))
    }
    fn kdf_expand(&self, prk: &[u8], info: &[u8], len: usize) -> Result<Zeroizing<Vec<u8>>, VError> {
        d!(self, c => c.kdf_expand(prk, info, len))
    }
    fn kdf_extract_size(&self) -> usize {
        dplain!(self, c => c.kdf_extract_size())
    }
    fn hpke_seal(&self, remote_key: &HpkePublicKey, info: &[u8], aad: Option<&[u8]>, pt: &[u8]) -> Result<HpkeCiphertext, VError> {
        if self.log.enabled.load(Ordering::Relaxed) {
            self.log.hpke_seals.lock().unwrap().push(HpkeSealRec {
                remote: remote_key.to_vec(),
                info: info.to_vec(),
                pt: pt.to_vec(),
            });
        }
        d!(self, c => c.hpke_seal(remote_key, info, aad, pt))
    }
    fn hpke_seal_psk(&self, remote_key: &HpkePublicKey, info: &[u8], aad: Option<&[u8]>, pt: &[u8], psk: HpkePsk<'_>) -> Result<HpkeCiphertext, VError> {
        d!(self, c => c.hpke_seal_psk(remote_key, info, aad, pt, psk.clone()))
    }
    fn hpke_open(&self, ct: &HpkeCiphertext, sk: &HpkeSecretKey, pk: &HpkePublicKey, info: &[u8], aad: Option<&[u8]>) -> Result<Zeroizing<Vec<u8>>, VError> {
        d!(self, c => c.hpke_open(ct, sk, pk, info, aad))
    }
    fn hpke_open_psk(&self, ct: &HpkeCiphertext, sk: &HpkeSecretKey, pk: &HpkePublicKey, info: &[u8], aad: Option<&[u8]>, psk: HpkePsk<'_>) -> Result<Zeroizing<Vec<u8>>, VError> {
        d!(self, c => c.hpke_open_psk(ct, sk, pk, info, aad, psk.clone()))
    }
    fn hpke_setup_s(&self, remote_key: &HpkePublicKey, info: &[u8]) -> Result<(Vec<u8>, VCtxS), VError> {
        match &self.inner {
            Inner::O(c) => c.hpke_setup_s(remote_key, info).map(|(k, x)| (k, VCtxS::O(x))).map_err(|e| VError(format!("{e:?}"))),
            Inner::A(c) => c.hpke_setup_s(remote_key, info).map(|(k, x)| (k, VCtxS::A(x))).map_err(|e| VError(format!("{e:?}"))),
            Inner::R(c) => c.hpke_setup_s(remote_key, info).map(|(k, x)| (k, VCtxS::R(x))).map_err(|e| VError(format!("{e:?}"))),
        }
    }
    fn hpke_setup_r(&self, kem_output: &[u8], sk: &HpkeSecretKey, pk: &HpkePublicKey, info: &[u8]) -> Result<VCtxR, VError> {
        match &self.inner {
            Inner::O(c) => c.hpke_setup_r(kem_output, sk, pk, info).map(VCtxR::O).map_err(|e| VError(format!("{e:?}"))),
            Inner::A(c) => c.hpke_setup_r(kem_output, sk, pk, info).map(VCtxR::A).map_err(|e| VError(format!("{e:?}"))),
            Inner::R(c) => c.hpke_setup_r(kem_output, sk, pk, info).map(VCtxR::R).map_err(|e| VError(format!("{e:?}"))),
        }
    }
    fn kem_derive(&self, ikm: &[u8]) -> Result<(HpkeSecretKey, HpkePublicKey), VError> {
        d!(self, c => c.kem_derive(ikm))
    }
    fn kem_generate(&self) -> Result<(HpkeSecretKey, HpkePublicKey), VError> {
        d!(self, c => c.kem_generate())
    }
    fn kem_public_key_validate(&self, key: &HpkePublicKey) -> Result<(), VError> {
        d!(self, c => c.kem_public_key_validate(key))
    }
    fn random_bytes(&self, out: &mut [u8]) -> Result<(), VError> {
        if let Some(rng) = self.log.seeded_random.lock().unwrap().as_mut() {
            let b = rng.bytes(out.len());
            out.copy_from_slice(&b);
            return Ok(());
        }
        d!(self, c => c.random_bytes(out))
    }
    fn signature_key_generate(&self) -> Result<(SignatureSecretKey, SignaturePublicKey), VError> {
        d!(self, c => c.signature_key_generate())
    }
    fn signature_key_derive_public(&self, sk: &SignatureSecretKey) -> Result<SignaturePublicKey, VError> {
        d!(self, c => c.signature_key_derive_public(sk))
    }
    fn sign(&self, sk: &SignatureSecretKey, data: &[u8]) -> Result<Vec<u8>, VError> {
        d!(self, c => c.sign(sk, data))
    }
    fn verify(&self, pk: &SignaturePublicKey, sig: &[u8], data: &[u8]) -> Result<(), VError> {
        d!(self, c => c.verify(pk, sig, data))
    }
}

// ---------------------------------------------------------------------------------------------
// storage with call counting and fault injection

#[derive(Default)]
pub struct FaultCtl {
    /// number of storage calls seen since the last `arm`/`reset`
    pub calls: AtomicU64,
    /// fail the call with this index (0-based, counted since arm); -1 = none
    pub fail_at: AtomicI64,
    /// second fault index for pair injection; -1 = none
    pub fail_at2: AtomicI64,
    pub fired: AtomicU64,
    /// while true calls are neither counted nor faulted (harness-internal reads)
    pub suspended: AtomicBool,
    pub trace: Mutex<Vec<&'static str>>,
    pub tracing: AtomicBool,
}

impl FaultCtl {
    pub fn reset(&self) {
        self.calls.store(0, Ordering::SeqCst);
        self.fail_at.store(-1, Ordering::SeqCst);
        self.fail_at2.store(-1, Ordering::SeqCst);
        self.fired.store(0, Ordering::SeqCst);
        self.trace.lock().unwrap().clear();
    }
    pub fn arm(&self, k: i64, k2: i64) {
        self.reset();
        self.fail_at.store(k, Ordering::SeqCst);
        self.fail_at2.store(k2, Ordering::SeqCst);
    }
    pub fn start_trace(&self) {
        self.reset();
        self.tracing.store(true, Ordering::SeqCst);
    }
    pub fn stop_trace(&self) -> Vec<&'static str> {
        self.tracing.store(false, Ordering::SeqCst);
        std::mem::take(&mut *self.trace.lock().unwrap())
    }
    pub fn suspend(&self) -> SuspendGuard<'_> {
        let prev = self.suspended.swap(true, Ordering::SeqCst);
        SuspendGuard(self, prev)
    }
    fn enter(&self, what: &'static str) -> Result<(), VError> {
        if self.suspended.load(Ordering::SeqCst) {
            return Ok(());
        }
        let k = self.calls.fetch_add(1, Ordering::SeqCst) as i64;
        if self.tracing.load(Ordering::SeqCst) {
            self.trace.lock().unwrap().push(what);
        }
        if k == self.fail_at.load(Ordering::SeqCst) || k == self.fail_at2.load(Ordering::SeqCst) {
            self.fired.fetch_add(1, Ordering::SeqCst);
            return Err(VError(format!("{INJECTED} at call {k} ({what})")));
        }
        Ok(())
    }
}

pub struct SuspendGuard<'a>(&'a FaultCtl, bool);
impl Drop for SuspendGuard<'_> {
    fn drop(&mut self) {
        self.0.suspended.store(self.1, Ordering::SeqCst);
    }
}

#[derive(Clone, Copy, PartialEq, Eq, Debug, Hash)]
pub enum StoreKind {
    Mem,
    Sql,
    /// both at once; every answer is compared
    Tee,
}

#[derive(Clone)]
pub struct VGroupStore {
    pub kind: StoreKind,
    pub mem: Option<InMemoryGroupStateStorage>,
    pub sql: Option<SqLiteGroupStateStorage>,
    pub ctl: Arc<FaultCtl>,
    pub retention: usize,
    /// disagreements observed between the two providers in Tee mode
    pub tee_mismatch: Arc<Mutex<Vec<String>>>,
    pub tee_compared: Arc<AtomicU64>,
    /// group ids and epoch ids ever written (for full-history comparison)
    pub written: Arc<Mutex<BTreeMap<Vec<u8>, BTreeSet<u64>>>>,
}

fn sqlerr<E: std::fmt::Debug>(e: E) -> VError {
    VError(format!("{e:?}"))
}

impl VGroupStore {
    pub fn new(kind: StoreKind, retention: usize, ctl: Arc<FaultCtl>) -> Self {
        // 3 is the providers' default: then the stores are built the way an application that does not care builds them
        // (`Default::default()` / no explicit limit), which must mean the same thing
        let mem = (kind != StoreKind::Sql).then(|| {
            if retention == 3 {
                InMemoryGroupStateStorage::default()
            } else {
                InMemoryGroupStateStorage::new().with_max_epoch_retention(retention).expect("retention > 0")
            }
        });
        let sql = (kind != StoreKind::Mem).then(|| {
            let s = SqLiteDataStorageEngine::new(MemoryStrategy).expect("engine").group_state_storage().expect("sqlite group storage");
            if retention == 3 {
                s
            } else {
                s.with_max_epoch_retention(retention as u64)
            }
        });
        VGroupStore {
            kind,
            mem,
            sql,
            ctl,
            retention,
            tee_mismatch: Default::default(),
            tee_compared: Default::default(),
            written: Default::default(),
        }
    }

    /// Deep copy of the stored data into a fresh, independent store of the same kind
    /// (used to give a fault-free twin its own storage).
    pub fn fork(&self, ctl: Arc<FaultCtl>) -> VGroupStore {
        let mut n = VGroupStore::new(self.kind, self.retention, ctl);
        let _g = self.ctl.suspend();
        let written = self.written.lock().unwrap().clone();
        for (gid, epochs) in &written {
            let state = self.state(gid).ok().flatten();
            let mut recs = vec![];
            for e in epochs {
                if let Ok(Some(d)) = self.epoch(gid, *e) {
                    recs.push(EpochRecord::new(*e, d));
                }
            }
            if let Some(s) = state {
                let _g2 = n.ctl.clone();
                let _s = _g2.suspend();
                let _ = n.write(GroupState { id: gid.clone(), data: s }, recs, vec![]);
            }
        }
        n
    }

    /// SQLite only. On a deep copy of this store, a write that carries a new snapshot together with an epoch record whose
    /// id is already stored (what a stale second handle on the same group would flush) fails on the primary key. A failed
    /// write must leave nothing behind: `None` when not applicable (no SQLite part, nothing stored, or the write is
    /// accepted), otherwise whether the copy still returns the snapshot and the epoch record it had.
    pub fn failed_write_leaves_no_trace(&self, gid: &[u8]) -> Option<Result<(), String>> {
        self.sql.as_ref()?;
        let epochs: Vec<u64> = self.written.lock().unwrap().get(gid).cloned().unwrap_or_default().into_iter().collect();
        let ctl = Arc::new(FaultCtl::default());
        let fork = self.fork(ctl);
        let mut sql = fork.sql.clone()?;
        let e = epochs.into_iter().rev().find(|e| matches!(sql.epoch(gid, *e), Ok(Some(_))))?;
        let before_state = sql.state(gid).ok()?.map(|x| x.to_vec())?;
        let before_epoch = sql.epoch(gid, e).ok()?.map(|x| x.to_vec());
        let marker = b"snapshot of a write that fails".to_vec();
        let r = sql.write(GroupState { id: gid.to_vec(), data: marker.into() }, vec![EpochRecord::new(e, b"duplicate".to_vec().into())], vec![]);
        if r.is_ok() {
            return None;
        }
        let after_state = sql.state(gid).ok()?.map(|x| x.to_vec());
        let after_epoch = sql.epoch(gid, e).ok()?.map(|x| x.to_vec());
        if after_state.as_ref() != Some(&before_state) {
            return Some(Err(format!("the write failed ({:?}) but the stored snapshot changed: {} -> {} bytes", r.err(), before_state.len(), after_state.map(|x| x.len()).unwrap_or(0))));
        }
        if after_epoch != before_epoch {
            return Some(Err(format!("the write failed but the stored record of epoch {e} changed")));
        }
        Some(Ok(()))
    }

    pub fn delete_group(&self, gid: &[u8]) {
        if let Some(m) = &self.mem {
            m.delete_group(gid);
        }
        if let Some(s) = &self.sql {
            let _ = s.delete_group(gid);
        }
        self.written.lock().unwrap().remove(gid);
    }

    fn cmp<T: PartialEq + std::fmt::Debug>(&self, what: &str, a: &T, b: &T) {
        self.tee_compared.fetch_add(1, Ordering::Relaxed);
        if a != b {
            let sa = format!("{a:?}");
            let sb = format!("{b:?}");
            self.tee_mismatch.lock().unwrap().push(format!(
                "{what}: mem={} sql={}",
                &sa[..sa.len().min(80)],
                &sb[..sb.len().min(80)]
            ));
        }
    }

    /// All epoch ids retrievable right now (among ids ever written).
    pub fn retrievable(&self, gid: &[u8]) -> Vec<u64> {
        let _g = self.ctl.suspend();
        let ids = self.written.lock().unwrap().get(gid).cloned().unwrap_or_default();
        ids.into_iter()
            .filter(|e| matches!(self.epoch(gid, *e), Ok(Some(_))))
            .collect()
    }
}

type Z = Zeroizing<Vec<u8>>;

impl GroupStateStorage for VGroupStore {
    type Error = VError;

    fn state(&self, group_id: &[u8]) -> Result<Option<Z>, VError> {
        self.ctl.enter("group.state")?;
        match self.kind {
            StoreKind::Mem => Ok(self.mem.as_ref().unwrap().state(group_id).unwrap()),
            StoreKind::Sql => self.sql.as_ref().unwrap().state(group_id).map_err(sqlerr),
            StoreKind::Tee => {
                let a = self.mem.as_ref().unwrap().state(group_id).unwrap();
                let b = self.sql.as_ref().unwrap().state(group_id).map_err(sqlerr)?;
                self.cmp("state", &a.as_ref().map(|x| x.to_vec()), &b.as_ref().map(|x| x.to_vec()));
                Ok(a)
            }
        }
    }

    fn epoch(&self, group_id: &[u8], epoch_id: u64) -> Result<Option<Z>, VError> {
        self.ctl.enter("group.epoch")?;
        match self.kind {
            StoreKind::Mem => Ok(self.mem.as_ref().unwrap().epoch(group_id, epoch_id).unwrap()),
            StoreKind::Sql => self.sql.as_ref().unwrap().epoch(group_id, epoch_id).map_err(sqlerr),
            StoreKind::Tee => {
                let a = self.mem.as_ref().unwrap().epoch(group_id, epoch_id).unwrap();
                let b = self.sql.as_ref().unwrap().epoch(group_id, epoch_id).map_err(sqlerr)?;
                self.cmp(&format!("epoch({epoch_id})"), &a.as_ref().map(|x| x.to_vec()), &b.as_ref().map(|x| x.to_vec()));
                Ok(a)
            }
        }
    }

    fn write(&mut self, state: GroupState, inserts: Vec<EpochRecord>, updates: Vec<EpochRecord>) -> Result<(), VError> {
        self.ctl.enter("group.write")?;
        {
            let mut w = self.written.lock().unwrap();
            let e = w.entry(state.id.clone()).or_default();
            for r in &inserts {
                e.insert(r.id);
            }
        }
        let gid = state.id.clone();
        match self.kind {
            StoreKind::Mem => {
                self.mem.as_mut().unwrap().write(state, inserts, updates).unwrap();
                Ok(())
            }
            StoreKind::Sql => self.sql.as_mut().unwrap().write(state, inserts, updates).map_err(sqlerr),
            StoreKind::Tee => {
                self.mem.as_mut().unwrap().write(state.clone(), inserts.clone(), updates.clone()).unwrap();
                self.sql.as_mut().unwrap().write(state, inserts, updates).map_err(sqlerr)?;
                // full comparison of the stored history after every write
                let _g = self.ctl.suspend();
                let ids = self.written.lock().unwrap().get(&gid).cloned().unwrap_or_default();
                for e in ids {
                    let a = self.mem.as_ref().unwrap().epoch(&gid, e).unwrap().map(|x| x.to_vec());
                    let b = self.sql.as_ref().unwrap().epoch(&gid, e).map_err(sqlerr)?.map(|x| x.to_vec());
                    self.cmp(&format!("after-write epoch({e})"), &a, &b);
                }
                let a = self.mem.as_ref().unwrap().max_epoch_id(&gid).unwrap();
                let b = self.sql.as_ref().unwrap().max_epoch_id(&gid).map_err(sqlerr)?;
                self.cmp("after-write max_epoch_id", &a, &b);
                Ok(())
            }
        }
    }

    fn max_epoch_id(&self, group_id: &[u8]) -> Result<Option<u64>, VError> {
        self.ctl.enter("group.max_epoch_id")?;
        match self.kind {
            StoreKind::Mem => Ok(self.mem.as_ref().unwrap().max_epoch_id(group_id).unwrap()),
            StoreKind::Sql => self.sql.as_ref().unwrap().max_epoch_id(group_id).map_err(sqlerr),
            StoreKind::Tee => {
                let a = self.mem.as_ref().unwrap().max_epoch_id(group_id).unwrap();
                let b = self.sql.as_ref().unwrap().max_epoch_id(group_id).map_err(sqlerr)?;
                self.cmp("max_epoch_id", &a, &b);
                Ok(a)
            }
        }
    }
}

#[derive(Clone)]
pub struct VKeyPkgStore {
    pub mem: InMemoryKeyPackageStorage,
    pub sql: Option<SqLiteKeyPackageStorage>,
    pub ctl: Arc<FaultCtl>,
}

impl VKeyPkgStore {
    pub fn new(use_sql: bool, ctl: Arc<FaultCtl>) -> Self {
        VKeyPkgStore {
            mem: InMemoryKeyPackageStorage::new(),
            sql: use_sql.then(|| {
                SqLiteDataStorageEngine::new(MemoryStrategy)
                    .expect("engine")
                    .key_package_storage()
                    .expect("sqlite kp storage")
            }),
            ctl,
        }
    }
    pub fn contains(&self, id: &[u8]) -> bool {
        let _g = self.ctl.suspend();
        match &self.sql {
            Some(s) => KeyPackageStorage::get(s, id).ok().flatten().is_some(),
            None => self.mem.get(id).is_some(),
        }
    }
    pub fn count(&self) -> usize {
        match &self.sql {
            Some(s) => s.count().unwrap_or(0),
            None => self.mem.key_packages().len(),
        }
    }
}

impl KeyPackageStorage for VKeyPkgStore {
    type Error = VError;
    fn delete(&mut self, id: &[u8]) -> Result<(), VError> {
        self.ctl.enter("kp.delete")?;
        match &mut self.sql {
            Some(s) => KeyPackageStorage::delete(s, id).map_err(sqlerr),
            None => {
                self.mem.delete(id);
                Ok(())
            }
        }
    }
    fn insert(&mut self, id: Vec<u8>, pkg: KeyPackageData) -> Result<(), VError> {
        self.ctl.enter("kp.insert")?;
        match &mut self.sql {
            Some(s) => KeyPackageStorage::insert(s, id, pkg).map_err(sqlerr),
            None => {
                self.mem.insert(id, pkg);
                Ok(())
            }
        }
    }
    fn get(&self, id: &[u8]) -> Result<Option<KeyPackageData>, VError> {
        self.ctl.enter("kp.get")?;
        match &self.sql {
            Some(s) => KeyPackageStorage::get(s, id).map_err(sqlerr),
            None => Ok(self.mem.get(id)),
        }
    }
}

#[derive(Clone)]
pub struct VPskStore {
    /// the shipped in-memory PSK storage; this wrapper only adds call counting / fault injection
    pub inner: InMemoryPreSharedKeyStorage,
    pub ctl: Arc<FaultCtl>,
}

impl VPskStore {
    pub fn new(ctl: Arc<FaultCtl>) -> Self {
        VPskStore { inner: Default::default(), ctl }
    }
    /// insert or replace (a PSK rotated under the same id)
    pub fn put(&self, id: &[u8], value: &[u8]) {
        self.inner.clone().insert(ExternalPskId::new(id.to_vec()), PreSharedKey::new(value.to_vec()));
    }
    pub fn remove(&self, id: &[u8]) {
        self.inner.clone().delete(&ExternalPskId::new(id.to_vec()));
    }
    pub fn value(&self, id: &[u8]) -> Option<Vec<u8>> {
        self.inner.get(&ExternalPskId::new(id.to_vec())).map(|p| p.raw_value().to_vec())
    }
}

impl PreSharedKeyStorage for VPskStore {
    type Error = VError;
    fn get(&self, id: &ExternalPskId) -> Result<Option<PreSharedKey>, VError> {
        self.ctl.enter("psk.get")?;
        Ok(self.inner.get(id))
    }
}


// ---------------------------------------------------------------------------------------------
// identity

#[derive(Clone)]
pub struct VIdentity {
    /// identities (basic credential bytes) this party's application refuses
    pub reject: Arc<Mutex<BTreeSet<Vec<u8>>>>,
    pub fail_next: Arc<AtomicBool>,
    /// custom credential types this party's application also accepts (identity = the credential's data)
    pub extra_types: Arc<Mutex<Vec<u16>>>,
}

impl VIdentity {
    pub fn new() -> Self {
        VIdentity {
            reject: Default::default(),
            fail_next: Default::default(),
            extra_types: Default::default(),
        }
    }
    /// data of a custom credential of a type this application accepts
    fn custom(&self, id: &SigningIdentity) -> Option<Vec<u8>> {
        match &id.credential {
            mls_rs::identity::Credential::Custom(c) if self.extra_types.lock().unwrap().contains(&c.credential_type.raw_value()) => Some(c.data.clone()),
            _ => None,
        }
    }
    fn check(&self, id: &SigningIdentity) -> Result<(), VError> {
        if let Some(b) = id.credential.as_basic() {
            if self.reject.lock().unwrap().contains(&b.identifier) {
                return Err(VError("identity rejected by application".into()));
            }
        }
        Ok(())
    }
}

impl IdentityProvider for VIdentity {
    type Error = VError;

    fn validate_member(&self, id: &SigningIdentity, t: Option<MlsTime>, ctx: MemberValidationContext<'_>) -> Result<(), VError> {
        self.check(id)?;
        if let Some(data) = self.custom(id) {
            return if data.is_empty() { Err(VError("empty custom credential".into())) } else { Ok(()) };
        }
        BasicIdentityProvider.validate_member(id, t, ctx).map_err(|e| VError(format!("{e:?}")))
    }
    fn validate_external_sender(&self, id: &SigningIdentity, t: Option<MlsTime>, ext: Option<&ExtensionList>) -> Result<(), VError> {
        self.check(id)?;
        BasicIdentityProvider.validate_external_sender(id, t, ext).map_err(|e| VError(format!("{e:?}")))
    }
    fn identity(&self, id: &SigningIdentity, ext: &ExtensionList) -> Result<Vec<u8>, VError> {
        if let Some(data) = self.custom(id) {
            return Ok(data);
        }
        BasicIdentityProvider.identity(id, ext).map_err(|e| VError(format!("{e:?}")))
    }
    fn valid_successor(&self, p: &SigningIdentity, s: &SigningIdentity, ext: &ExtensionList) -> Result<bool, VError> {
        if let (Some(a), Some(b)) = (self.custom(p), self.custom(s)) {
            return Ok(a == b);
        }
        BasicIdentityProvider.valid_successor(p, s, ext).map_err(|e| VError(format!("{e:?}")))
    }
    fn supported_types(&self) -> Vec<CredentialType> {
        let mut v = BasicIdentityProvider.supported_types();
        v.extend(self.extra_types.lock().unwrap().iter().map(|t| CredentialType::new(*t)));
        v
    }
}
