//! C19 — late messages: exact retention window and never a wrong sender.
use crate::engine::*;
use crate::history::{setup_failure, CFG_LEN};
use crate::providers::{ProviderKind, StoreKind};
use crate::world::*;
use crate::Ctx;
use mls_rs::group::ReceivedMessage;
use mls_rs::GroupStateStorage;
use serde_json::json;

const P: &str = "C19";

fn fail(what: &str, detail: String) -> Failure {
    Failure::new(format!("{P}|{what}"), detail)
}

struct Held {
    bytes: Vec<u8>,
    epoch: u64,
    sender: usize,
    sender_leaf: u32,
    sig_key: Vec<u8>,
    payload: Vec<u8>,
}

/// Mirror model of what receiver X retains.
#[derive(Default, Debug)]
struct Retention {
    stored: Vec<u64>,
    pending: Vec<u64>,
}

impl Retention {
    fn enter_new_epoch(&mut self, old: u64) {
        self.pending.push(old);
    }
    fn write(&mut self, r: usize) {
        self.stored.append(&mut self.pending);
        while self.stored.len() > r {
            self.stored.remove(0);
        }
    }
    fn retained(&self, e: u64) -> bool {
        self.stored.contains(&e) || self.pending.contains(&e)
    }
}

fn sig_key_at(w: &World, p: usize, leaf: u32) -> Option<Vec<u8>> {
    w.parties[p].g().roster().member_with_index(leaf).ok().map(|m| m.signing_identity.signature_key.as_bytes().to_vec())
}

fn identity_at(w: &World, p: usize, leaf: u32) -> Option<Vec<u8>> {
    w.parties[p].g().roster().member_with_index(leaf).ok().and_then(|m| m.signing_identity.credential.as_basic().map(|b| b.identifier.clone()))
}

fn run_case(case: &Case, ev: &Evidence) -> CaseResult {
    ev.eval(1);
    let suites = [1u16, 1, 3, 2];
    let mut cfg = WorldCfg::default_for(suites[pick(case.c(0), suites.len())]);
    cfg.providers = vec![ProviderKind::ALL[pick(case.c(1), 3)]];
    cfg.store = [StoreKind::Mem, StoreKind::Sql, StoreKind::Tee][pick(case.c(2), 3)];
    cfg.retention = 1 + pick(case.c(3), 5);
    cfg.encrypt_handshake = case.c(4) & 1 == 1;
    let retention = cfg.retention;
    let mut w = World::new(P, cfg);
    let creator = w.new_party();
    w.create_group(creator).map_err(|e| setup_failure(P, "create_group", &e))?;
    let mut spec = CommitSpec::default();
    let x = w.new_party();
    spec.add.push(x);
    for _ in 0..2 + pick(case.c(5), 3) {
        spec.add.push(w.new_party());
    }
    w.commit_round(creator, &spec)?.map_err(|e| setup_failure(P, "initial_commit", &e))?;
    // A second group of X in the same storage, at unrelated (usually much higher) epochs and written to often:
    // retention is per group, nothing that happens to this group may touch the epochs of the group under test.
    let mut side: Option<VGroup> = None;
    let advance_side = |w: &World, g: &mut VGroup| -> CaseResult {
        let t = w.now();
        guard(|| {
            g.commit_builder().commit_time(t).build()?;
            g.apply_pending_commit()?;
            g.write_to_storage()
        })
        .map_err(|e| setup_failure(P, "side_group", &e))
    };
    if case.c(6) % 3 != 0 {
        let t = w.now();
        let mut g = {
            let party = &w.parties[x];
            guard(|| party.client.group_builder()?.with_now_time(t).build()).map_err(|e| setup_failure(P, "side_group_create", &e))?
        };
        for _ in 0..1 + case.c(7) % 9 {
            advance_side(&w, &mut g)?;
        }
        ev.class("cases_with_a_second_group_in_the_same_store");
        side = Some(g);
    }
    let mut ret = Retention::default();
    let mut held: Vec<Held> = vec![];
    let mut accepted: Vec<Vec<u8>> = vec![];
    let mut delivered_ok = 0u64;
    let mut classes: Vec<String> = vec![];
    let mut boundary = false;

    // a commit round in which X follows along; the model records the epoch X leaves
    let mut advance = |w: &mut World, ret: &mut Retention, committer: usize, spec: &CommitSpec| -> Result<bool, Failure> {
        let old = w.epoch;
        match w.commit_round(committer, spec)? {
            Ok(_) => {
                ret.enter_new_epoch(old);
                Ok(true)
            }
            Err(e) if e.is_panic() => Err(panic_failure(P, "commit", &e)),
            Err(_) => Ok(false),
        }
    };

    let mut deliver = |w: &mut World, ret: &Retention, h: &Held, delivered_ok: &mut u64, classes: &mut Vec<String>, boundary: &mut bool| -> CaseResult {
        let retained = h.epoch == w.epoch || ret.retained(h.epoch);
        let cur_key = sig_key_at(w, x, h.sender_leaf);
        let cur_id = identity_at(w, x, h.sender_leaf);
        let same_key = cur_key.as_ref() == Some(&h.sig_key);
        let same_party = cur_id.as_ref() == Some(&w.parties[h.sender].name);
        let age = w.epoch - h.epoch;
        if age + 1 >= retention as u64 && age <= retention as u64 + 1 {
            *boundary = true;
        }
        let leaf_class = if same_key {
            "leaf_unchanged_or_hpke_rekeyed"
        } else if same_party {
            "leaf_identity_rekeyed"
        } else if cur_key.is_none() {
            "leaf_vacated"
        } else {
            "leaf_reused_by_another_member"
        };
        classes.push(format!("late_delivery:{}:{leaf_class}", if retained { "retained" } else { "not_retained" }));
        let res = w.process(x, &h.bytes);
        match res {
            Err(e) if e.is_panic() => Err(panic_failure(P, "process_incoming_message(late application message)", &e)),
            Ok(ReceivedMessage::ApplicationMessage(d)) => {
                if !retained {
                    return Err(fail(
                        "late_message_decrypted_outside_retention_window",
                        format!("message of epoch {} decrypted in epoch {} with retention {retention}; model: stored {:?} pending {:?}", h.epoch, w.epoch, ret.stored, ret.pending),
                    ));
                }
                if !same_key && !same_party {
                    return Err(fail(
                        "late_message_accepted_although_sender_leaf_changed_hands",
                        format!("message of party {} (leaf {} in epoch {}) accepted in epoch {} where that leaf is {leaf_class}; reported sender {}", h.sender, h.sender_leaf, h.epoch, w.epoch, d.sender_index),
                    ));
                }
                if d.sender_index != h.sender_leaf || d.data() != &h.payload[..] {
                    return Err(fail("late_message_misattributed", format!("reported sender {} want {}", d.sender_index, h.sender_leaf)));
                }
                *delivered_ok += 1;
                Ok(())
            }
            Ok(o) => Err(fail("late_message_wrong_kind", format!("{o:?}").chars().take(80).collect())),
            Err(e) => {
                if retained && same_key {
                    return Err(fail(
                        &format!("late_message_rejected_inside_retention_window|{}", e.class()),
                        format!(
                            "message of epoch {} (sender leaf {} unchanged) rejected in epoch {} with retention {retention}; model: stored {:?} pending {:?}: {}",
                            h.epoch,
                            h.sender_leaf,
                            w.epoch,
                            ret.stored,
                            ret.pending,
                            e.text()
                        ),
                    ));
                }
                Ok(())
            }
        }
    };

    for op in &case.ops {
        let members = w.members();
        let others: Vec<usize> = members.iter().copied().filter(|m| *m != x).collect();
        if others.len() < 2 {
            break;
        }
        match pick_weighted(op[0], &[20, 22, 14, 8, 7, 8, 6, 12, 5]) {
            0 => {
                // a sender encrypts messages that reach X late
                let s = others[pick(op[1], others.len())];
                if w.parties[s].g().commit_required() {
                    continue;
                }
                for i in 0..1 + op[2] % 3 {
                    let payload = vec![op[3] as u8 ^ i as u8; 5 + (op[3] % 20) as usize];
                    w.send_app(s, payload.clone(), vec![]).map_err(|e| setup_failure(P, "encrypt", &e))?;
                    let f = w.inflight.pop().unwrap();
                    for m in &members {
                        if *m != s && *m != x {
                            w.process(*m, &f.bytes).map_err(|e| setup_failure(P, "process", &e))?;
                        }
                    }
                    let leaf = w.parties[s].leaf();
                    held.push(Held { bytes: f.bytes, epoch: w.epoch, sender: s, sender_leaf: leaf, sig_key: sig_key_at(&w, x, leaf).unwrap_or_default(), payload });
                }
            }
            1 => {
                // the group advances
                let c = members[pick(op[1], members.len())];
                advance(&mut w, &mut ret, c, &CommitSpec { order: op[2], ..Default::default() })?;
            }
            2 => {
                if let Err(e) = w.save(x) {
                    return Err(setup_failure(P, "write_to_storage", &e));
                }
                ret.write(retention);
                classes.push("writes".into());
                if let Some(g) = side.as_mut() {
                    advance_side(&w, g)?;
                }
            }
            3 => {
                // a sender of held messages is removed
                let Some(h) = held.get(pick(op[1], held.len().max(1))) else { continue };
                if w.parties[h.sender].status != Status::Member {
                    continue;
                }
                let leaf = w.parties[h.sender].leaf();
                let c = others.iter().copied().find(|m| *m != h.sender).unwrap_or(x);
                let c = if op[2] % 3 == 0 { x } else { c };
                advance(&mut w, &mut ret, c, &CommitSpec { remove: vec![leaf], ..Default::default() })?;
            }
            4 => {
                // a new member fills the leftmost blank (possibly a vacated sender leaf)
                if members.len() >= 8 {
                    continue;
                }
                let p = w.new_party();
                let c = others[pick(op[1], others.len())];
                advance(&mut w, &mut ret, c, &CommitSpec { add: vec![p], ..Default::default() })?;
            }
            5 => {
                // the sender re-keys its HPKE leaf key (same signature key): commit with path by the sender
                let Some(h) = held.get(pick(op[1], held.len().max(1))) else { continue };
                if w.parties[h.sender].status != Status::Member {
                    continue;
                }
                let s = h.sender;
                let mut sp = CommitSpec::default();
                sp.custom = Some(vec![1]);
                // a custom proposal alone needs no path; force one through an update proposal by reference instead
                let party = &mut w.parties[s];
                match guard(|| party.gm().propose_update(vec![])) {
                    Ok(m) => {
                        w.push_proposal(s, m, vec![]).map_err(|e| setup_failure(P, "encode", &e))?;
                        let c = others.iter().copied().find(|m| *m != s).unwrap_or(x);
                        advance(&mut w, &mut ret, c, &CommitSpec::default())?;
                    }
                    Err(e) => return Err(setup_failure(P, "propose_update", &e)),
                }
            }
            6 => {
                // the sender changes its signature key
                let Some(h) = held.get(pick(op[1], held.len().max(1))) else { continue };
                if w.parties[h.sender].status != Status::Member {
                    continue;
                }
                let s = h.sender;
                advance(&mut w, &mut ret, s, &CommitSpec { new_identity: true, ..Default::default() })?;
            }
            7 => {
                if held.is_empty() {
                    continue;
                }
                let h = held.remove(pick(op[1], held.len()));
                let before_ok = delivered_ok;
                deliver(&mut w, &ret, &h, &mut delivered_ok, &mut classes, &mut boundary)?;
                if delivered_ok > before_ok {
                    accepted.push(h.bytes.clone());
                }
                // a late message that was accepted is never accepted again, whatever other epochs were looked up in between
                if !accepted.is_empty() {
                    let b = accepted[pick(op[2], accepted.len())].clone();
                    match w.process(x, &b) {
                        Ok(_) => return Err(fail("late_message_accepted_twice", format!("a late message that X had already accepted was accepted again in epoch {} (retention {retention})", w.epoch))),
                        Err(e) if e.is_panic() => return Err(panic_failure(P, "process_incoming_message(replayed late message)", &e)),
                        Err(_) => classes.push("replay_of_accepted_late_message_rejected".into()),
                    }
                }
            }
            _ => {
                // write, drop and load X
                if let Err(e) = w.save(x) {
                    return Err(setup_failure(P, "write_to_storage", &e));
                }
                ret.write(retention);
                if let Err(e) = w.reload(x) {
                    return Err(setup_failure(P, "load_group", &e));
                }
                classes.push("reloads".into());
            }
        }
    }
    for h in std::mem::take(&mut held) {
        deliver(&mut w, &ret, &h, &mut delivered_ok, &mut classes, &mut boundary)?;
    }
    // storage: exactly the modelled epochs are retrievable after a final write
    if let Some(g) = side.as_mut() {
        advance_side(&w, g)?;
    }
    if let Err(e) = w.save(x) {
        return Err(setup_failure(P, "write_to_storage", &e));
    }
    ret.write(retention);
    let gid = w.group_id.clone();
    {
        let party = &w.parties[x];
        let _s = party.ctl.suspend();
        for e in 0..w.epoch {
            let present = party.gstore.epoch(&gid, e).map(|o| o.is_some()).unwrap_or(false);
            let want = ret.stored.contains(&e);
            if present != want {
                return Err(fail(
                    if present { "trimmed_epoch_still_retrievable_from_storage" } else { "retained_epoch_missing_from_storage" },
                    format!("epoch {e}: storage has it: {present}; model (retention {retention}) stored {:?}; store {:?}", ret.stored, w.cfg.store),
                ));
            }
        }
        let mm = party.gstore.tee_mismatch.lock().unwrap();
        if let Some(first) = mm.first() {
            return Err(fail("storage_providers_disagree", first.clone()));
        }
    }
    for c in &classes {
        ev.class(c);
    }
    ev.class_n("late_messages_decrypted", delivered_ok);
    ev.class(&format!("retention_{retention}"));
    if boundary || classes.iter().any(|c| c.contains("vacated") || c.contains("reused") || c.contains("identity_rekeyed")) {
        ev.nontrivial(case);
        ev.sample(&format!("nt{}", retention), || json!({"retention": retention, "store": format!("{:?}", w.cfg.store), "epochs": w.epoch, "late_messages_decrypted": delivered_ok, "case": case.to_json()}));
    }
    Ok(())
}

pub fn run(ctx: &Ctx) -> ! {
    let ev = Evidence::new(P, ctx.tier, ctx.seed, "exploration");
    ev.set_rule(
        "retention R in 1..5, storage in {in-memory, SQLite, tee}; senders encrypt application messages that are withheld from receiver X; the group then advances by generated commits while X writes to \
         storage following a generated pattern, and the senders' leaves are removed, removed and refilled by another member, HPKE-re-keyed (update) or identity-re-keyed; X is optionally written+reloaded; \
         then the late messages are delivered. Oracle: mirror model of the retained set (R most recent inserted prior epochs as of the last write, plus epochs entered since): a late message must decrypt \
         iff its epoch is retained and the sender's leaf still carries the sender's signature key, then with the original sender index and payload; a vacated or reused leaf must reject; for identity-re-keyed \
         leaves rejection or correct attribution is accepted; outside the window it must reject. After a final write GroupStateStorage::epoch(id) is Some exactly for the modelled retained ids. \
         With R = 3 (the providers' default) the stores are built without an explicit limit (Default::default()). \
         Non-trivial = a delivery at age R-1, R or R+1, or to a vacated / reused / re-keyed leaf; distinct by case value.",
    );
    ev.assume("X joined by Welcome before any late message was sent; epochs in which X was not a member are not modelled");
    let run = |c: &Case| run_case(c, &ev);
    if let Some(path) = &ctx.replay {
        let v: serde_json::Value = serde_json::from_str(&std::fs::read_to_string(path).unwrap_or_default()).unwrap_or_default();
        let case = Case::from_json(&v["case"]).unwrap_or_else(|| inconclusive(&ev, "no case"));
        return match run(&case) {
            Ok(()) => finish_ok(&ev),
            Err(f) => finish_violation(&ev, Violation { failure: f, case: Some(case.clone()) }, case.to_json()),
        };
    }
    for (_, v) in load_replays(P) {
        if let Some(case) = Case::from_json(&v["case"]) {
            if let Err(f) = run(&case) {
                finish_violation(&ev, Violation { failure: f, case: Some(case.clone()) }, case.to_json());
            }
        }
    }
    let spec = RunSpec { shards: 16, cases_per_shard: ctx.tier.pick(120, 4000), cfg_len: CFG_LEN, min_ops: 6, max_ops: ctx.tier.pick(34, 60), max_shrink_iters: 400 };
    match run_sharded(&ev, &spec, 19, &run) {
        Ok(()) => finish_ok(&ev),
        Err(v) => {
            let payload = v.case.as_ref().map(|c| c.to_json()).unwrap_or_default();
            finish_violation(&ev, v, payload)
        }
    }
}
