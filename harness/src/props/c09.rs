//! C09 — members hold exactly the private keys they are entitled to, matching the tree.
use crate::engine::*;
use crate::history::*;
use crate::refmodel::tree::{RefNode, RefTreeNodes};
use crate::world::*;
use crate::Ctx;
use mls_rs::crypto::{HpkePublicKey, HpkeSecretKey};
use mls_rs::CipherSuiteProvider;
use std::collections::{BTreeMap, BTreeSet};

const P: &str = "C09";

pub struct Obs {
    ev: &'static Evidence,
    /// run the stored-legacy-state check in this case
    legacy: bool,
    pre_tree: Option<Vec<u8>>,
    /// leaf private key bytes each member held before the commit (party -> key)
    pre_leaf_keys: BTreeMap<usize, (Vec<u8>, Vec<u8>)>,
    pub keys_checked: u64,
    pub members_checked: u64,
}

fn fail(what: &str, detail: String) -> Failure {
    Failure::new(format!("{P}|{what}"), detail)
}

fn node_pk(n: &RefNode) -> Option<&Vec<u8>> {
    match n {
        RefNode::Blank => None,
        RefNode::Leaf(l) => Some(&l.encryption_key),
        RefNode::Parent(p) => Some(&p.encryption_key),
    }
}

impl Obs {
    fn check_member(&mut self, w: &mut World, m: usize, how: &str) -> CaseResult {
        let suite = w.cfg.suite;
        let party = &w.parties[m];
        let cs = party.suite_provider(suite);
        let g = party.g().clone();
        self.check_group(&g, &cs, m, how)
    }

    /// A state stored by an earlier version of the library with a pending commit in the old format
    /// (`/repo/mls-rs/test_data/legacy_snapshot.mls`, the only such state there is) is loaded and its pending commit applied
    /// through `apply_pending_commit_backwards_compatible`: the member's private keys must be those of the new tree.
    fn legacy_pending_commit(&mut self, w: &mut World) -> CaseResult {
        use mls_rs_core::group::{GroupState, GroupStateStorage};
        let Ok(bytes) = std::fs::read("/repo/mls-rs/test_data/legacy_snapshot.mls") else {
            self.ev.class("legacy_snapshot_not_available");
            return Ok(());
        };
        let p = w.new_party();
        let party = &mut w.parties[p];
        let mut store = party.gstore.clone();
        store
            .write(GroupState { id: b"group".to_vec(), data: bytes.into() }, vec![], vec![])
            .map_err(|e| Failure::new(format!("{P}|harness|legacy_state_not_storable"), format!("{e:?}")))?;
        let mut g = match guard(|| party.client.load_group(b"group")) {
            Ok(g) => g,
            Err(e) if e.is_panic() => return Err(panic_failure(P, "load_group(legacy state)", &e)),
            Err(e) => {
                // not loadable with this provider / configuration: nothing to check
                self.ev.class(&format!("legacy_state_not_loadable:{}", e.class()));
                return Ok(());
            }
        };
        let cs = party.crypto.suite(g.cipher_suite());
        let Some(cs) = cs else {
            self.ev.class("legacy_state_suite_not_supported_by_provider");
            return Ok(());
        };
        let before = g.verif_private_tree().1;
        match guard(|| g.apply_pending_commit_backwards_compatible()) {
            Ok(_) => {}
            Err(e) if e.is_panic() => return Err(panic_failure(P, "apply_pending_commit_backwards_compatible", &e)),
            Err(e) => return Err(fail(&format!("legacy_pending_commit_not_applicable|{}", e.class()), e.text().into())),
        }
        let after = g.verif_private_tree().1;
        if before.first() == after.first() {
            return Err(fail("leaf_key_not_replaced|legacy_pending_commit", "the pending commit changed the member's leaf but the stored leaf private key is the old one".into()));
        }
        self.check_group(&g, &cs, p, "legacy_pending_commit")?;
        self.ev.class("legacy_pending_commit_applied_and_checked");
        Ok(())
    }

    fn check_group(&mut self, g: &VGroup, cs: &crate::providers::VSuite, m: usize, how: &str) -> CaseResult {
        let bytes = g.export_tree().to_bytes().map_err(|e| fail("export_tree_failed", format!("{e:?}")))?;
        let t = RefTreeNodes::parse(&bytes).ok_or_else(|| fail("exported_tree_unparsable", String::new()))?;
        let (leaf, keys) = g.verif_private_tree();
        if leaf != g.current_member_index() {
            return Err(fail("private_tree_leaf_index", format!("party {m}: private tree says leaf {leaf}, group says {}", g.current_member_index())));
        }
        let mut nodes = vec![2 * leaf];
        nodes.extend(t.math.direct_copath(2 * leaf).into_iter().map(|(p, _)| p));
        if keys.first().map(|k| k.is_none()).unwrap_or(true) {
            return Err(fail(&format!("no_leaf_key|{how}"), format!("party {m} ({how}) holds no private key for its own leaf {leaf}")));
        }
        for (j, k) in keys.iter().enumerate() {
            let Some(k) = k else { continue };
            let Some(node) = nodes.get(j) else {
                return Err(fail(
                    &format!("key_beyond_direct_path|{how}"),
                    format!("party {m} ({how}, leaf {leaf}) holds a key at position {j} but its direct path has {} nodes", nodes.len() - 1),
                ));
            };
            let Some(pk) = node_pk(&t.nodes[*node as usize]) else {
                return Err(fail(
                    &format!("key_for_blank_node|{how}"),
                    format!("party {m} ({how}, leaf {leaf}) epoch {} holds a private key for blank node {node} (path position {j})", g.current_epoch()),
                ));
            };
            // seal to the node's public key, open with the stored private key
            let pk = HpkePublicKey::from(pk.clone());
            let sk = HpkeSecretKey::from(k.clone());
            let pt = [j as u8, 0xC9, m as u8];
            let ok = cs
                .hpke_seal(&pk, b"verif C09", None, &pt)
                .ok()
                .and_then(|ct| cs.hpke_open(&ct, &sk, &pk, b"verif C09", None).ok())
                .map(|o| o.as_slice() == pt)
                .unwrap_or(false);
            if !ok {
                return Err(fail(
                    &format!("key_does_not_match_node|{how}"),
                    format!("party {m} ({how}, leaf {leaf}) epoch {}: stored private key at path position {j} does not open what is sealed to node {node}", g.current_epoch()),
                ));
            }
            self.keys_checked += 1;
        }
        self.members_checked += 1;
        Ok(())
    }
}

impl Observer for Obs {
    fn before_commit(&mut self, w: &mut World, _committer: usize) -> CaseResult {
        if std::mem::take(&mut self.legacy) {
            self.legacy_pending_commit(w)?;
        }
        self.pre_tree = w.members().first().map(|m| w.parties[*m].g().export_tree().to_bytes().unwrap_or_default());
        self.pre_leaf_keys.clear();
        for m in w.members() {
            let g = w.parties[m].g();
            let (leaf, keys) = g.verif_private_tree();
            if let Some(Some(k)) = keys.first() {
                let pk = g.roster().member_with_index(leaf).ok();
                let _ = pk;
                let tree = g.export_tree().to_bytes().unwrap_or_default();
                if let Some(t) = RefTreeNodes::parse(&tree) {
                    if let Some(l) = t.leaf(leaf) {
                        self.pre_leaf_keys.insert(m, (k.clone(), l.encryption_key.clone()));
                    }
                }
            }
        }
        Ok(())
    }

    fn after_commit(&mut self, w: &mut World, info: &CommitInfo, _st: &HistoryStats) -> CaseResult {
        let post_bytes = w.parties[info.committer].g().export_tree().to_bytes().unwrap_or_default();
        let post = RefTreeNodes::parse(&post_bytes).ok_or_else(|| fail("exported_tree_unparsable", String::new()))?;
        let committer_leaf = w.parties[info.committer].leaf();
        for m in w.members() {
            let my_leaf = w.parties[m].leaf();
            let how = if m == info.committer {
                if info.external { "external_joiner" } else { "committer" }
            } else if info.joined.contains(&m) {
                "welcome_joiner"
            } else {
                // distance class: level of the common ancestor with the committer
                let lvl = post.math.level[post.math.lca(my_leaf, committer_leaf) as usize];
                // was this member unmerged at the node where it decrypts?
                if lvl >= 2 { "receiver_far" } else { "receiver_near" }
            };
            self.ev.class(&format!("checked_{how}"));
            if how.starts_with("receiver") || how.ends_with("joiner") {
                self.ev.nontrivial(&(w.epoch, m, &post_bytes[..post_bytes.len().min(64)]));
            }
            self.check_member(w, m, how)?;
        }
        // fresh keys on the committer's path
        if info.had_path {
            if let Some(pre) = self.pre_tree.take().and_then(|b| RefTreeNodes::parse(&b)) {
                let old_keys: BTreeSet<&Vec<u8>> = pre.nodes.iter().filter_map(node_pk).collect();
                let mut path = vec![2 * committer_leaf];
                path.extend(post.filtered_direct_path(committer_leaf).into_iter().map(|(p, _)| p));
                for n in path {
                    if let Some(pk) = node_pk(&post.nodes[n as usize]) {
                        if old_keys.contains(pk) {
                            return Err(fail(
                                "path_key_not_fresh",
                                format!("epoch {}: node {n} on committer leaf {committer_leaf}'s path carries a public key that was already in the previous epoch's tree", w.epoch),
                            ));
                        }
                    }
                }
            }
        }
        // nobody keeps the leaf private key it replaced
        for m in w.members() {
            if let Some((old_sk, old_pk)) = self.pre_leaf_keys.get(&m) {
                let g = w.parties[m].g();
                let (leaf, keys) = g.verif_private_tree();
                let cur_pk = post.leaf(leaf).map(|l| l.encryption_key.clone());
                if cur_pk.as_ref() != Some(old_pk) {
                    self.ev.class("leaf_key_replaced");
                    if keys.iter().flatten().any(|k| k == old_sk) {
                        return Err(fail(
                            "old_leaf_key_retained",
                            format!("party {m} (leaf {leaf}) replaced its leaf key in epoch {} but still stores the old private key", w.epoch),
                        ));
                    }
                }
            }
        }
        Ok(())
    }

    fn extra_op(&mut self, w: &mut World, op: &[u16; 5], _notes: &mut EpochNotes) -> CaseResult {
        let members = w.members();
        if members.is_empty() {
            return Ok(());
        }
        let m = members[pick(op[1], members.len())];
        if let Err(e) = w.save(m) {
            return Err(op_failure(P, "write_to_storage", &e));
        }
        if let Err(e) = w.reload(m) {
            return Err(op_failure(P, "load_group", &e));
        }
        self.ev.class("checked_reloaded");
        self.check_member(w, m, "reloaded")
    }
}

pub fn run(ctx: &Ctx) -> ! {
    let mut hp = HistoryParams::standard(ctx.tier);
    hp.kicks = true;
    hp.weights = [12, 10, 12, 1, 0, 1, 1, 30, 6, 1, 1, 5];
    hp.cross_decrypt_every = 0;
    let spec = RunSpec {
        shards: 16,
        cases_per_shard: ctx.tier.pick(70, 350),
        cfg_len: CFG_LEN,
        min_ops: 4,
        max_ops: ctx.tier.pick(30, 80),
        max_shrink_iters: 300,
    };
    run_property(
        ctx,
        P,
        "exploration",
        "histories as in C08. After every accepted commit, for every member (hook: leaf index + private key per direct-path position): a key is stored for the own leaf; \
         a stored key at position j implies node j of the member's direct path (reference tree math on the exported tree) is non-blank and a fresh HPKE seal to that node's \
         public key opens with the stored key; no key beyond the path; after a commit with path every non-blank node on the committer's filtered direct path and its leaf \
         carry public keys absent from the previous epoch's tree; a member whose leaf public key changed no longer stores the old leaf private key. \
         Classes by role: committer, receiver near/far (LCA level with the committer), Welcome joiner, external joiner, reloaded. \
         One case in eight also loads the shipped legacy-format state (mls-rs/test_data/legacy_snapshot.mls, a fixed input), applies its pending commit through apply_pending_commit_backwards_compatible and checks the keys the same way. \
         Non-trivial = (epoch, member) checks of receivers and joiners (distinct by epoch, member and tree prefix).",
        &hp,
        spec,
        &|case, ev| Obs { ev, legacy: case.c(9) % 8 == 0, pre_tree: None, pre_leaf_keys: BTreeMap::new(), keys_checked: 0, members_checked: 0 },
        &|_, o| {
            o.ev.class_n("private_keys_checked", o.keys_checked);
            o.ev.class_n("member_states_checked", o.members_checked);
            false
        },
    )
}
