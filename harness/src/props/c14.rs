//! C14 — the shipped crypto providers are interchangeable.
use crate::engine::*;
use crate::history::*;
use crate::providers::{ProviderKind, VCrypto, VSuite};
use crate::Ctx;
use mls_rs::crypto::{HpkeContextR, HpkeContextS, HpkePublicKey, HpkeSecretKey, SignaturePublicKey, SignatureSecretKey};
use mls_rs::identity::x509::{CertificateChain, DerCertificate, X509CredentialValidator};
use mls_rs::time::MlsTime;
use mls_rs::{CipherSuite, CipherSuiteProvider, CryptoProvider};
use mls_rs_core::crypto::HpkePsk;
use serde_json::json;

const P: &str = "C14";

fn fail(what: &str, detail: String) -> Failure {
    Failure::new(format!("{P}|{what}"), detail)
}

fn suite(kind: ProviderKind, s: u16) -> VSuite {
    VCrypto::new(kind).cipher_suite_provider(CipherSuite::from(s)).expect("suite")
}

fn edge_len(rng: &SplitMix) -> usize {
    match rng.below(12) {
        0 => 0,
        1 => 1,
        2 => 15,
        3 => 16,
        4 => 17,
        5 => 31,
        6 => 32,
        7 => 33,
        8 => 63,
        9 => 64,
        10 => 65 + rng.below(200) as usize,
        _ => rng.below(4096) as usize,
    }
}

fn primitives_case(case: &Case, ev: &Evidence) -> CaseResult {
    ev.eval(1);
    let pairs = [
        (ProviderKind::OpenSsl, ProviderKind::AwsLc),
        (ProviderKind::OpenSsl, ProviderKind::RustCrypto),
        (ProviderKind::AwsLc, ProviderKind::RustCrypto),
    ];
    let (ka, kb) = pairs[pick(case.c(0), 3)];
    let common: Vec<u16> = ka.suites().iter().copied().filter(|s| kb.suites().contains(s)).collect();
    let s = common[pick(case.c(1), common.len())];
    let (a, b) = (suite(ka, s), suite(kb, s));
    let mut rng = SplitMix::new(((case.c(2) as u64) << 32) | ((case.c(3) as u64) << 16) | case.c(4) as u64, 14);
    let who = format!("suite {s} {} vs {}", ka.name(), kb.name());
    let eq = |what: &str, x: Result<Vec<u8>, String>, y: Result<Vec<u8>, String>, input: String| -> CaseResult {
        match (&x, &y) {
            (Ok(p), Ok(q)) if p == q => Ok(()),
            (Err(_), Err(_)) => Ok(()),
            (Ok(p), Ok(q)) => Err(fail(&format!("providers_differ|{what}"), format!("{who}: {} vs {}; {input}", hex::encode(&p[..p.len().min(48)]), hex::encode(&q[..q.len().min(48)])))),
            _ => Err(fail(&format!("providers_accept_reject_differently|{what}"), format!("{who}: {} accepts: {}, {} accepts: {}; {input}", ka.name(), x.is_ok(), kb.name(), y.is_ok()))),
        }
    };
    let e = |r: Result<Vec<u8>, crate::providers::VError>| r.map_err(|e| e.0);
    // Sealing an empty plaintext: the OpenSSL and RustCrypto providers refuse it (EmptyPlaintext), AWS-LC does not.
    // One root cause, one signature, wherever it shows (AEAD, HPKE one-shot, HPKE context).
    let empty_pt = |what: &str, ra: bool, rb: bool| -> CaseResult {
        ev.class("empty_plaintext_probe");
        if ra == rb {
            return Ok(());
        }
        let accepting = if ra { ka.name() } else { kb.name() };
        let sig = if accepting == "awslc" { format!("{P}|empty_plaintext|awslc_accepts_others_reject") } else { format!("{P}|empty_plaintext|{what}|{}={ra}|{}={rb}", ka.name(), kb.name()) };
        ev.known_or_fail(&sig, || format!("{who}: {what} of an empty plaintext: {} accepts: {ra}, {} accepts: {rb}", ka.name(), kb.name()))
    };
    // NIST-curve secret keys are big-endian integers that the OpenSSL and AWS-LC providers export with leading zeros stripped and
    // import at any length, while RustCrypto imports 24..=Nsk bytes only: one root cause, one signature.
    let nist = matches!(s, 2 | 5 | 7);
    let short_secret = |what: &str, key: &[u8], r1: bool, r2: bool| -> CaseResult {
        let len = key.len();
        if r1 == r2 {
            return Ok(());
        }
        // r1 is the verdict of x, r2 of y in the caller's loop; the finding is only "RustCrypto rejects what the integer importers accept"
        let rc_involved = ka == ProviderKind::RustCrypto || kb == ProviderKind::RustCrypto;
        if nist && rc_involved && len > 0 && (len < 24 || len > match s { 2 => 32, 7 => 48, _ => 66 }) {
            return ev.known_or_fail(&format!("{P}|nist_secret_key_wrong_length|accept_reject_differs"), || format!("{who}: {what} with a {len}-byte secret key: {r1} vs {r2}"));
        }
        Err(fail(&format!("providers_accept_reject_differently|{what}"), format!("{who}: secret key {} ({len} bytes): {r1} vs {r2}", hex::encode(&key[..len.min(70)]))))
    };
    let nh = a.kdf_extract_size();
    let sub = pick(case.c(5), 9);
    match sub {
        0 => {
            let d = rng.bytes(edge_len(&rng));
            eq("hash", e(a.hash(&d)), e(b.hash(&d)), format!("len {}", d.len()))?;
            // HMAC keys around the hash's block size (longer keys are hashed first, RFC 2104), and the empty key
            let block = if nh == 32 { 64 } else { 128 };
            let k = rng.bytes([nh, 1, 200, block - 1, block, block + 1, 2 * block, 0][rng.below(8) as usize]);
            eq("mac", e(a.mac(&k, &d)), e(b.mac(&k, &d)), format!("key {} data {}", k.len(), d.len()))?;
            if k.len() >= block {
                ev.class("mac_keys_of_a_block_or_more");
            }
            ev.class("hash_mac");
            if !d.is_empty() {
                ev.nontrivial(&("hm", &d, &k));
            }
        }
        1 => {
            let salt = rng.bytes([0usize, nh, 7][rng.below(3) as usize]);
            let ikm = rng.bytes(edge_len(&rng).max(1));
            let x = a.kdf_extract(&salt, &ikm).map(|v| v.to_vec());
            let y = b.kdf_extract(&salt, &ikm).map(|v| v.to_vec());
            eq("kdf_extract", e(x.clone()), e(y), format!("salt {} ikm {}", salt.len(), ikm.len()))?;
            // the PRK given to Expand is usually the output of Extract (Nh bytes), but any longer key is a valid HMAC key too
            let prk = match rng.below(4) {
                0 => rng.bytes(nh + 1 + rng.below(2 * nh as u64) as usize),
                1 => rng.bytes(nh),
                _ => x.unwrap_or_else(|_| rng.bytes(nh)),
            };
            // (the OpenSSL provider documents a 1024-byte limit for info inherited from old OpenSSL versions; the linked one has none in this range)
            let info = rng.bytes(edge_len(&rng));
            if info.len() > 1024 {
                ev.class("kdf_expand_with_info_longer_than_1024");
            }
            let len = match rng.below(6) {
                0 => 1,
                1 => nh,
                2 => 255 * nh,
                3 => 255 * nh + 1,
                _ => 1 + rng.below(3 * nh as u64) as usize,
            };
            eq("kdf_expand", e(a.kdf_expand(&prk, &info, len).map(|v| v.to_vec())), e(b.kdf_expand(&prk, &info, len).map(|v| v.to_vec())), format!("prk {} info {} len {len}", prk.len(), info.len()))?;
            if prk.len() > nh {
                ev.class("kdf_expand_with_prk_longer_than_nh");
            }
            ev.class("kdf");
            ev.nontrivial(&("kdf", &prk, &info, len));
        }
        2 => {
            // AEAD: identical ciphertexts, cross open, flipped tag, wrong key / nonce lengths
            let key = rng.bytes(a.aead_key_size());
            let nonce = rng.bytes(a.aead_nonce_size());
            let mut pt = rng.bytes(edge_len(&rng));
            let aad = if rng.below(3) == 0 { None } else { Some(rng.bytes(edge_len(&rng).min(300))) };
            if pt.is_empty() {
                empty_pt("aead_seal", a.aead_seal(&key, &pt, aad.as_deref(), &nonce).is_ok(), b.aead_seal(&key, &pt, aad.as_deref(), &nonce).is_ok())?;
                pt = rng.bytes(1);
            }
            let ca = a.aead_seal(&key, &pt, aad.as_deref(), &nonce);
            let cb = b.aead_seal(&key, &pt, aad.as_deref(), &nonce);
            eq("aead_seal", e(ca.clone()), e(cb.clone()), format!("pt {} aad {:?}", pt.len(), aad.as_ref().map(|x| x.len())))?;
            if let (Ok(ca), Ok(cb)) = (ca, cb) {
                let oa = b.aead_open(&key, &ca, aad.as_deref(), &nonce).map(|v| v.to_vec());
                let ob = a.aead_open(&key, &cb, aad.as_deref(), &nonce).map(|v| v.to_vec());
                if oa.as_ref().ok() != Some(&pt) || ob.as_ref().ok() != Some(&pt) {
                    return Err(fail("aead_cross_open", who.clone()));
                }
                let mut bad = ca.clone();
                let i = rng.below(bad.len() as u64) as usize;
                bad[i] ^= 1 << rng.below(8);
                eq("aead_open_modified", e(a.aead_open(&key, &bad, aad.as_deref(), &nonce).map(|v| v.to_vec())), e(b.aead_open(&key, &bad, aad.as_deref(), &nonce).map(|v| v.to_vec())), format!("flipped byte {i}"))?;
                let short = &ca[..ca.len().min(rng.below(17) as usize)];
                eq("aead_open_short", e(a.aead_open(&key, short, aad.as_deref(), &nonce).map(|v| v.to_vec())), e(b.aead_open(&key, short, aad.as_deref(), &nonce).map(|v| v.to_vec())), format!("ciphertext of {} bytes", short.len()))?;
            }
            let wk = rng.bytes([0usize, 1, a.aead_key_size() - 1, a.aead_key_size() + 1][rng.below(4) as usize]);
            eq("aead_seal_wrong_key_len", e(a.aead_seal(&wk, &pt, None, &nonce)), e(b.aead_seal(&wk, &pt, None, &nonce)), format!("key {}", wk.len()))?;
            let wn = rng.bytes([0usize, 1, 11, 13, 16][rng.below(5) as usize]);
            eq("aead_seal_wrong_nonce_len", e(a.aead_seal(&key, &pt, None, &wn)), e(b.aead_seal(&key, &pt, None, &wn)), format!("nonce {}", wn.len()))?;
            ev.class("aead");
            ev.nontrivial(&("aead", &key, &nonce, pt.len()));
        }
        3 => {
            // deterministic key derivation
            let ikm = rng.bytes([1usize, 16, 32, 48, 64, 100][rng.below(6) as usize]);
            let x = a.kem_derive(&ikm);
            let y = b.kem_derive(&ikm);
            match (x, y) {
                (Ok((sa, pa)), Ok((sb, pb))) => {
                    if sa.as_ref() != sb.as_ref() || pa.as_ref() != pb.as_ref() {
                        return Err(fail("providers_differ|kem_derive", format!("{who}: ikm {}", hex::encode(&ikm))));
                    }
                }
                (Err(_), Err(_)) => {}
                (x, y) => return Err(fail("providers_accept_reject_differently|kem_derive", format!("{who}: {} {}", x.is_ok(), y.is_ok()))),
            }
            let (ssk, spk) = a.signature_key_generate().map_err(|e| fail("keygen", e.0))?;
            let dp = b.signature_key_derive_public(&ssk).map_err(|e| fail("providers_differ|signature_key_derive_public", format!("{who}: {}", e.0)))?;
            if dp != spk {
                return Err(fail("providers_differ|signature_key_derive_public", who.clone()));
            }
            let (ssk2, spk2) = b.signature_key_generate().map_err(|e| fail("keygen", e.0))?;
            let dp2 = a.signature_key_derive_public(&ssk2).map_err(|e| fail("providers_differ|signature_key_derive_public", format!("{who}: {}", e.0)))?;
            if dp2 != spk2 {
                return Err(fail("providers_differ|signature_key_derive_public", who.clone()));
            }
            ev.class("key_derivation");
            ev.nontrivial(&("kd", &ikm));
        }
        4 => {
            // signatures both ways, and malformed inputs
            let msg = rng.bytes(edge_len(&rng));
            for (x, y, xn) in [(&a, &b, ka.name()), (&b, &a, kb.name())] {
                let (sk, pk) = x.signature_key_generate().map_err(|e| fail("keygen", e.0))?;
                let sig = x.sign(&sk, &msg).map_err(|e| fail("sign", e.0))?;
                if y.verify(&pk, &sig, &msg).is_err() {
                    return Err(fail("signature_does_not_interoperate", format!("{who}: made by {xn}")));
                }
                let mut bad = sig.clone();
                let i = rng.below(bad.len() as u64) as usize;
                bad[i] ^= 1 << rng.below(8);
                let (r1, r2) = (x.verify(&pk, &bad, &msg).is_ok(), y.verify(&pk, &bad, &msg).is_ok());
                if r1 != r2 {
                    return Err(fail("providers_accept_reject_differently|verify_modified_signature", format!("{who}: flipped byte {i}: {r1} vs {r2}")));
                }
                if r1 {
                    return Err(fail("modified_signature_verifies", who.clone()));
                }
                // structurally modified signatures: truncated, extended, emptied
                for v in 0..3 {
                    let mut ms = sig.clone();
                    match v {
                        0 => {
                            ms.pop();
                        }
                        1 => ms.push(rng.below(256) as u8),
                        _ => ms.clear(),
                    }
                    let (r1, r2) = (x.verify(&pk, &ms, &msg).is_ok(), y.verify(&pk, &ms, &msg).is_ok());
                    if r1 != r2 {
                        return Err(fail("providers_accept_reject_differently|verify_resized_signature", format!("{who}: variant {v} of a signature made by {xn}: {r1} vs {r2}")));
                    }
                    if r1 {
                        return Err(fail("resized_signature_verifies", format!("{who}: variant {v}")));
                    }
                }
                let mut bpk = pk.as_bytes().to_vec();
                match rng.below(6) {
                    0 => bpk.truncate(bpk.len() - 1),
                    1 => bpk.push(0),
                    2 => {
                        let j = rng.below(bpk.len() as u64) as usize;
                        bpk[j] ^= 0x40;
                    }
                    3 => bpk = vec![0u8; bpk.len()],
                    4 if nist => {
                        // SEC1 compressed encoding of the same x coordinate
                        let n = (bpk.len() - 1) / 2;
                        let parity = bpk[bpk.len() - 1] & 1;
                        bpk.truncate(1 + n);
                        bpk[0] = 2 + (parity ^ (rng.below(2) as u8));
                    }
                    4 => bpk[31] |= 0x80,
                    _ => bpk = vec![],
                }
                let bpk = SignaturePublicKey::new(bpk);
                let (r1, r2) = (x.verify(&bpk, &sig, &msg).is_ok(), y.verify(&bpk, &sig, &msg).is_ok());
                if r1 != r2 {
                    return Err(fail("providers_accept_reject_differently|verify_malformed_key", format!("{who}: key {}: {r1} vs {r2}", hex::encode(bpk.as_bytes()))));
                }
                let bsk = match rng.below(7) {
                    5 => {
                        // right length, second half (the public half of an Ed25519 key pair) disturbed
                        let mut k = sk.as_bytes().to_vec();
                        let j = k.len() - 1 - rng.below((k.len() / 2) as u64) as usize;
                        k[j] ^= 0x10;
                        SignatureSecretKey::new(k)
                    }
                    6 => SignatureSecretKey::new(vec![0u8; sk.as_bytes().len()]),
                    i => SignatureSecretKey::new(rng.bytes([0usize, 1, 31, 33, 200][i as usize])),
                };
                let (r1, r2) = (x.sign(&bsk, &msg).is_ok(), y.sign(&bsk, &msg).is_ok());
                short_secret("sign_malformed_key", bsk.as_bytes(), r1, r2)?;
                let (d1, d2) = (x.signature_key_derive_public(&bsk), y.signature_key_derive_public(&bsk));
                short_secret("derive_public_malformed_key", bsk.as_bytes(), d1.is_ok(), d2.is_ok())?;
                if let (Ok(p1), Ok(p2)) = (d1, d2) {
                    if p1 != p2 {
                        return Err(fail("providers_differ|signature_key_derive_public", format!("{who}: secret key {}", hex::encode(bsk.as_bytes()))));
                    }
                }
            }
            ev.class("signatures");
            ev.nontrivial(&("sig", &msg));
        }
        5 | 6 => {
            // HPKE one-shot, base and PSK mode, both directions; malformed public keys
            let info = rng.bytes(edge_len(&rng).min(200));
            let aad = if rng.below(2) == 0 { None } else { Some(rng.bytes(edge_len(&rng).min(200))) };
            let mut pt = rng.bytes(edge_len(&rng).min(1000));
            let psk_id = rng.bytes(1 + rng.below(40) as usize);
            let psk_val = rng.bytes(32 + rng.below(40) as usize);
            if pt.is_empty() {
                let (_, pk) = a.kem_generate().map_err(|e| fail("keygen", e.0))?;
                empty_pt("hpke_seal", a.hpke_seal(&pk, &info, aad.as_deref(), &pt).is_ok(), b.hpke_seal(&pk, &info, aad.as_deref(), &pt).is_ok())?;
                let psk = HpkePsk::new(&psk_id, &psk_val);
                empty_pt("hpke_seal_psk", a.hpke_seal_psk(&pk, &info, aad.as_deref(), &pt, psk.clone()).is_ok(), b.hpke_seal_psk(&pk, &info, aad.as_deref(), &pt, psk).is_ok())?;
                pt = rng.bytes(1);
            }
            for (x, y, xn) in [(&a, &b, ka.name()), (&b, &a, kb.name())] {
                let (sk, pk) = y.kem_generate().map_err(|e| fail("keygen", e.0))?;
                let ct = x.hpke_seal(&pk, &info, aad.as_deref(), &pt).map_err(|e| fail("hpke_seal", e.0))?;
                let o = y.hpke_open(&ct, &sk, &pk, &info, aad.as_deref()).map(|v| v.to_vec());
                if o.ok().as_ref() != Some(&pt) {
                    return Err(fail("hpke_does_not_interoperate", format!("{who}: sealed by {xn}, info {} aad {:?} pt {}", info.len(), aad.as_ref().map(|v| v.len()), pt.len())));
                }
                let psk = HpkePsk::new(&psk_id, &psk_val);
                let ct = x.hpke_seal_psk(&pk, &info, aad.as_deref(), &pt, psk.clone()).map_err(|e| fail("hpke_seal_psk", e.0))?;
                let o = y.hpke_open_psk(&ct, &sk, &pk, &info, aad.as_deref(), psk).map(|v| v.to_vec());
                if o.ok().as_ref() != Some(&pt) {
                    return Err(fail("hpke_psk_does_not_interoperate", format!("{who}: sealed by {xn}")));
                }
                // wrong psk must fail on both
                let wrong = HpkePsk::new(&psk_id, &psk_id);
                let _ = wrong;
                // malformed recipient keys
                let mut bpk = pk.as_ref().to_vec();
                match rng.below(7) {
                    0 => bpk.truncate(bpk.len() - 1),
                    1 => bpk.push(7),
                    2 => bpk = vec![0u8; bpk.len()],
                    3 => {
                        let j = 1 + rng.below(bpk.len() as u64 - 1) as usize;
                        bpk[j] ^= 0x01;
                    }
                    4 if nist => {
                        let n = (bpk.len() - 1) / 2;
                        let parity = bpk[bpk.len() - 1] & 1;
                        bpk.truncate(1 + n);
                        bpk[0] = 2 + (parity ^ (rng.below(2) as u8));
                    }
                    4 | 5 if bpk.len() == 32 => {
                        // the small-order points of Curve25519 (RFC 7748 section 6.1 / libsodium's list)
                        const LOW: [&str; 7] = [
                            "0000000000000000000000000000000000000000000000000000000000000000",
                            "0100000000000000000000000000000000000000000000000000000000000000",
                            "e0eb7a7c3b41b8ae1656e3faf19fc46ada098deb9c32b1fd866205165f49b800",
                            "5f9c95bca3508c24b1d0b1559c83ef5b04445cc4581c8e86d8224eddd09f1157",
                            "ecffffffffffffffffffffffffffffffffffffffffffffffffffffffffffff7f",
                            "edffffffffffffffffffffffffffffffffffffffffffffffffffffffffffff7f",
                            "eeffffffffffffffffffffffffffffffffffffffffffffffffffffffffffff7f",
                        ];
                        bpk = hex::decode(LOW[rng.below(7) as usize]).unwrap();
                        ev.class("x25519_small_order_point");
                    }
                    5 => bpk[0] = 0x05,
                    _ => bpk = vec![],
                }
                let bpk = HpkePublicKey::from(bpk);
                let (r1, r2) = (x.hpke_seal(&bpk, &info, None, &pt).is_ok(), y.hpke_seal(&bpk, &info, None, &pt).is_ok());
                if r1 != r2 {
                    return Err(fail("providers_accept_reject_differently|hpke_seal_malformed_key", format!("{who}: recipient key {}: {xn} accepts {r1}, other {r2}", hex::encode(bpk.as_ref()))));
                }
                let (v1, v2) = (x.kem_public_key_validate(&bpk).is_ok(), y.kem_public_key_validate(&bpk).is_ok());
                if v1 != v2 {
                    return Err(fail("providers_accept_reject_differently|kem_public_key_validate", format!("{who}: key {}: {xn} accepts {v1}, other {v2}", hex::encode(bpk.as_ref()))));
                }
                let bsk = HpkeSecretKey::from(rng.bytes([0usize, 1, 31, 33][rng.below(4) as usize]));
                let (r1, r2) = (x.hpke_open(&ct, &bsk, &pk, &info, None).is_ok(), y.hpke_open(&ct, &bsk, &pk, &info, None).is_ok());
                short_secret("hpke_open_malformed_secret_key", bsk.as_ref(), r1, r2)?;
            }
            ev.class("hpke_one_shot");
            if !info.is_empty() || aad.is_some() {
                ev.nontrivial(&("hpke", &info, &aad, pt.len()));
            }
        }
        _ => {
            // HPKE contexts: setup_s on one, setup_r on the other; export and multi-message seal/open
            let info = rng.bytes(edge_len(&rng).min(100));
            for (x, y, xn) in [(&a, &b, ka.name()), (&b, &a, kb.name())] {
                let (sk, pk) = y.kem_generate().map_err(|e| fail("keygen", e.0))?;
                let (enc, mut cs) = x.hpke_setup_s(&pk, &info).map_err(|e| fail("hpke_setup_s", e.0))?;
                let mut cr = y.hpke_setup_r(&enc, &sk, &pk, &info).map_err(|e| fail("hpke_setup_does_not_interoperate", format!("{who}: set up by {xn}: {}", e.0)))?;
                let ec = rng.bytes(rng.below(40) as usize);
                let len = 1 + rng.below(100) as usize;
                let (e1, e2) = (cs.export(&ec, len).map(|v| v.to_vec()), cr.export(&ec, len).map(|v| v.to_vec()));
                match (e1, e2) {
                    (Ok(p), Ok(q)) if p == q => {}
                    _ => return Err(fail("hpke_export_differs", format!("{who}: context {} len {len}", ec.len()))),
                }
                for i in 0..3 {
                    let mut pt = rng.bytes(edge_len(&rng).min(300));
                    let aad = if i % 2 == 0 { None } else { Some(rng.bytes(9)) };
                    if pt.is_empty() {
                        // probe on throw-away contexts so the sequence numbers of cs / cr stay aligned
                        let (_, mut ta) = a.hpke_setup_s(&pk, &info).map_err(|e| fail("hpke_setup_s", e.0))?;
                        let (_, mut tb) = b.hpke_setup_s(&pk, &info).map_err(|e| fail("hpke_setup_s", e.0))?;
                        empty_pt("hpke_context_seal", ta.seal(aad.as_deref(), &pt).is_ok(), tb.seal(aad.as_deref(), &pt).is_ok())?;
                        pt = rng.bytes(1);
                    }
                    let ct = cs.seal(aad.as_deref(), &pt).map_err(|e| fail("ctx_seal", e.0))?;
                    let o = cr.open(aad.as_deref(), &ct).map(|v| v.to_vec());
                    if o.ok().as_ref() != Some(&pt) {
                        return Err(fail("hpke_context_does_not_interoperate", format!("{who}: message {i} sealed by {xn}")));
                    }
                }
            }
            ev.class("hpke_contexts");
            ev.nontrivial(&("ctx", &info));
        }
    }
    ev.sample(&format!("prim{sub}"), || json!({"kind": "primitive differential", "suite": s, "providers": [ka.name(), kb.name()], "sub": sub}));
    Ok(())
}

// ---------------------------------------------------------------------------------------------
// X.509

mod x509gen {
    use openssl::asn1::Asn1Time;
    use openssl::bn::BigNum;
    use openssl::ec::{EcGroup, EcKey};
    use openssl::hash::MessageDigest;
    use openssl::nid::Nid;
    use openssl::pkey::{PKey, Private};
    use openssl::x509::extension::{BasicConstraints, KeyUsage};
    use openssl::x509::{X509Builder, X509NameBuilder, X509};

    pub struct Node {
        pub cert: X509,
        pub key: PKey<Private>,
    }

    pub fn key() -> PKey<Private> {
        let g = EcGroup::from_curve_name(Nid::X9_62_PRIME256V1).unwrap();
        PKey::from_ec_key(EcKey::generate(&g).unwrap()).unwrap()
    }

    pub fn make(name: &str, serial: u32, ca: bool, nb: i64, na: i64, issuer: Option<&Node>, sign_with: Option<&PKey<Private>>) -> Node {
        make_with(name, serial, ca, true, nb, na, issuer, sign_with)
    }

    /// `extensions = false`: a v3 certificate without BasicConstraints / KeyUsage at all (never a CA)
    #[allow(clippy::too_many_arguments)]
    pub fn make_with(name: &str, serial: u32, ca: bool, extensions: bool, nb: i64, na: i64, issuer: Option<&Node>, sign_with: Option<&PKey<Private>>) -> Node {
        let k = key();
        let mut nbld = X509NameBuilder::new().unwrap();
        nbld.append_entry_by_text("CN", name).unwrap();
        let subject = nbld.build();
        let mut b = X509Builder::new().unwrap();
        b.set_version(2).unwrap();
        b.set_serial_number(&BigNum::from_u32(serial).unwrap().to_asn1_integer().unwrap()).unwrap();
        b.set_subject_name(&subject).unwrap();
        match issuer {
            Some(i) => b.set_issuer_name(i.cert.subject_name()).unwrap(),
            None => b.set_issuer_name(&subject).unwrap(),
        }
        b.set_pubkey(&k).unwrap();
        b.set_not_before(&Asn1Time::from_unix(nb).unwrap()).unwrap();
        b.set_not_after(&Asn1Time::from_unix(na).unwrap()).unwrap();
        if extensions {
            let mut bc = BasicConstraints::new();
            bc.critical();
            if ca {
                bc.ca();
            }
            b.append_extension(bc.build().unwrap()).unwrap();
            if ca {
                b.append_extension(KeyUsage::new().critical().key_cert_sign().crl_sign().build().unwrap()).unwrap();
            } else {
                b.append_extension(KeyUsage::new().critical().digital_signature().build().unwrap()).unwrap();
            }
        }
        let signer = sign_with.unwrap_or_else(|| issuer.map(|i| &i.key).unwrap_or(&k));
        b.sign(signer, MessageDigest::sha256()).unwrap();
        Node { cert: b.build(), key: k }
    }
}

#[derive(Clone, Copy, Debug, PartialEq, Eq)]
enum ChainClass {
    Valid,
    Expired,
    NotYetValid,
    WrongIssuerSignature,
    MissingIntermediate,
    ReorderedIntermediates,
    NonCaIssuer,
    UnknownRoot,
    ExtraUnrelatedCertificate,
}

fn x509_case(seed: u64, ev: &Evidence) -> CaseResult {
    use x509gen::*;
    let mut rng = SplitMix::new(seed, 1414);
    ev.eval(1);
    let nb: i64 = 1_700_000_000;
    let na: i64 = 1_800_000_000;
    let classes = [
        ChainClass::Valid,
        ChainClass::Valid,
        ChainClass::Expired,
        ChainClass::NotYetValid,
        ChainClass::WrongIssuerSignature,
        ChainClass::MissingIntermediate,
        ChainClass::ReorderedIntermediates,
        ChainClass::NonCaIssuer,
        ChainClass::UnknownRoot,
        ChainClass::ExtraUnrelatedCertificate,
    ];
    let class = classes[rng.below(classes.len() as u64) as usize];
    let n_inter = match class {
        ChainClass::MissingIntermediate | ChainClass::NonCaIssuer => 1 + rng.below(2) as usize,
        ChainClass::ReorderedIntermediates => 2,
        _ => rng.below(3) as usize,
    };
    let bare_non_ca = rng.below(2) == 0;
    if class == ChainClass::NonCaIssuer {
        ev.class(if bare_non_ca { "x509:non_ca_issuer_without_basic_constraints" } else { "x509:non_ca_issuer_with_ca_false" });
    }
    let root = make("root", 1, true, nb, na, None, None);
    let other_root = make("other root", 2, true, nb, na, None, None);
    let mut inters: Vec<Node> = vec![];
    for i in 0..n_inter {
        let parent = inters.last().unwrap_or(&root);
        let ca = !(class == ChainClass::NonCaIssuer && i == n_inter - 1);
        // the non-CA issuer either says CA:FALSE or carries no BasicConstraints at all
        let bare = !ca && bare_non_ca;
        let n = make_with(&format!("intermediate {i}"), 10 + i as u32, ca, !bare, nb, na, Some(parent), None);
        inters.push(n);
    }
    let (lnb, lna) = match class {
        ChainClass::Expired => (nb, nb + 1000),
        ChainClass::NotYetValid => (na - 1000, na),
        _ => (nb, na),
    };
    let stranger = key();
    let parent = inters.last().unwrap_or(&root);
    let leaf = make("leaf", 100, false, lnb, lna, Some(parent), if class == ChainClass::WrongIssuerSignature { Some(&stranger) } else { None });
    // presented chain: leaf first, then intermediates towards the root
    let mut chain: Vec<Vec<u8>> = vec![leaf.cert.to_der().unwrap()];
    let mut mids: Vec<Vec<u8>> = inters.iter().rev().map(|n| n.cert.to_der().unwrap()).collect();
    match class {
        ChainClass::MissingIntermediate => {
            mids.remove(rng.below(mids.len() as u64) as usize);
        }
        ChainClass::ReorderedIntermediates => mids.reverse(),
        ChainClass::ExtraUnrelatedCertificate => {
            let extra = make("unrelated", 77, true, nb, na, Some(&other_root), None);
            let at = rng.below(mids.len() as u64 + 1) as usize;
            mids.insert(at, extra.cert.to_der().unwrap());
        }
        _ => {}
    }
    chain.extend(mids);
    let trust = if class == ChainClass::UnknownRoot { other_root.cert.to_der().unwrap() } else { root.cert.to_der().unwrap() };
    let mid = (nb + na) / 2;
    let times: Vec<Option<u64>> = match class {
        ChainClass::Expired => vec![Some((lna + 1) as u64), Some((lna + 500) as u64), Some(mid as u64)],
        ChainClass::NotYetValid => vec![Some((lnb - 1) as u64), Some(mid as u64)],
        // the boundary instants are the subject of the Valid class; keep this class about path building only
        ChainClass::ExtraUnrelatedCertificate => vec![Some((nb - 1) as u64), Some(mid as u64), Some((na + 1) as u64), None],
        _ => vec![Some((nb - 1) as u64), Some(nb as u64), Some(mid as u64), Some(na as u64), Some((na + 1) as u64), None],
    };
    let chain_v = CertificateChain::from(chain.clone());
    let trust_v = vec![DerCertificate::new(trust.clone())];
    let vo = mls_rs_crypto_openssl::x509::X509Validator::new(trust_v.clone()).map_err(|e| fail("x509_setup_openssl", format!("{e:?}")))?;
    let va = mls_rs_crypto_awslc::x509::CertificateValidator::new_der(&trust_v).map_err(|e| fail("x509_setup_awslc", format!("{e:?}")))?;
    let vr = mls_rs_crypto_rustcrypto::x509::X509Validator::new(trust_v.clone()).map_err(|e| fail("x509_setup_rustcrypto", format!("{e:?}")))?;
    for t in times {
        let ts = t.map(MlsTime::from);
        let ro = catch(|| vo.validate_chain(&chain_v, ts).map(|k| k.as_bytes().to_vec()).map_err(|e| format!("{e:?}")));
        let ra = catch(|| va.validate_chain(&chain_v, ts).map(|k| k.as_bytes().to_vec()).map_err(|e| format!("{e:?}")));
        let rr = catch(|| vr.validate_chain(&chain_v, ts).map(|k| k.as_bytes().to_vec()).map_err(|e| format!("{e:?}")));
        let (ro, ra, rr) = match (ro, ra, rr) {
            (Ok(a), Ok(b), Ok(c)) => (a, b, c),
            (a, b, c) => {
                let p = [a.err(), b.err(), c.err()].into_iter().flatten().next().unwrap_or_default();
                return Err(Failure::new(format!("{P}|panic|x509_validate_chain|{}", panic_signature(&p)), format!("{class:?} at {t:?}: {p}")));
            }
        };
        // ground truth by construction
        let in_window = |lo: i64, hi: i64| t.map(|x| (x as i64) >= lo && (x as i64) <= hi).unwrap_or(true);
        let truth = match class {
            ChainClass::Valid => in_window(nb, na),
            ChainClass::Expired | ChainClass::NotYetValid => in_window(lnb.max(nb), lna.min(na)),
            _ => false,
        };
        let boundary = t.map(|x| [nb - 1, nb, na, na + 1, lna, lna + 1, lnb - 1, lnb].contains(&(x as i64))).unwrap_or(false);
        let at = match t {
            None => "no_time".to_string(),
            Some(x) if x as i64 == na => "t_eq_not_after".into(),
            Some(x) if x as i64 == nb => "t_eq_not_before".into(),
            Some(_) => "t_other".into(),
        };
        ev.class(&format!("x509:{class:?}:{at}"));
        if boundary || class != ChainClass::Valid {
            ev.nontrivial(&(seed, format!("{class:?}"), t));
        }
        let verdicts = [("openssl", ro.is_ok()), ("awslc", ra.is_ok()), ("rustcrypto", rr.is_ok())];
        if class == ChainClass::ExtraUnrelatedCertificate {
            // Not one of the classes the property lists and RFC 9420 leaves the verdict to the application's
            // path validation, so there is no ground truth here: only "the same verdict" is demanded.
            if verdicts.iter().any(|(_, v)| *v != verdicts[0].1) {
                let sig = format!("{P}|x509_verdicts_differ|{class:?}|openssl={}|awslc={}|rustcrypto={}", verdicts[0].1, verdicts[1].1, verdicts[2].1);
                ev.known_or_fail(&sig, || {
                    format!("validators disagree on a chain with an unrelated extra certificate among {n_inter} intermediates ({} presented) at time {t:?}: {verdicts:?}", chain.len())
                })?;
            }
            continue;
        }
        for (name, v) in verdicts {
            if v != truth {
                let sig = if class == ChainClass::Valid { format!("{P}|x509_wrong_verdict|{name}|{class:?}|{at}|accepts={v}") } else { format!("{P}|x509_wrong_verdict|{name}|{class:?}|accepts={v}") };
                ev.known_or_fail(&sig, || {
                    format!(
                        "{name} validator {} a chain of class {class:?} ({} certificates presented, {} intermediates) at time {t:?} (window {nb}..{na}, leaf {lnb}..{lna}); by construction it should be {}; verdicts {verdicts:?}",
                        if v { "accepts" } else { "rejects" },
                        chain.len(),
                        n_inter,
                        if truth { "accepted" } else { "rejected" }
                    )
                })?;
            }
        }
        // accepted chains must yield the leaf's public key, identically
        let keys: Vec<&Vec<u8>> = [ro.as_ref().ok(), ra.as_ref().ok(), rr.as_ref().ok()].into_iter().flatten().collect();
        if keys.windows(2).any(|w| w[0] != w[1]) {
            return Err(fail("x509_validators_return_different_keys", format!("{class:?}")));
        }
    }
    ev.sample(&format!("x509{class:?}"), || json!({"kind": "x509 chain", "class": format!("{class:?}"), "intermediates": n_inter, "presented": chain.len()}));
    Ok(())
}

pub fn run(ctx: &Ctx) -> ! {
    let ev = Evidence::new(P, ctx.tier, ctx.seed, "exploration");
    ev.set_rule(
        "(1) primitives: for every provider pair and common cipher suite, generated inputs with lengths 0, 1, block/hash boundaries +-1 and up to 4 KiB: hash, MAC, KDF extract/expand (incl. 255*Nh and 255*Nh+1, PRKs longer than Nh), \
         AEAD seal (byte equality), MAC keys of 0, 1, Nh, block-1, block, block+1, 2*block bytes; deterministic KEM derivation and signature public-key derivation (byte equality); sign/verify, HPKE one-shot in base and PSK mode, HPKE contexts with export (cross-operation both ways); \
         identical accept/reject on modified tags and signatures, truncated ciphertexts, wrong key / nonce lengths, malformed public and secret keys (wrong length, flipped bits, all-zero). \
         (2) X.509: chains of 1-4 P-256 certificates generated with OpenSSL in the classes valid, expired, not yet valid, wrong issuer signature, missing intermediate, reordered intermediates, non-CA issuer (CA:FALSE, or no BasicConstraints at all), unknown root, \
         extra unrelated certificate, validated by all three shipped validators at not_before-1, not_before, mid, not_after, not_after+1 and without time: every verdict must equal the ground truth of the class (for the extra-unrelated-certificate class, which the property does not list, only equality of the three verdicts is demanded). \
         (3) mixed-provider groups: C01-style histories with members on different providers (agreement + cross-decryption oracle). Non-trivial = primitive case with non-empty info/aad or a negative input, X.509 case at a \
         validity boundary or of a defect class, mixed-provider history with >= 2 commits.",
    );
    ev.assume("X.509 ground truth is by construction of the chain (generated with the openssl crate); RFC 5280 validity is inclusive at both ends");

    if let Some(path) = &ctx.replay {
        let v: serde_json::Value = serde_json::from_str(&std::fs::read_to_string(path).unwrap_or_default()).unwrap_or_default();
        let r = match Case::from_json(&v["case"]) {
            Some(c) => match catch(|| primitives_case(&c, &ev)) {
                Ok(r) => r,
                Err(p) => Err(Failure::new(format!("{P}|panic|primitive|{}", panic_signature(&p)), p)),
            },
            None => x509_case(v["case"]["x509_seed"].as_u64().unwrap_or(0), &ev),
        };
        return match r {
            Ok(()) => finish_ok(&ev),
            Err(f) => finish_violation(&ev, Violation { failure: f, case: None }, v["case"].clone()),
        };
    }

    // X.509
    let n_x509 = ctx.tier.pick(320u64, 6000);
    let results: Vec<Option<(u64, Failure)>> = std::thread::scope(|sc| {
        let hs: Vec<_> = (0..16u64)
            .map(|t| {
                let ev = &ev;
                sc.spawn(move || {
                    for i in 0..n_x509 / 16 {
                        let seed = ctx.seed.wrapping_mul(77).wrapping_add(t * 1_000_003 + i);
                        match catch(|| x509_case(seed, ev)) {
                            Ok(Ok(())) => {}
                            Ok(Err(f)) => return Some((seed, f)),
                            Err(p) => return Some((seed, Failure::new(format!("{P}|harness_panic"), p))),
                        }
                    }
                    None
                })
            })
            .collect();
        hs.into_iter().map(|h| h.join().unwrap()).collect()
    });
    if let Some((seed, f)) = results.into_iter().flatten().next() {
        if f.signature.ends_with("harness_panic") {
            inconclusive(&ev, &f.detail);
        }
        finish_violation(&ev, Violation { failure: f, case: None }, json!({"x509_seed": seed}));
    }

    // mixed-provider groups
    {
        let mut hp = HistoryParams::standard(ctx.tier);
        hp.max_initial = 6;
        let spec = RunSpec { shards: 16, cases_per_shard: ctx.tier.pick(5, 80), cfg_len: CFG_LEN, min_ops: 4, max_ops: 20, max_shrink_iters: 100 };
        let run_hist = |case: &Case| -> CaseResult {
            let mut c = case.clone();
            // force one of the mixed provider sets (indices 3..6 of the provider table)
            c.cfg[1] = 40000 + (case.c(1) % 25000);
            c.cfg[0] %= 30000; // suites supported by all three providers
            ev.eval(1);
            let mut obs = NoObserver;
            let mut h = History::start(P, &c, &hp)?;
            h.grow_initial(&c, &mut obs)?;
            h.run_ops(&c, &mut obs)?;
            ev.class("mixed_provider_histories");
            ev.class_n("mixed_provider_commits", h.stats.commits);
            if h.stats.commits >= 2 {
                ev.nontrivial(&c);
            }
            Ok(())
        };
        if let Err(v) = run_sharded(&ev, &spec, 1401, &run_hist) {
            let payload = v.case.as_ref().map(|c| c.to_json()).unwrap_or_default();
            finish_violation(&ev, v, payload);
        }
    }

    let spec = RunSpec { shards: 16, cases_per_shard: ctx.tier.pick(2000, 40_000), cfg_len: 6, min_ops: 0, max_ops: 2, max_shrink_iters: 300 };
    // a provider that panics on an input neither accepts nor rejects it: that is a violation, not a harness fault
    let prim = |c: &Case| -> CaseResult {
        match catch(|| primitives_case(c, &ev)) {
            Ok(r) => r,
            Err(p) => Err(Failure::new(format!("{P}|panic|primitive|{}", panic_signature(&p)), p)),
        }
    };
    match run_sharded(&ev, &spec, 14, &prim) {
        Ok(()) => finish_ok(&ev),
        Err(v) => {
            let payload = v.case.as_ref().map(|c| c.to_json()).unwrap_or_default();
            finish_violation(&ev, v, payload)
        }
    }
}
