//! C20 — tree index arithmetic equals the RFC 9420 array-tree definitions for every size.
use crate::engine::*;
use crate::refmodel::treemath::{RefDescent, RefTree};
use crate::Ctx;
use mls_rs::verif_hooks::{leaf_lca_level, subtree_range, BfsIterTopDown, LeafIndex, TreeIndex};
use serde_json::json;

const P: &str = "C20";

fn fail(what: &str, n: u32, x: u64, detail: String) -> Violation {
    Violation {
        failure: Failure::new(format!("{P}|{what}"), format!("n_leaves={n} x={x}: {detail}")),
        case: None,
    }
}

/// All checks for one node `x` of the tree with `n` leaves against reference values.
#[allow(clippy::too_many_arguments)]
fn check_node(
    n: u32,
    x: u32,
    level: u32,
    parent: Option<u32>,
    sibling: Option<u32>,
    left: Option<u32>,
    right: Option<u32>,
    range: (u32, u32),
) -> Result<(), Violation> {
    let root = n.root();
    if x.is_leaf() != (level == 0) {
        return Err(fail("is_leaf", n, x as u64, format!("got {}", x.is_leaf())));
    }
    if !x.is_in_tree(&root) {
        return Err(fail("is_in_tree", n, x as u64, "node of the tree reported outside".into()));
    }
    let (gl, gr) = (x.left(), x.right());
    if gl != left || gr != right {
        return Err(fail("children", n, x as u64, format!("got {gl:?}/{gr:?} want {left:?}/{right:?}")));
    }
    let ps = x.parent_sibling(&n).map(|p| (p.parent, p.sibling));
    let want = parent.map(|p| (p, sibling.unwrap()));
    if ps != want {
        return Err(fail("parent_sibling", n, x as u64, format!("got {ps:?} want {want:?}")));
    }
    let sr = subtree_range(x);
    if sr != range {
        return Err(fail("subtree", n, x as u64, format!("got {sr:?} want {range:?}")));
    }
    Ok(())
}

fn exhaustive_size(ev: &Evidence, k: u32) -> Result<(), Violation> {
    let n = 1u32 << k;
    let t = RefTree::new(n);
    let got_root = n.root();
    if got_root != t.root {
        return Err(fail("root", n, 0, format!("got {got_root} want {}", t.root)));
    }
    for x in 0..t.width() {
        let i = x as usize;
        check_node(n, x, t.level[i], t.parent[i], t.sibling[i], t.left[i], t.right[i], t.range[i])?;
        let cp: Vec<(u32, u32)> = x
            .direct_copath(&n)
            .into_iter()
            .map(|c| (c.path, c.copath))
            .collect();
        let want = t.direct_copath(x);
        if cp != want {
            return Err(fail("direct_copath", n, x as u64, format!("got {cp:?} want {want:?}")));
        }
        ev.eval(1);
        if t.level[i] > 0 || n >= 4 {
            ev.nontrivial(&(n, x));
        }
    }
    // just outside the tree and far outside
    let w = t.width() as u64;
    for x in [w, w + 1, w + 2, w + 3, 1u64 << 25, (u32::MAX - 1) as u64] {
        if x > u32::MAX as u64 || x < w {
            continue;
        }
        let x32 = x as u32;
        if x32.is_in_tree(&got_root) {
            return Err(fail("is_in_tree_outside", n, x, "index outside the tree reported inside".into()));
        }
        let cp = x32.direct_copath(&n);
        if !cp.is_empty() {
            return Err(fail("direct_copath_outside", n, x, format!("non-empty copath {cp:?}")));
        }
        ev.eval(1);
        ev.nontrivial(&(n, x, "outside"));
    }
    // BFS order
    let bfs: Vec<u32> = BfsIterTopDown::new(n as usize).map(|v| v as u32).collect();
    let want = t.bfs();
    if bfs != want {
        return Err(fail("bfs", n, 0, format!("got {:?}.. want {:?}..", &bfs[..bfs.len().min(8)], &want[..want.len().min(8)])));
    }
    ev.eval(1);
    Ok(())
}

fn lca_pairs(ev: &Evidence, k: u32, pairs: Option<(u64, &mut SplitMix)>) -> Result<(), Violation> {
    let n = 1u32 << k;
    let t = RefTree::new(n);
    let check = |a: u32, b: u32| -> Result<(), Violation> {
        let want = if a == b { 0 } else { t.level[t.lca(a, b) as usize] };
        let got = leaf_lca_level(a, b);
        if got != want {
            return Err(fail("leaf_lca_level", n, a as u64, format!("leaves ({a},{b}) got {got} want {want}")));
        }
        // as called by the library: with node indices of the leaves
        let got2 = leaf_lca_level(2 * a, 2 * b);
        let want2 = if a == b { 0 } else { want + 1 };
        if got2 != want2 {
            return Err(fail("leaf_lca_level_nodes", n, a as u64, format!("nodes ({},{}) got {got2} want {want2}", 2 * a, 2 * b)));
        }
        Ok(())
    };
    match pairs {
        None => {
            for a in 0..n {
                for b in 0..n {
                    check(a, b)?;
                }
            }
            ev.eval((n as u64) * (n as u64));
            // distinct non-trivial pairs: a != b
            for a in 0..n.min(64) {
                for b in 0..n.min(64) {
                    if a != b {
                        ev.nontrivial(&(k, a, b, "lca"));
                    }
                }
            }
        }
        Some((count, rng)) => {
            for _ in 0..count {
                let a = rng.below(n as u64) as u32;
                let b = rng.below(n as u64) as u32;
                check(a, b)?;
            }
            ev.eval(count);
        }
    }
    Ok(())
}

/// Level of the lowest common ancestor of leaves a and b in the full tree over 2^k leaves, by descending the recursive
/// definition (halve the leaf range until the two leaves part): no table, so it reaches the 2^24-leaf limit.
fn lca_level_by_descent(k: u32, a: u32, b: u32) -> u32 {
    if a == b {
        return 0;
    }
    let (mut lo, mut hi, mut level) = (0u64, 1u64 << k, k);
    loop {
        let mid = (lo + hi) / 2;
        let (la, lb) = ((a as u64) < mid, (b as u64) < mid);
        if la != lb {
            return level;
        }
        if la {
            hi = mid;
        } else {
            lo = mid;
        }
        level -= 1;
    }
}

/// leaf_lca_level on the large trees, up to the leaf limit, both with leaf indices and (as the library calls it) node indices.
fn lca_pairs_large(ev: &Evidence, k: u32, count: u64, rng: &mut SplitMix) -> Result<(), Violation> {
    let n = 1u64 << k;
    for i in 0..count {
        // half of the pairs straddle a generated split point (so that every level, the top one included, is hit often)
        let (a, b) = if i % 2 == 0 {
            (rng.below(n) as u32, rng.below(n) as u32)
        } else {
            let lvl = 1 + rng.below(k as u64) as u32; // level of the intended common ancestor
            let base = (rng.below(n >> lvl) << lvl) as u32;
            let half = 1u32 << (lvl - 1);
            (base + rng.below(half as u64) as u32, base + half + rng.below(half as u64) as u32)
        };
        let want = lca_level_by_descent(k, a, b);
        for (x, y) in [(a, b), (b, a)] {
            let got = leaf_lca_level(x, y);
            if got != want {
                return Err(fail("leaf_lca_level", n as u32, x as u64, format!("leaves ({x},{y}) of 2^{k}: got {got} want {want}")));
            }
            let got2 = leaf_lca_level(2 * x, 2 * y);
            let want2 = if x == y { 0 } else { want + 1 };
            if got2 != want2 {
                return Err(fail("leaf_lca_level_nodes", n as u32, x as u64, format!("nodes ({},{}) of 2^{k} leaves: got {got2} want {want2}", 2 * x, 2 * y)));
            }
        }
        if a != b {
            ev.nontrivial(&(k, a, b, "lca-large"));
        }
        if i == 1 {
            ev.sample(&format!("lca_large_{k}"), || json!({"kind": "sampled leaf pair", "n_leaves": n, "leaves": [a, b], "lca_level_by_descent": want, "leaf_lca_level": leaf_lca_level(a, b), "with_node_indices": leaf_lca_level(2 * a, 2 * b)}));
        }
    }
    ev.eval(count);
    ev.class(&format!("lca_pairs_sampled_2^{k}"));
    Ok(())
}

fn sampled_large(ev: &Evidence, k: u32, count: u64, rng: &mut SplitMix) -> Result<(), Violation> {
    let n = 1u32 << k;
    let d = RefDescent { n_leaves: n };
    let width = 2 * (n as u64) - 1;
    if n.root() as u64 != (n as u64) - 1 + 0 && k > 0 {
        // root of a full tree over [0, n) is node n - 1 by the recursive definition (0 + n - 1)
        return Err(fail("root", n, 0, format!("got {}", n.root())));
    }
    for i in 0..count {
        // bias towards interesting places: near the root, near the edges, random
        let x = match i % 4 {
            0 => rng.below(width),
            1 => (width - 1).saturating_sub(rng.below(64)),
            2 => rng.below(64).min(width - 1),
            _ => {
                // a node at a random level: (random leaf range root)
                let lvl = rng.below(k as u64 + 1) as u32;
                let idx = rng.below((n >> lvl) as u64);
                ((idx << (lvl + 1)) + (1u64 << lvl) - 1).min(width - 1)
            }
        } as u32;
        let (level, parent, sibling, range) = d.locate(x).expect("in tree");
        let (left, right) = if level == 0 {
            (None, None)
        } else {
            let mid = range.0 + (range.1 - range.0) / 2;
            (Some(range.0 + mid - 1), Some(mid + range.1 - 1))
        };
        check_node(n, x, level, parent, sibling, left, right, range)?;
        // direct path by iterating the reference parent
        let cp: Vec<(u32, u32)> = x.direct_copath(&n).into_iter().map(|c| (c.path, c.copath)).collect();
        let mut want = vec![];
        let mut cur = x;
        while let Some((_, Some(p), Some(s), _)) = d.locate(cur) {
            want.push((p, s));
            cur = p;
        }
        if cp != want {
            return Err(fail("direct_copath", n, x as u64, format!("got {cp:?} want {want:?}")));
        }
        ev.eval(1);
        ev.nontrivial(&(n, x));
    }
    for x in [width, width + 1, width + 2, (u32::MAX - 1) as u64] {
        if x > u32::MAX as u64 {
            continue;
        }
        let x32 = x as u32;
        if x32.is_in_tree(&n.root()) || !x32.direct_copath(&n).is_empty() {
            return Err(fail("is_in_tree_outside", n, x, "index outside the tree accepted".into()));
        }
        ev.eval(1);
    }
    Ok(())
}

fn leaf_index_bound(ev: &Evidence, rng: &mut SplitMix) -> Result<(), Violation> {
    let max = (1u32 << 24) - 1;
    let mut vals = vec![0u32, 1, max - 1, max, max + 1, max + 2, 1 << 25, u32::MAX - 1, u32::MAX];
    for _ in 0..2000 {
        vals.push(rng.next() as u32);
        vals.push(rng.below(max as u64 + 4) as u32);
    }
    for v in vals {
        let ok = LeafIndex::try_from(v).is_ok();
        if ok != (v <= max) {
            return Err(fail("leaf_index_bound", 0, v as u64, format!("try_from accepted={ok}")));
        }
        ev.eval(1);
    }
    Ok(())
}

/// Node lookups in an exported tree (`ExportedTree::get_parent` / `get_leaf`, documented to fail for an index that is out of
/// range): a node vector of `len` entries stands for the tree with `npot((len + 1) / 2)` leaves (trailing blanks are not
/// stored); every index of that tree is answered, every index beyond it is an error.
fn exported_tree_bounds(ev: &Evidence, rng: &mut SplitMix) -> Result<(), Violation> {
    use mls_rs::group::ExportedTree;
    let mut lens: Vec<usize> = (1..=129).step_by(2).collect();
    for k in 7..=13 {
        lens.extend([(1usize << k) - 1, (1 << k) + 1, (1 << k) + 1 + 2 * rng.below(1 << (k - 1)) as usize]);
    }
    for len in lens {
        let mut b = vec![];
        crate::refmodel::tls::put_opaque(&mut b, &vec![0u8; len]);
        let Ok(t) = ExportedTree::from_bytes(&b) else {
            return Err(fail("exported_tree_of_blanks_not_decodable", 0, len as u64, String::new()));
        };
        let leaves = len.div_ceil(2).next_power_of_two() as u64;
        let width = 2 * leaves - 1;
        let mut probes = vec![0u64, len as u64 - 1, len as u64, width - 1, width, width + 1, 2 * width, 2 * width + 1, u32::MAX as u64];
        for _ in 0..8 {
            probes.push(rng.below(2 * width + 4));
        }
        for i in probes {
            let inside = i < width;
            let got = t.get_parent(i as u32).is_ok();
            if got != inside {
                return Err(fail(
                    if inside { "node_lookup_refuses_index_in_tree" } else { "node_lookup_accepts_index_outside_tree" },
                    leaves as u32,
                    i,
                    format!("ExportedTree of {len} nodes ({leaves} leaves, indices 0..={}): get_parent({i}) is_ok = {got}", width - 1),
                ));
            }
            if i % 2 == 0 {
                if let Ok(li) = LeafIndex::try_from((i / 2) as u32) {
                    let got = t.get_leaf(li).is_ok();
                    if got != inside {
                        return Err(fail(
                            if inside { "leaf_lookup_refuses_index_in_tree" } else { "leaf_lookup_accepts_index_outside_tree" },
                            leaves as u32,
                            i,
                            format!("ExportedTree of {len} nodes ({leaves} leaves): get_leaf({}) is_ok = {got}", i / 2),
                        ));
                    }
                }
            }
            ev.eval(1);
            if !inside {
                ev.nontrivial(&("bounds", len, i));
            }
        }
    }
    ev.class("exported_tree_index_bounds");
    Ok(())
}

/// `ExportedTree::filtered_direct_path` on the trees of live groups (3 to 9 members, then one interior member removed): for
/// every leaf position of the tree, occupied or blank, stored or trimmed away, the list has one entry per node of the
/// reference model's filtered direct path, blank exactly where the model's node is blank, with the model's public key.
fn exported_tree_paths(ev: &Evidence) -> Result<(), Violation> {
    use crate::refmodel::tree::{RefNode, RefTreeNodes};
    use crate::world::{CommitSpec, World, WorldCfg};
    use mls_rs::group::ExportedTree;
    let harness = |what: &str| Violation { failure: Failure::new(format!("{P}|harness|{what}"), String::new()), case: None };
    for n in 3..=9usize {
        let mut w = World::new(P, WorldCfg::default_for(1));
        let a = w.new_party();
        w.create_group(a).map_err(|_| harness("create_group"))?;
        let mut spec = CommitSpec::default();
        for _ in 1..n {
            spec.add.push(w.new_party());
        }
        w.commit_round(a, &spec).map_err(|f| Violation { failure: f, case: None })?.map_err(|_| harness("commit"))?;
        // a path commit by the last member populates parents; then an interior removal leaves blanks
        let last = *w.members().last().unwrap();
        w.commit_round(last, &CommitSpec::default()).map_err(|f| Violation { failure: f, case: None })?.map_err(|_| harness("commit"))?;
        for step in 0..2 {
            if step == 1 {
                let mut spec = CommitSpec::default();
                spec.remove.push(1);
                w.commit_round(a, &spec).map_err(|f| Violation { failure: f, case: None })?.map_err(|_| harness("commit"))?;
            }
            let bytes = w.parties[a].g().export_tree().to_bytes().map_err(|_| harness("export_tree"))?;
            let t = ExportedTree::from_bytes(&bytes).map_err(|_| harness("decode tree"))?;
            let m = RefTreeNodes::parse(&bytes).ok_or_else(|| harness("parse tree"))?;
            let leaves = (t.nodes().len() as u32).div_ceil(2).next_power_of_two();
            for leaf in 0..leaves {
                let want: Vec<Option<Vec<u8>>> = m
                    .filtered_direct_path(leaf)
                    .into_iter()
                    .map(|(p, _)| match m.nodes.get(p as usize) {
                        Some(RefNode::Parent(pn)) => Some(pn.encryption_key.clone()),
                        _ => None,
                    })
                    .collect();
                let li = LeafIndex::try_from(leaf).map_err(|_| harness("leaf index"))?;
                let got: Option<Vec<Option<Vec<u8>>>> = t.filtered_direct_path(li).ok().map(|v| v.into_iter().map(|p| p.map(|pp| pp.public_key.as_ref().to_vec())).collect());
                ev.eval(1);
                if got.as_ref() != Some(&want) {
                    return Err(fail(
                        "exported_tree_filtered_direct_path",
                        leaves,
                        2 * leaf as u64,
                        format!(
                            "tree of {} stored nodes ({n} members{}): filtered_direct_path(leaf {leaf}) has {:?} entries (blank pattern {:?}), the reference has {} ({:?})",
                            t.nodes().len(),
                            if step == 1 { ", leaf 1 removed" } else { "" },
                            got.as_ref().map(|g| g.len()),
                            got.as_ref().map(|g| g.iter().map(|x| x.is_some()).collect::<Vec<_>>()),
                            want.len(),
                            want.iter().map(|x| x.is_some()).collect::<Vec<_>>()
                        ),
                    ));
                }
                if 2 * leaf as usize >= t.nodes().len() {
                    ev.nontrivial(&("fdp_trimmed_leaf", n, step, leaf));
                    ev.class("filtered_direct_paths_of_trimmed_leaves");
                }
            }
        }
    }
    ev.class("exported_tree_filtered_direct_paths");
    Ok(())
}

/// Calibration of the reference model itself against the IETF tree-math vector.
fn calibrate() -> Result<(), String> {
    let path = format!("{VERIF_ROOT}/vectors/tree_math.json");
    let s = std::fs::read_to_string(&path).map_err(|e| format!("{path}: {e}"))?;
    let v: serde_json::Value = serde_json::from_str(&s).map_err(|e| e.to_string())?;
    let mut checked = 0;
    for tc in v.as_array().ok_or("not an array")? {
        let n = tc["n_leaves"].as_u64().unwrap() as u32;
        if !n.is_power_of_two() {
            continue;
        }
        let t = RefTree::new(n);
        if t.root as u64 != tc["root"].as_u64().unwrap() {
            return Err(format!("root mismatch n={n}"));
        }
        let arr = |name: &str| -> Vec<Option<u32>> {
            tc[name].as_array().unwrap().iter().map(|x| x.as_u64().map(|x| x as u32)).collect()
        };
        if arr("left") != t.left || arr("right") != t.right || arr("parent") != t.parent || arr("sibling") != t.sibling {
            return Err(format!("table mismatch n={n}"));
        }
        checked += 1;
    }
    if checked < 3 {
        return Err("too few power-of-two vectors".into());
    }
    Ok(())
}

pub fn run(ctx: &Ctx) -> ! {
    let ev = Evidence::new(P, ctx.tier, ctx.seed, "exploration");
    ev.set_rule(
        "exhaustive: every leaf count n = 2^k (k = 0..12) and every node x in [0, 2n-2] plus indices just outside \
         and far outside; every leaf pair for k <= 10; sampled: nodes of trees with 2^13..2^24 leaves (biased to root, \
         edges and every level) and random leaf pairs; oracle = recursive left-balanced-tree definition (refmodel::treemath), \
         calibrated on the IETF tree_math vector. Node / leaf lookups (ExportedTree::get_parent / get_leaf) on node vectors of every odd length up to 129 and around 2^7..2^13: Ok exactly for the indices of the tree, also at the first index after it. ExportedTree::filtered_direct_path of every leaf position (occupied, blank, trimmed away) of the trees of 3- to 9-member live groups, before and after an interior removal, against the reference model. Non-trivial = (n, x) with x not a leaf or n >= 4 (distinct by value), \
         distinct leaf pairs a != b, outside-tree probes.",
    );
    ev.assume("the reference model refmodel::treemath (recursive definition) is correct; it is calibrated on the IETF tree_math vectors before use");
    if let Err(e) = calibrate() {
        inconclusive(&ev, &format!("oracle calibration failed: {e}"));
    }
    let mut rng = SplitMix::new(ctx.seed, 20);

    let result = (|| -> Result<(), Violation> {
        if let Some(path) = &ctx.replay {
            let v: serde_json::Value = serde_json::from_str(&std::fs::read_to_string(path).unwrap_or_default()).unwrap_or_default();
            let n = v["case"]["n_leaves"].as_u64().unwrap_or(8) as u32;
            let k = n.max(1).trailing_zeros().min(12);
            exhaustive_size(&ev, k)?;
            lca_pairs(&ev, k.min(10), None)?;
            return Ok(());
        }
        let max_k = 12;
        for k in 0..=max_k {
            exhaustive_size(&ev, k)?;
        }
        for k in 0..=10 {
            lca_pairs(&ev, k, None)?;
        }
        let pair_samples = ctx.tier.pick(200_000, 5_000_000);
        for k in 11..=24 {
            lca_pairs(&ev, k.min(16), Some((pair_samples / 14, &mut rng)))?;
            lca_pairs_large(&ev, k, pair_samples / 28, &mut rng)?;
        }
        let node_samples = ctx.tier.pick(20_000, 1_000_000);
        for k in 13..=24 {
            sampled_large(&ev, k, node_samples, &mut rng)?;
        }
        if ctx.tier == Tier::Thorough {
            for k in 13..=16 {
                exhaustive_size(&ev, k)?;
            }
        }
        leaf_index_bound(&ev, &mut rng)?;
        exported_tree_bounds(&ev, &mut rng)?;
        exported_tree_paths(&ev)?;
        Ok(())
    })();

    ev.exhaustive.store(true, std::sync::atomic::Ordering::Relaxed);
    ev.put_extra("exhaustive_part", json!("all n = 2^k, k = 0..12, all nodes; all leaf pairs for k <= 10"));
    ev.sample("s1", || json!({"n_leaves": 8, "x": 3, "checks": ["root", "is_leaf", "is_in_tree", "left/right", "parent_sibling", "direct_copath", "subtree", "bfs"]}));
    ev.sample("s2", || json!({"n_leaves": 4096, "x": 8191, "outside": true, "expect": "is_in_tree = false, direct_copath = []"}));
    ev.sample("s3", || json!({"n_leaves": 1024, "leaf_pair": [511, 512], "expect_lca_level": 10}));
    ev.sample("s4", || json!({"n_leaves": 16777216, "x": "sampled", "oracle": "descent from the root by the recursive definition"}));

    match result {
        Ok(()) => finish_ok(&ev),
        Err(v) => {
            let payload = json!({"detail": v.failure.detail, "n_leaves": v.failure.detail.split_whitespace().next().and_then(|s| s.strip_prefix("n_leaves=")).and_then(|s| s.parse::<u64>().ok())});
            finish_violation(&ev, v, payload)
        }
    }
}
