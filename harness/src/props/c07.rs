//! C07 — a joiner ends up with exactly the members' state; a key package is used once.
use crate::engine::*;
use crate::history::*;
use crate::world::*;
use crate::Ctx;
use mls_rs::group::ExportedTree;
use mls_rs::MlsMessage;
use std::collections::BTreeSet;

const P: &str = "C07";

pub struct Obs {
    ev: &'static Evidence,
    pre_tree: Option<Vec<u8>>,
    pre_gi: Option<Vec<u8>>,
    /// parties that have written their group to storage at some point (stale records if they rejoin)
    written: BTreeSet<usize>,
    pub mismatch_checks: u64,
}

fn fail(what: &str, detail: String) -> Failure {
    Failure::new(format!("{P}|{what}"), detail)
}

impl Obs {
    /// Every one of these must fail: a Welcome for another key package, a wrong or truncated tree,
    /// an external commit built from the GroupInfo of the previous epoch.
    fn mismatches(&mut self, w: &mut World, info: &CommitInfo) -> CaseResult {
        let t = w.now();
        if !info.welcome_bytes.is_empty() {
            // (a) an outsider that was not added
            let z = w.new_party();
            w.key_package(z).map_err(|e| setup_failure(P, "key_package", &e))?;
            for wb in &info.welcome_bytes {
                let tree = info.tree_oob.clone();
                let party = &w.parties[z];
                let r = guard(|| {
                    let wm = MlsMessage::from_bytes(wb)?;
                    let tr = match &tree {
                        Some(t) => Some(ExportedTree::from_bytes(t)?),
                        None => None,
                    };
                    party.client.join_group(tr, &wm, Some(t)).map(|_| ())
                });
                self.mismatch_checks += 1;
                match r {
                    Ok(()) => return Err(fail("welcome_for_another_key_package_accepted", format!("party {z} joined with a Welcome it was not added by"))),
                    Err(e) if e.is_panic() => return Err(panic_failure(P, "join_group(foreign welcome)", &e)),
                    Err(e) => self.ev.class(&format!("foreign_welcome_rejected:{}", e.class())),
                }
            }
            w.parties[z].status = Status::Outside;
            // (b) wrong trees, when the tree travels out of band; the joiner's key package is still in its store
            if let (Some(tree), Some(j)) = (&info.tree_oob, info.joined.iter().find(|j| !self.written.contains(j))) {
                let mut wrong: Vec<(&str, Vec<u8>)> = vec![];
                if let Some(pre) = &self.pre_tree {
                    if pre != tree {
                        wrong.push(("tree_of_previous_epoch", pre.clone()));
                    }
                }
                if tree.len() > 40 {
                    // drop the last node: re-encode by cutting the vector and fixing nothing -> undecodable or shorter tree
                    wrong.push(("truncated_tree", tree[..tree.len() - 7].to_vec()));
                    let mut flipped = tree.clone();
                    let pos = flipped.len() / 2;
                    flipped[pos] ^= 0x20;
                    wrong.push(("tree_with_flipped_bit", flipped));
                }
                // the same tree padded with blank nodes: same tree hash, but not the tree (RFC 9420 §7.8: no trailing blanks)
                {
                    let mut r = crate::refmodel::tls::Reader::new(tree);
                    if let Some(body) = r.opaque() {
                        let mut b = body.to_vec();
                        b.extend_from_slice(&[0, 0]);
                        let mut padded = vec![];
                        crate::refmodel::tls::put_opaque(&mut padded, &b);
                        wrong.push(("tree_padded_with_blank_nodes", padded));
                    }
                }
                for (name, tb) in wrong {
                    for wb in &info.welcome_bytes {
                        let party = &w.parties[*j];
                        let r = guard(|| {
                            let wm = MlsMessage::from_bytes(wb)?;
                            let tr = ExportedTree::from_bytes(&tb)?;
                            party.client.join_group(Some(tr), &wm, Some(t)).map(|_| ())
                        });
                        self.mismatch_checks += 1;
                        match r {
                            Ok(()) => return Err(fail(&format!("join_with_{name}_accepted"), format!("party {j}"))),
                            Err(e) if e.is_panic() => return Err(panic_failure(P, &format!("join_group({name})"), &e)),
                            Err(e) => self.ev.class(&format!("{name}_rejected:{}", e.class())),
                        }
                    }
                }
            }
        }
        // (c) external commit from a stale GroupInfo: every member must reject it
        if let Some(gi) = self.pre_gi.take() {
            let y = w.new_party();
            let party = &w.parties[y];
            let r = guard(|| {
                let m = MlsMessage::from_bytes(&gi)?;
                party.client.external_commit_builder()?.commit_time(t).build(m)
            });
            self.mismatch_checks += 1;
            match r {
                Err(e) if e.is_panic() => return Err(panic_failure(P, "external_commit_builder.build(stale GroupInfo)", &e)),
                Err(_) => self.ev.class("stale_group_info_refused_at_build"),
                Ok((_, commit)) => {
                    let cb = commit.to_bytes().expect("enc");
                    for m in w.members() {
                        let mut clone = w.parties[m].g().clone();
                        let r = guard(|| clone.process_incoming_message_with_time(MlsMessage::from_bytes(&cb)?, t).map(|_| ()));
                        match r {
                            Ok(()) => return Err(fail("external_commit_from_stale_group_info_accepted", format!("member {m} in epoch {} accepted an external commit built on the GroupInfo of epoch {}", w.epoch, w.epoch - 1))),
                            Err(e) if e.is_panic() => return Err(panic_failure(P, "process_incoming_message(stale external commit)", &e)),
                            Err(_) => {}
                        }
                    }
                    self.ev.class("stale_external_commit_rejected_by_all");
                }
            }
        }
        Ok(())
    }

    /// The first write of a joiner removes the key package it used (unless last-resort).
    fn key_package_used_once(&mut self, w: &mut World, j: usize) -> CaseResult {
        let before = w.parties[j].kstore.count();
        if let Err(e) = w.save(j) {
            return Err(op_failure(P, "write_to_storage", &e));
        }
        self.written.insert(j);
        let after = w.parties[j].kstore.count();
        let last_resort = w.is_last_resort(j);
        self.ev.class(if last_resort { "joiner_with_last_resort_key_package" } else { "joiner_with_one_time_key_package" });
        if last_resort {
            if after != before {
                return Err(fail("last_resort_key_package_deleted", format!("party {j}: {before} -> {after} key packages")));
            }
        } else if after + 1 != before {
            return Err(fail("used_key_package_not_deleted_on_first_write", format!("party {j}: {before} -> {after} key packages in its store after write_to_storage")));
        }
        // a second write changes nothing more
        if let Err(e) = w.save(j) {
            return Err(op_failure(P, "write_to_storage", &e));
        }
        if w.parties[j].kstore.count() != after {
            return Err(fail("second_write_deleted_another_key_package", format!("party {j}")));
        }
        Ok(())
    }
}

impl Observer for Obs {
    fn on_start(&mut self, w: &mut World) {
        w.cfg.last_resort_every = 3;
    }

    fn before_commit(&mut self, w: &mut World, _committer: usize) -> CaseResult {
        if let Some(m) = w.members().first().copied() {
            let g = w.parties[m].g();
            self.pre_tree = g.export_tree().to_bytes().ok();
            self.pre_gi = guard(|| g.group_info_message_allowing_ext_commit(true)).ok().and_then(|m| m.to_bytes().ok());
        }
        Ok(())
    }

    fn after_commit(&mut self, w: &mut World, info: &CommitInfo, _st: &HistoryStats) -> CaseResult {
        // classification of the joiners' position
        if !info.joined.is_empty() {
            if let Some(pre) = self.pre_tree.as_ref().and_then(|b| crate::refmodel::tree::RefTreeNodes::parse(b)) {
                let interior = pre.has_interior_blank_leaf();
                let unmerged = pre.has_unmerged();
                if interior {
                    self.ev.class_n("joiners_into_tree_with_interior_blank", info.joined.len() as u64);
                }
                if unmerged {
                    self.ev.class_n("joiners_into_tree_with_unmerged_leaves", info.joined.len() as u64);
                }
                if info.joined.len() > 1 {
                    self.ev.class("commits_with_several_joiners");
                }
                if interior || unmerged || info.joined.len() > 1 {
                    self.ev.nontrivial(&(w.epoch, info.joined.len(), interior, unmerged, &info.commit_bytes[..info.commit_bytes.len().min(48)]));
                }
            }
        }
        self.mismatches(w, info)?;
        // every joiner persists (key package used once); the first one immediately commits
        for j in info.joined.clone() {
            if info.external {
                // an external joiner used no key package
                if let Err(e) = w.save(j) {
                    return Err(op_failure(P, "write_to_storage", &e));
                }
                self.written.insert(j);
            } else {
                self.key_package_used_once(w, j)?;
            }
        }
        if let Some(j) = info.joined.first().copied() {
            if w.parties[j].status == Status::Member {
                match w.commit_round(j, &CommitSpec::default())? {
                    Ok(_) => {
                        self.ev.class("joiner_commits_immediately");
                        w.agree(&[(b"c07".to_vec(), vec![], 16)])?;
                    }
                    Err(e) => {
                        return Err(fail(&format!("joiner_cannot_commit|{}", e.class()), format!("party {j} joined in epoch {} and could not build a commit: {}", w.epoch, e.text())));
                    }
                }
            }
        }
        Ok(())
    }

    fn commit_refused(&mut self, w: &mut World, committer: usize, e: &OpErr) -> CaseResult {
        // a returning party whose storage still holds the records of its earlier membership
        if e.class() == "InvalidEpoch" && self.written.contains(&committer) && w.parties[committer].status != Status::Member {
            let sig = format!("{P}|returning_member_with_stale_storage|external_commit|InvalidEpoch");
            self.ev.known_or_fail(&sig, || format!("party {committer} was a member before, wrote its state, was removed and cannot come back by external commit: {}", e.text()))?;
            // the application-level remedy: purge, so that the history can go on
            let gid = w.group_id.clone();
            w.parties[committer].gstore.delete_group(&gid);
            self.written.remove(&committer);
        }
        Ok(())
    }

    fn extra_op(&mut self, w: &mut World, op: &[u16; 5], notes: &mut EpochNotes) -> CaseResult {
        let members = w.members();
        if members.is_empty() {
            return Ok(());
        }
        match pick(op[2], 3) {
            0 => {
                let m = members[pick(op[1], members.len())];
                if let Err(e) = w.save(m) {
                    return Err(op_failure(P, "write_to_storage", &e));
                }
                self.written.insert(m);
            }
            _ => {
                // a removed party comes back through a Welcome
                if notes.resumption_psk_pending {
                    return Ok(());
                }
                let removed: Vec<usize> = w.parties.iter().filter(|p| p.status == Status::Removed).map(|p| p.id).collect();
                if removed.is_empty() {
                    return Ok(());
                }
                let r = removed[pick(op[1], removed.len())];
                let purge_first = op[3] % 2 == 0;
                let stale = self.written.contains(&r);
                if purge_first {
                    let gid = w.group_id.clone();
                    w.parties[r].gstore.delete_group(&gid);
                    self.written.remove(&r);
                }
                let c = members[pick(op[4], members.len())];
                self.before_commit(w, c)?;
                let spec = CommitSpec { add: vec![r], by_ref_add_candidates: notes.pending_adds.clone(), ..Default::default() };
                match w.commit_round(c, &spec)? {
                    Err(e) => {
                        w.count(&format!("readd_refused:{}", e.class()));
                        return Ok(());
                    }
                    Ok(info) => {
                        *notes = Default::default();
                        self.ev.class(if stale && !purge_first { "returning_member_with_stale_storage" } else { "returning_member_with_clean_storage" });
                        self.ev.nontrivial(&(w.epoch, r, "return"));
                        w.agree(&[])?;
                        if stale && !purge_first {
                            // the next epoch change must work for the returning member (on a clone first)
                            let t = w.tick();
                            let mut clone = w.parties[r].g().clone();
                            let res = guard(|| {
                                clone.commit_builder().commit_time(t).build()?;
                                clone.apply_pending_commit().map(|_| ())
                            });
                            if let Err(e) = res {
                                if e.is_panic() {
                                    return Err(panic_failure(P, "commit after rejoin", &e));
                                }
                                let sig = format!("{P}|returning_member_with_stale_storage|welcome|{}", e.class());
                                self.ev.known_or_fail(&sig, || format!("party {r} came back through a Welcome with the storage of its earlier membership; its next epoch change fails: {}", e.text()))?;
                                let gid = w.group_id.clone();
                                w.parties[r].gstore.delete_group(&gid);
                                self.written.remove(&r);
                            }
                        }
                        self.after_commit(w, &info, &HistoryStats::default())?;
                    }
                }
            }
        }
        Ok(())
    }
}

pub fn run(ctx: &Ctx) -> ! {
    let mut hp = HistoryParams::standard(ctx.tier);
    hp.weights = [14, 5, 12, 2, 1, 1, 1, 30, 8, 2, 1, 10];
    hp.cross_decrypt_every = 1;
    hp.stores = vec![crate::providers::StoreKind::Mem, crate::providers::StoreKind::Sql];
    let spec = RunSpec {
        shards: 16,
        cases_per_shard: ctx.tier.pick(60, 300),
        cfg_len: CFG_LEN,
        min_ops: 4,
        max_ops: ctx.tier.pick(26, 60),
        max_shrink_iters: 300,
    };
    run_property(
        ctx,
        P,
        "exploration",
        "histories biased to joins: by-value and by-reference adds (1-4 per commit) mixed with removes / updates / PSKs, with and without path, single or per-member Welcome, tree in the extension or \
         out of band, external commits (new party, rejoin, resync) with the tree inside or outside the GroupInfo, removed parties coming back through a Welcome with purged or un-purged storage, every \
         third party using last-resort key packages. Oracle: N-way agreement incl. every joiner and cross-decryption right after the join; the first joiner immediately builds a commit that all accept; \
         the joiner's first write_to_storage removes exactly the used key package (none if last-resort), a second write removes nothing more; mismatches must fail: a Welcome given to a party it was not \
         made for, the previous epoch's tree, a truncated, bit-flipped or blank-padded tree, an external commit built on the previous epoch's GroupInfo (rejected by every member). \
         Non-trivial = joiners entering a tree with an interior blank or unmerged leaves, several joiners at once, or a returning member.",
        &hp,
        spec,
        &|_, ev| Obs { ev, pre_tree: None, pre_gi: None, written: BTreeSet::new(), mismatch_checks: 0 },
        &|_, o| {
            o.ev.class_n("mismatch_checks", o.mismatch_checks);
            false
        },
    )
}
