//! C18 — a PSK commit binds the new epoch to knowledge of the PSK.
use crate::engine::*;
use crate::history::{setup_failure, CFG_LEN};
use crate::props::c04::{diff_components, snap};
use crate::providers::{ProviderKind, StoreKind};
use crate::world::*;
use crate::Ctx;
use mls_rs::group::{ExportedTree, ReceivedMessage};
use mls_rs::MlsMessage;
use serde_json::json;
use std::collections::{BTreeMap, BTreeSet};

const P: &str = "C18";

fn fail(what: &str, detail: String) -> Failure {
    Failure::new(format!("{P}|{what}"), detail)
}

#[derive(Default, Clone)]
struct Retention {
    stored: Vec<u64>,
    pending: Vec<u64>,
}

impl Retention {
    fn write(&mut self, r: usize) {
        self.stored.append(&mut self.pending);
        while self.stored.len() > r {
            self.stored.remove(0);
        }
    }
    fn has(&self, e: u64) -> bool {
        self.stored.contains(&e) || self.pending.contains(&e)
    }
}

#[derive(Clone, Debug)]
enum Psk {
    External(usize),
    Resumption(u64),
}

fn psk_id(i: usize) -> Vec<u8> {
    vec![b'k', i as u8]
}

fn run_case(case: &Case, ev: &Evidence) -> CaseResult {
    ev.eval(1);
    let suite = [1u16, 1, 3, 2][pick(case.c(0), 4)];
    let mut cfg = WorldCfg::default_for(suite);
    cfg.providers = vec![ProviderKind::ALL[pick(case.c(1), 3)]];
    cfg.store = [StoreKind::Mem, StoreKind::Sql][pick(case.c(2), 2)];
    cfg.retention = 1 + pick(case.c(3), 3);
    cfg.path_required = case.c(4) & 1 == 1;
    cfg.encrypt_handshake = case.c(4) & 2 != 0;
    let retention = cfg.retention;
    let mut w = World::new(P, cfg);
    let creator = w.new_party();
    w.create_group(creator).map_err(|e| setup_failure(P, "create_group", &e))?;
    let mut ret: BTreeMap<usize, Retention> = BTreeMap::new();
    ret.insert(creator, Retention::default());
    let n0 = 2 + pick(case.c(5), 3);
    let mut spec = CommitSpec::default();
    for _ in 1..n0 {
        let p = w.new_party();
        spec.add.push(p);
    }
    let added = spec.add.clone();
    w.commit_round(creator, &spec)?.map_err(|e| setup_failure(P, "initial_commit", &e))?;
    ret.get_mut(&creator).unwrap().pending.push(0);
    for a in added {
        ret.insert(a, Retention::default());
    }

    // history before the PSK commit: epochs pass, members write, a member joins late
    let mut rng = SplitMix::new(((case.c(6) as u64) << 16) | case.c(7) as u64, 18);
    let pre_epochs = rng.below(6);
    for _ in 0..pre_epochs {
        let members = w.members();
        let c = members[rng.below(members.len() as u64) as usize];
        let mut sp = CommitSpec::default();
        let mut newcomer = None;
        if rng.below(4) == 0 && members.len() < 7 {
            let p = w.new_party();
            sp.add.push(p);
            newcomer = Some(p);
        }
        let old = w.epoch;
        w.commit_round(c, &sp)?.map_err(|e| setup_failure(P, "pre_commit", &e))?;
        for m in &members {
            ret.get_mut(m).unwrap().pending.push(old);
        }
        if let Some(p) = newcomer {
            ret.insert(p, Retention::default());
        }
        for m in w.members() {
            if rng.below(3) == 0 {
                w.save(m).map_err(|e| setup_failure(P, "write_to_storage", &e))?;
                ret.get_mut(&m).unwrap().write(retention);
            }
        }
    }

    let members = w.members();
    let committer = members[pick(case.c(8), members.len())];
    // PSK values: the committer's values are the reference; every other member holds the same, a
    // different value, or nothing, per external PSK
    let mut holds: BTreeMap<(usize, usize), u8> = BTreeMap::new(); // (member, psk) -> 0 same, 1 different, 2 absent
    for i in 0..4 {
        w.parties[committer].pstore.put(&psk_id(i), &[0x10 + i as u8; 32]);
        for m in &members {
            if *m == committer {
                continue;
            }
            let h = match rng.below(10) {
                0..=6 => 0u8,
                7 | 8 => 1,
                _ => 2,
            };
            holds.insert((*m, i), h);
            match h {
                0 => w.parties[*m].pstore.put(&psk_id(i), &[0x10 + i as u8; 32]),
                1 => {
                    // half of the time a rotation: the member held the common value and its application replaced it
                    if (case.c(6) as usize + *m + i) % 2 == 0 {
                        w.parties[*m].pstore.put(&psk_id(i), &[0x10 + i as u8; 32]);
                        ev.class("psk_values_replaced_under_the_same_id");
                    }
                    w.parties[*m].pstore.put(&psk_id(i), &[0xEE; 32])
                }
                _ => w.parties[*m].pstore.remove(&psk_id(i)),
            }
        }
    }

    // the PSK list
    let mut psks: Vec<(Psk, bool)> = vec![]; // (psk, by_reference)
    for op in case.ops.iter().take(4) {
        let by_ref = op[1] % 3 == 0;
        if op[0] % 5 < 3 {
            let i = pick(op[2], 4);
            // the same PSK may be injected twice (each PreSharedKeyID carries its own nonce): a valid list
            if psks.iter().any(|(p, _)| matches!(p, Psk::External(j) if *j == i)) && op[3] % 3 != 0 {
                continue;
            }
            psks.push((Psk::External(i), by_ref));
        } else {
            let back = pick(op[2], 6) as u64;
            let e = w.epoch.saturating_sub(back);
            if psks.iter().any(|(p, _)| matches!(p, Psk::Resumption(x) if *x == e)) && op[3] % 3 != 0 {
                continue;
            }
            psks.push((Psk::Resumption(e), by_ref));
        }
    }
    if psks.is_empty() {
        psks.push((Psk::External(0), false));
    }
    let committer_has = |ret: &BTreeMap<usize, Retention>, w: &World, e: u64| -> bool { e == w.epoch || (w.parties[committer].joined_epoch <= e && ret[&committer].has(e)) };

    // by-reference proposals come from another member
    let t = w.tick();
    let proposer = *members.iter().find(|m| **m != committer).unwrap();
    for (p, by_ref) in &psks {
        if !*by_ref {
            continue;
        }
        let party = &mut w.parties[proposer];
        let r = match p {
            Psk::External(i) => {
                let id = psk_id(*i);
                guard(|| party.gm().propose_external_psk(mls_rs::psk::ExternalPskId::new(id), vec![]))
            }
            Psk::Resumption(e) => {
                let e = *e;
                guard(|| party.gm().propose_resumption_psk(e, vec![]))
            }
        };
        match r {
            Ok(m) => w.push_proposal(proposer, m, vec![]).map_err(|e| setup_failure(P, "encode", &e))?,
            Err(e) if e.is_panic() => return Err(panic_failure(P, "propose_psk", &e)),
            Err(e) => return Err(fail(&format!("psk_proposal_refused|{}", e.class()), e.text().into())),
        }
    }
    // deliver the proposals (public or private) to everybody
    let flights = std::mem::take(&mut w.inflight);
    for m in &members {
        for f in &flights {
            if f.sender != *m {
                w.process(*m, &f.bytes).map_err(|e| setup_failure(P, "process_proposal", &e))?;
            }
        }
    }

    // optionally a joiner in the same commit
    let joiner = if case.c(9) % 3 == 0 && members.len() < 7 {
        let p = w.new_party();
        let h = rng.below(3);
        for i in 0..4 {
            match h {
                0 => w.parties[p].pstore.put(&psk_id(i), &[0x10 + i as u8; 32]),
                1 => w.parties[p].pstore.put(&psk_id(i), &[0x77; 32]),
                _ => {}
            }
        }
        Some((p, h))
    } else {
        None
    };
    let kp = match joiner {
        Some((p, _)) => Some(w.key_package(p).map_err(|e| setup_failure(P, "key_package", &e))?),
        None => None,
    };

    let by_value_unresolvable = psks.iter().any(|(p, by_ref)| !by_ref && matches!(p, Psk::Resumption(e) if !committer_has(&ret, &w, *e)));
    let by_ref_unresolvable = psks.iter().any(|(p, by_ref)| *by_ref && matches!(p, Psk::Resumption(e) if !committer_has(&ret, &w, *e)));
    let before_c = snap(&w, committer)?;
    let party = &mut w.parties[committer];
    let psks2 = psks.clone();
    let kp2 = kp.clone();
    let r = guard(|| {
        let mut b = party.group.as_mut().unwrap().commit_builder().commit_time(t);
        for (p, by_ref) in &psks2 {
            if *by_ref {
                continue;
            }
            b = match p {
                Psk::External(i) => b.add_external_psk(mls_rs::psk::ExternalPskId::new(psk_id(*i)))?,
                Psk::Resumption(e) => b.add_resumption_psk(*e)?,
            };
        }
        if let Some(k) = kp2 {
            b = b.add_member(k)?;
        }
        b.build()
    });
    let out = match r {
        Err(e) if e.is_panic() => return Err(panic_failure(P, "commit_builder.build", &e)),
        Err(e) => {
            let after = snap(&w, committer)?;
            let d = before_c.diff(&after);
            if !d.is_empty() {
                return Err(fail(&format!("refused_build_changed_state|diff={}", diff_components(&d)), format!("{d:?}")));
            }
            if by_value_unresolvable {
                ev.class("build_refused_by_value_resumption_psk_not_retained");
                return Ok(());
            }
            if by_ref_unresolvable {
                let sig = format!("{P}|cached_unresolvable_resumption_psk_blocks_commit|{}", e.class());
                ev.known_or_fail(&sig, || {
                    format!("committer {committer} cannot build any commit while a by-reference resumption PSK proposal for an epoch it does not retain is cached: {}", e.text())
                })?;
                return Ok(());
            }
            return Err(fail(&format!("psk_commit_refused|{}", e.class()), format!("{}; psks {psks:?}", e.text())));
        }
        Ok(o) => o,
    };
    if by_value_unresolvable {
        return Err(fail("commit_built_with_unresolvable_by_value_psk", format!("{psks:?}")));
    }
    let commit_bytes = out.commit_message.to_bytes().expect("enc");
    // which PSKs did the commit really carry? (by-reference offenders may have been dropped)
    let party = &mut w.parties[committer];
    let desc = guard(|| party.gm().apply_pending_commit()).map_err(|e| fail(&format!("apply_failed|{}", e.class()), e.text().into()))?;
    let applied: Vec<Psk> = match &desc.effect {
        mls_rs::group::CommitEffect::NewEpoch(ne) => ne
            .applied_proposals()
            .iter()
            .filter_map(|p| match &p.proposal {
                mls_rs::group::proposal::Proposal::Psk(x) => Some(match x.external_psk_id() {
                    Some(id) => Psk::External(id.as_ref()[1] as usize),
                    None => {
                        // PreSharedKeyID: psktype(2) usage group_id<V> epoch nonce<V>
                        use mls_rs::mls_rs_codec::MlsEncode;
                        let enc = x.mls_encode_to_vec().unwrap_or_default();
                        let mut r = crate::refmodel::tls::Reader::new(&enc);
                        let e = (|| {
                            r.u8()?;
                            r.u8()?;
                            r.opaque()?;
                            r.u64()
                        })();
                        Psk::Resumption(e.unwrap_or(u64::MAX))
                    }
                }),
                _ => None,
            })
            .collect(),
        _ => vec![],
    };
    let old_epoch = w.epoch;
    let auth_c = w.parties[committer].g().epoch_authenticator().map(|s| s.as_bytes().to_vec()).unwrap_or_default();

    // every other member: accept iff it holds the committer's value of every PSK the commit carries
    let mut followers = vec![committer];
    let mut divergent = false;
    for m in &members {
        if *m == committer {
            continue;
        }
        let mut should = true;
        let mut why = String::new();
        for p in &applied {
            match p {
                Psk::External(i) => {
                    if holds[&(*m, *i)] != 0 {
                        should = false;
                        why = format!("external psk {i}: {}", if holds[&(*m, *i)] == 1 { "different value" } else { "absent" });
                    }
                }
                Psk::Resumption(e) => {
                    let has = *e == old_epoch || (w.parties[*m].joined_epoch <= *e && ret[m].has(*e));
                    if !has {
                        should = false;
                        why = format!("resumption epoch {e} not retained (joined {}, stored {:?}, pending {:?})", w.parties[*m].joined_epoch, ret[m].stored, ret[m].pending);
                    }
                }
            }
        }
        // a member that will have to refuse the commit sometimes holds a commit of its own that it has not applied yet:
        // refusing somebody else's commit leaves that one where it is
        let mut own_pending = false;
        if !should && (case.c(6) as usize + *m) % 3 == 0 && !w.parties[*m].g().has_pending_commit() {
            let t = w.now();
            let party = &mut w.parties[*m];
            party.gm().clear_proposal_cache();
            if guard(|| party.gm().commit_builder().commit_time(t).build()).is_ok() {
                own_pending = true;
                ev.class("non_holders_with_an_own_pending_commit");
            }
        }
        let before = snap(&w, *m)?;
        let r = w.process(*m, &commit_bytes);
        if own_pending {
            if !w.parties[*m].g().has_pending_commit() && r.is_err() {
                return Err(fail("refused_psk_commit_dropped_own_pending_commit", format!("member {m} ({why})")));
            }
            // (checked against `before` below; then the member gives its own commit up so that the script can go on)
        }
        match (should, r) {
            (_, Err(e)) if e.is_panic() => return Err(panic_failure(P, "process_incoming_message(psk commit)", &e)),
            (true, Ok(ReceivedMessage::Commit(_))) => followers.push(*m),
            (true, Ok(_)) => return Err(fail("commit_wrong_kind", String::new())),
            (true, Err(e)) => {
                return Err(fail(
                    &format!("holder_of_all_psks_rejects|{}", e.class()),
                    format!("member {m} holds every PSK of the commit ({applied:?}) but rejects it: {}", e.text()),
                ))
            }
            (false, Ok(_)) => {
                return Err(fail(
                    "member_without_the_psk_follows",
                    format!("member {m} must not be able to process the commit ({why}) but did; psks {applied:?}"),
                ))
            }
            (false, Err(e)) => {
                divergent = true;
                ev.class(&format!("non_holder_rejects:{}", e.class()));
                let after = snap(&w, *m)?;
                let d = before.diff(&after);
                if !d.is_empty() {
                    let sig = format!("{P}|rejected_psk_commit_changed_state|diff={}", diff_components(&d));
                    ev.known_or_fail(&sig, || format!("member {m} ({why}): {d:?}"))?;
                }
                if own_pending {
                    w.parties[*m].gm().clear_pending_commit();
                }
            }
        }
    }
    // the followers agree with each other
    for m in &followers {
        let g = w.parties[*m].g();
        let a = g.epoch_authenticator().map(|s| s.as_bytes().to_vec()).unwrap_or_default();
        if a != auth_c || g.current_epoch() != old_epoch + 1 {
            return Err(fail("followers_disagree", format!("member {m}")));
        }
    }
    // the others are still in the old epoch and do not know the new authenticator
    for m in &members {
        if !followers.contains(m) {
            let g = w.parties[*m].g();
            if g.current_epoch() != old_epoch || g.epoch_authenticator().map(|s| s.as_bytes().to_vec()).unwrap_or_default() == auth_c {
                return Err(fail("non_holder_advanced", format!("member {m}")));
            }
        }
    }
    // the joiner needs the same PSKs
    if let Some((p, h)) = joiner {
        let needs_resumption = applied.iter().any(|x| matches!(x, Psk::Resumption(_)));
        let has_ext = applied.iter().all(|x| !matches!(x, Psk::External(_))) || h == 0;
        let should = has_ext && !needs_resumption;
        let wb = out.welcome_messages.first().map(|m| m.to_bytes().expect("enc"));
        let tree = out.ratchet_tree.as_ref().map(|t| t.to_bytes().expect("tree"));
        if let Some(wb) = wb {
            let party = &w.parties[p];
            let r = guard(|| {
                let tr = match &tree {
                    Some(t) => Some(ExportedTree::from_bytes(t)?),
                    None => None,
                };
                party.client.join_group(tr, &MlsMessage::from_bytes(&wb)?, Some(t)).map(|(g, _)| g)
            });
            match (should, r) {
                (_, Err(e)) if e.is_panic() => return Err(panic_failure(P, "join_group(psk welcome)", &e)),
                (true, Ok(g)) => {
                    if g.epoch_authenticator().map(|s| s.as_bytes().to_vec()).unwrap_or_default() != auth_c {
                        return Err(fail("joiner_disagrees", String::new()));
                    }
                    ev.class("joiner_with_psks_joins");
                }
                (true, Err(e)) => return Err(fail(&format!("joiner_holding_the_psks_rejected|{}", e.class()), e.text().into())),
                (false, Ok(_)) => return Err(fail("joiner_without_the_psks_joined", format!("joiner holds external PSKs: {} (0 = same values); commit carries {applied:?}", h))),
                (false, Err(e)) => ev.class(&format!("joiner_without_psks_rejected:{}", e.class())),
            }
        }
    }
    // An external commit that injects an external PSK: members holding the outsider's value follow it, every other member
    // rejects it and stays exactly as it was.
    if case.c(8) % 2 == 0 && followers.len() >= 2 {
        let i = pick(case.c(7), 4);
        let same = case.c(6) % 2 == 0;
        let x = w.new_party();
        let val: [u8; 32] = if same { [0x10 + i as u8; 32] } else { [0x55; 32] };
        w.parties[x].pstore.put(&psk_id(i), &val);
        let f = followers[followers.len() - 1];
        let gi = guard(|| w.parties[f].g().group_info_message_allowing_ext_commit(true)).map_err(|e| setup_failure(P, "group_info", &e))?;
        let t2 = w.tick();
        let outsider = &w.parties[x];
        let built = guard(|| outsider.client.external_commit_builder()?.with_external_psk(mls_rs::psk::ExternalPskId::new(psk_id(i))).commit_time(t2).build(gi));
        match built {
            Err(e) if e.is_panic() => return Err(panic_failure(P, "external_commit_builder.build", &e)),
            Err(e) => ev.class(&format!("external_psk_commit_not_built:{}", e.class())),
            Ok((xg, msg)) => {
                let bytes = msg.to_bytes().expect("enc");
                let auth_x = xg.epoch_authenticator().map(|s| s.as_bytes().to_vec()).unwrap_or_default();
                for m in followers.clone() {
                    let should = same && (m == committer || holds[&(m, i)] == 0);
                    let before = snap(&w, m)?;
                    let r = w.process(m, &bytes);
                    match (should, r) {
                        (_, Err(e)) if e.is_panic() => return Err(panic_failure(P, "process_incoming_message(external psk commit)", &e)),
                        (true, Ok(_)) => {
                            if w.parties[m].g().epoch_authenticator().map(|s| s.as_bytes().to_vec()).unwrap_or_default() != auth_x {
                                return Err(fail("followers_of_external_psk_commit_disagree", format!("member {m}")));
                            }
                            ev.class("external_psk_commit_followed");
                        }
                        (true, Err(e)) => return Err(fail(&format!("holder_of_all_psks_rejects|external_commit|{}", e.class()), format!("member {m} holds external psk {i}: {}", e.text()))),
                        (false, Ok(_)) => return Err(fail("member_without_the_psk_follows|external_commit", format!("member {m}, external psk {i}, outsider holds the reference value: {same}"))),
                        (false, Err(e)) => {
                            ev.class(&format!("non_holder_rejects_external_psk_commit:{}", e.class()));
                            let after = snap(&w, m)?;
                            let d = before.diff(&after);
                            if !d.is_empty() {
                                let sig = format!("{P}|rejected_external_psk_commit_changed_state|diff={}", diff_components(&d));
                                ev.known_or_fail(&sig, || format!("member {m}: {d:?}"))?;
                            }
                        }
                    }
                }
            }
        }
    }
    let n_res = applied.iter().filter(|p| matches!(p, Psk::Resumption(_))).count();
    ev.class_n("psks_in_commit", applied.len() as u64);
    ev.class_n("resumption_psks_in_commit", n_res as u64);
    ev.class_n("followers", followers.len() as u64 - 1);
    if applied.len() < psks.len() {
        ev.class("commits_with_dropped_by_reference_psk");
    }
    let boundary = applied.iter().any(|p| matches!(p, Psk::Resumption(e) if old_epoch - *e >= retention as u64));
    if applied.len() >= 2 || divergent || boundary {
        ev.nontrivial(case);
        ev.sample(&format!("nt{}", applied.len()), || json!({"members": members.len(), "retention": retention, "epoch": old_epoch, "psks": format!("{applied:?}"), "followers": followers.len() - 1, "case": case.to_json()}));
    }
    let _ = BTreeSet::<u8>::new();
    Ok(())
}

pub fn run(ctx: &Ctx) -> ! {
    let ev = Evidence::new(P, ctx.tier, ctx.seed, "exploration");
    ev.set_rule(
        "fresh group of 2-7 members per case with retention 1-3 on either storage provider, 0-5 earlier epochs with generated writes and a late joiner; then one commit with 1-4 PSK proposals \
         (external ids, resumption epochs 0-5 epochs back), each by value or by reference, optionally adding a joiner. Per member and external PSK the value is the committer's, a different one, or absent. \
         Oracle: exactly the members that hold the committer's value of every PSK the commit carries (resumption: the epoch is retained by the member per the C19 retention model and not older than \
         its join) process the commit and share the committer's epoch authenticator; every other member returns an error, stays in the old epoch with a canonically unchanged state (hook) and a different \
         authenticator; a joiner joins iff it holds the same external PSKs and no resumption PSK is involved; a by-value PSK the committer cannot resolve makes the build fail without changing it. \
         The PSK store is the shipped InMemoryPreSharedKeyStorage behind a counting wrapper; a 'different value' is often a replacement of the common value under the same id. Members that have to refuse sometimes hold a pending commit of their own: it must still be there afterwards. (Changing value, id, nonce or order of a PSK changes the PSK secret: decided byte-for-byte by C13's differential.) Non-trivial = >= 2 PSKs, a divergent holder assignment, or a resumption epoch at the retention boundary.",
    );
    let run = |c: &Case| run_case(c, &ev);
    if let Some(path) = &ctx.replay {
        let v: serde_json::Value = serde_json::from_str(&std::fs::read_to_string(path).unwrap_or_default()).unwrap_or_default();
        let case = Case::from_json(&v["case"]).unwrap_or_else(|| inconclusive(&ev, "no case"));
        return match run(&case) {
            Ok(()) => finish_ok(&ev),
            Err(f) => finish_violation(&ev, Violation { failure: f, case: Some(case.clone()) }, case.to_json()),
        };
    }
    for (_, v) in load_replays(P) {
        if let Some(case) = Case::from_json(&v["case"]) {
            if let Err(f) = run(&case) {
                finish_violation(&ev, Violation { failure: f, case: Some(case.clone()) }, case.to_json());
            }
        }
    }
    let spec = RunSpec { shards: 16, cases_per_shard: ctx.tier.pick(800, 12000), cfg_len: CFG_LEN, min_ops: 1, max_ops: 4, max_shrink_iters: 500 };
    match run_sharded(&ev, &spec, 18, &run) {
        Ok(()) => finish_ok(&ev),
        Err(v) => {
            let payload = v.case.as_ref().map(|c| c.to_json()).unwrap_or_default();
            finish_violation(&ev, v, payload)
        }
    }
}
