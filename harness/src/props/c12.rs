//! C12 — the wire codec round-trips, reports exact lengths and never panics on any bytes.
use crate::alloc_track::measure;
use crate::engine::*;
use crate::Ctx;
use arbitrary::{Arbitrary, Unstructured};
use mls_rs::mls_rs_codec::{MlsDecode, MlsEncode, MlsSize, VarInt};
use serde_json::{json, Value};
use std::collections::BTreeMap;

const P: &str = "C12";
const ALLOC_K: usize = 4096;
const ALLOC_C: usize = 1 << 20;

pub enum Decoded {
    Rejected,
    Accepted {
        consumed: Option<usize>,
        reenc: Result<Vec<u8>, String>,
        reported_len: usize,
        roundtrip_eq: bool,
    },
}

pub struct Target {
    pub name: &'static str,
    pub run: fn(&[u8]) -> Decoded,
    /// value contains hash-map backed collections: re-encoding may permute entries
    pub map_backed: bool,
    /// corpus keys (serialization.json fields / harvested kinds) holding valid inputs
    pub corpus: &'static [&'static str],
}

/// Values produced by the library in this run's live groups, per kind: the smallest (by length, then bytes) `HARVEST_CAP`
/// of each kind are kept, so that the set does not depend on the order in which the shards finish.
static HARVEST: std::sync::Mutex<BTreeMap<&'static str, std::collections::BTreeSet<(usize, Vec<u8>)>>> = std::sync::Mutex::new(BTreeMap::new());
const HARVEST_CAP: usize = 48;

fn harvest(kind: &'static str, bytes: Vec<u8>) {
    if bytes.is_empty() || bytes.len() > 1 << 16 {
        return;
    }
    let mut h = HARVEST.lock().unwrap();
    let set = h.entry(kind).or_default();
    set.insert((bytes.len(), bytes));
    while set.len() > HARVEST_CAP {
        let last = set.iter().next_back().cloned();
        if let Some(l) = last {
            set.remove(&l);
        }
    }
}

fn codec<T: MlsDecode + MlsEncode + MlsSize + PartialEq>(b: &[u8]) -> Decoded {
    let mut r = b;
    match T::mls_decode(&mut r) {
        Err(_) => Decoded::Rejected,
        Ok(v) => {
            let consumed = b.len() - r.len();
            let reenc = v.mls_encode_to_vec().map_err(|e| format!("{e:?}"));
            let reported_len = v.mls_encoded_len();
            let roundtrip_eq = reenc
                .as_ref()
                .ok()
                .map(|e| {
                    let mut r2 = &e[..];
                    matches!(T::mls_decode(&mut r2), Ok(v2) if v2 == v && r2.is_empty())
                })
                .unwrap_or(false);
            Decoded::Accepted {
                consumed: Some(consumed),
                reenc,
                reported_len,
                roundtrip_eq,
            }
        }
    }
}

fn t_exported_tree(b: &[u8]) -> Decoded {
    use mls_rs::group::ExportedTree;
    match ExportedTree::from_bytes(b) {
        Err(_) => Decoded::Rejected,
        Ok(v) => {
            let reenc = v.to_bytes().map_err(|e| format!("{e:?}"));
            let reported_len = v.byte_size();
            let roundtrip_eq = reenc
                .as_ref()
                .ok()
                .map(|e| matches!(ExportedTree::from_bytes(e), Ok(v2) if v2 == v))
                .unwrap_or(false);
            Decoded::Accepted {
                consumed: None,
                reenc,
                reported_len,
                roundtrip_eq,
            }
        }
    }
}

fn t_commit_secrets(b: &[u8]) -> Decoded {
    use mls_rs::group::CommitSecrets;
    match CommitSecrets::from_bytes(b) {
        Err(_) => Decoded::Rejected,
        Ok(v) => {
            let reenc = v.to_bytes().map_err(|e| format!("{e:?}"));
            let reported_len = reenc.as_ref().map(|e| e.len()).unwrap_or(0);
            let roundtrip_eq = reenc
                .as_ref()
                .ok()
                .map(|e| matches!(CommitSecrets::from_bytes(e), Ok(v2) if v2.to_bytes().ok().as_ref() == Some(e)))
                .unwrap_or(false);
            Decoded::Accepted {
                consumed: None,
                reenc,
                reported_len,
                roundtrip_eq,
            }
        }
    }
}

fn t_external_snapshot(b: &[u8]) -> Decoded {
    use mls_rs::external_client::ExternalSnapshot;
    match ExternalSnapshot::from_bytes(b) {
        Err(_) => Decoded::Rejected,
        Ok(v) => {
            let reenc = v.to_bytes().map_err(|e| format!("{e:?}"));
            let reported_len = reenc.as_ref().map(|e| e.len()).unwrap_or(0);
            let roundtrip_eq = reenc
                .as_ref()
                .ok()
                .map(|e| ExternalSnapshot::from_bytes(e).is_ok())
                .unwrap_or(false);
            Decoded::Accepted {
                consumed: None,
                reenc,
                reported_len,
                roundtrip_eq,
            }
        }
    }
}

fn t_cached_proposal(b: &[u8]) -> Decoded {
    use mls_rs::group::CachedProposal;
    match CachedProposal::from_bytes(b) {
        Err(_) => Decoded::Rejected,
        Ok(v) => {
            let reenc = v.to_bytes().map_err(|e| format!("{e:?}"));
            let reported_len = reenc.as_ref().map(|e| e.len()).unwrap_or(0);
            let roundtrip_eq = reenc
                .as_ref()
                .ok()
                .map(|e| matches!(CachedProposal::from_bytes(e), Ok(v2) if v2.to_bytes().ok().as_ref() == Some(e)))
                .unwrap_or(false);
            Decoded::Accepted {
                consumed: None,
                reenc,
                reported_len,
                roundtrip_eq,
            }
        }
    }
}

pub fn targets() -> Vec<Target> {
    use mls_rs::group::proposal as pr;
    vec![
        Target { name: "MlsMessage", run: codec::<mls_rs::MlsMessage>, map_backed: false,
                 corpus: &["mls_welcome", "mls_group_info", "mls_key_package", "public_message_application", "public_message_proposal", "public_message_commit", "private_message", "h_message"] },
        Target { name: "KeyPackage", run: codec::<mls_rs::KeyPackage>, map_backed: false, corpus: &["h_key_package"] },
        Target { name: "GroupInfo", run: codec::<mls_rs::group::GroupInfo>, map_backed: false, corpus: &["h_group_info"] },
        Target { name: "LeafNode", run: codec::<mls_rs::group::LeafNode>, map_backed: false, corpus: &["update_proposal", "h_leaf_node"] },
        Target { name: "Proposal", run: codec::<pr::Proposal>, map_backed: false, corpus: &["d_proposal", "h_proposal"] },
        Target { name: "AddProposal", run: codec::<pr::AddProposal>, map_backed: false, corpus: &["add_proposal"] },
        Target { name: "UpdateProposal", run: codec::<pr::UpdateProposal>, map_backed: false, corpus: &["update_proposal"] },
        Target { name: "RemoveProposal", run: codec::<pr::RemoveProposal>, map_backed: false, corpus: &["remove_proposal"] },
        Target { name: "PreSharedKeyProposal", run: codec::<pr::PreSharedKeyProposal>, map_backed: false, corpus: &["pre_shared_key_proposal"] },
        Target { name: "ReInitProposal", run: codec::<pr::ReInitProposal>, map_backed: false, corpus: &["re_init_proposal"] },
        Target { name: "ExternalInit", run: codec::<pr::ExternalInit>, map_backed: false, corpus: &["external_init_proposal"] },
        Target { name: "ExtensionList", run: codec::<mls_rs::ExtensionList>, map_backed: false, corpus: &["group_context_extensions_proposal"] },
        Target { name: "GroupContext", run: codec::<mls_rs::group::GroupContext>, map_backed: false, corpus: &["h_group_context"] },
        Target { name: "Capabilities", run: codec::<mls_rs::group::Capabilities>, map_backed: false, corpus: &["h_capabilities"] },
        Target { name: "Credential", run: codec::<mls_rs::identity::Credential>, map_backed: false, corpus: &["h_credential"] },
        Target { name: "SigningIdentity", run: codec::<mls_rs::identity::SigningIdentity>, map_backed: false, corpus: &["h_signing_identity"] },
        Target { name: "HpkeCiphertext", run: codec::<mls_rs::crypto::HpkeCiphertext>, map_backed: false, corpus: &[] },
        Target { name: "ExportedTree", run: t_exported_tree, map_backed: false, corpus: &["ratchet_tree", "h_tree"] },
        Target { name: "CommitSecrets", run: t_commit_secrets, map_backed: true, corpus: &["h_commit_secrets"] },
        Target { name: "ExternalSnapshot", run: t_external_snapshot, map_backed: true, corpus: &["h_external_snapshot"] },
        Target { name: "CachedProposal", run: t_cached_proposal, map_backed: false, corpus: &["h_cached_proposal"] },
        Target { name: "CommitMessageDescription", run: codec::<mls_rs::group::CommitMessageDescription>, map_backed: true, corpus: &["h_commit_description", "h_commit_description_removed", "h_commit_description_reinit"] },
        Target { name: "VecU32", run: codec::<Vec<u32>>, map_backed: false, corpus: &[] },
        Target { name: "VecVecU8", run: codec::<Vec<Vec<u8>>>, map_backed: false, corpus: &[] },
        Target { name: "OptionU16", run: codec::<Option<u16>>, map_backed: false, corpus: &[] },
        Target { name: "Bool", run: codec::<bool>, map_backed: false, corpus: &[] },
        Target { name: "VecBool", run: codec::<Vec<bool>>, map_backed: false, corpus: &[] },
    ]
}

pub type Corpus = BTreeMap<String, Vec<Vec<u8>>>;

pub fn load_corpus() -> Corpus {
    let mut c: Corpus = BTreeMap::new();
    let path = format!("{VERIF_ROOT}/vectors/serialization.json");
    if let Ok(s) = std::fs::read_to_string(&path) {
        if let Ok(Value::Array(cases)) = serde_json::from_str::<Value>(&s) {
            for (i, tc) in cases.iter().enumerate() {
                // the vector file has 300 cases; a spread of 60 is enough as mutation seeds
                if i % 5 != 0 {
                    continue;
                }
                if let Some(o) = tc.as_object() {
                    for (k, v) in o {
                        if let Some(h) = v.as_str() {
                            if let Ok(b) = hex::decode(h) {
                                c.entry(k.clone()).or_default().push(b);
                            }
                        }
                    }
                }
            }
        }
    }
    // Proposal = u16 type || body, assembled from the per-type vectors
    for (ty, key) in [(1u16, "add_proposal"), (2, "update_proposal"), (3, "remove_proposal"), (4, "pre_shared_key_proposal"), (5, "re_init_proposal"), (6, "external_init_proposal"), (7, "group_context_extensions_proposal")] {
        let items: Vec<Vec<u8>> = c.get(key).map(|v| v.iter().take(12).map(|b| [&ty.to_be_bytes()[..], b].concat()).collect()).unwrap_or_default();
        c.entry("d_proposal".into()).or_default().extend(items);
    }
    // harvested library-produced values: /verif/corpus/c12/<kind>/*.bin
    let root = format!("{VERIF_ROOT}/corpus/c12");
    if let Ok(rd) = std::fs::read_dir(&root) {
        for d in rd.filter_map(|e| e.ok()) {
            let kind = d.file_name().to_string_lossy().to_string();
            if let Ok(files) = std::fs::read_dir(d.path()) {
                let mut paths: Vec<_> = files.filter_map(|e| e.ok()).map(|e| e.path()).collect();
                paths.sort();
                for p in paths {
                    if let Ok(b) = std::fs::read(&p) {
                        c.entry(kind.clone()).or_default().push(b);
                    }
                }
            }
        }
    }
    c
}

/// Judge one (target, input): the full byte-level oracle of C12.
pub fn judge(t: &Target, input: &[u8], must_accept: bool, ev: &Evidence) -> CaseResult {
    let run = t.run;
    let (res, peak, single) = measure(|| catch(|| run(input)));
    ev.eval(1);
    let show = || hex::encode(&input[..input.len().min(96)]);
    let d = match res {
        Err(p) => {
            return ev.known_or_fail(&format!("{P}|panic|{}|{}", t.name, panic_signature(&p)), || {
                format!("decode panicked: {p}; input[{}]={}", input.len(), show())
            })
        }
        Ok(d) => d,
    };
    let bound = ALLOC_K * input.len() + ALLOC_C;
    if peak > bound {
        return ev.known_or_fail(&format!("{P}|alloc|{}", t.name), || {
            format!("peak heap growth {peak} B (largest request {single} B) for {} input bytes; input={}", input.len(), show())
        });
    }
    match d {
        Decoded::Rejected => {
            ev.class("rejected");
            if must_accept {
                return ev.known_or_fail(&format!("{P}|valid_rejected|{}", t.name), || {
                    format!("valid input rejected; input[{}]={}", input.len(), show())
                });
            }
        }
        Decoded::Accepted { consumed, reenc, reported_len, roundtrip_eq } => {
            ev.class("accepted");
            let enc = match reenc {
                Ok(e) => e,
                Err(e) => {
                    return ev.known_or_fail(&format!("{P}|decodable_not_reencodable|{}", t.name), || {
                        format!("decoded value fails to encode: {e}; input[{}]={}", input.len(), show())
                    })
                }
            };
            if reported_len != enc.len() {
                return ev.known_or_fail(&format!("{P}|encoded_len|{}", t.name), || {
                    format!("mls_encoded_len {reported_len} != bytes written {}; input={}", enc.len(), show())
                });
            }
            let prefix_ok = match consumed {
                Some(c) => c <= input.len() && enc[..] == input[..c],
                None => input.starts_with(&enc),
            };
            if !prefix_ok {
                let len_ok = match consumed {
                    Some(c) => c == enc.len(),
                    None => enc.len() <= input.len(),
                };
                // a permuted map has the same bytes in another order: same length, same decoded value, same byte histogram
                let same_bytes = || {
                    let mut a = enc.clone();
                    let mut b = input[..consumed.unwrap_or(input.len()).min(input.len())].to_vec();
                    a.sort_unstable();
                    b.sort_unstable();
                    a == b
                };
                if t.map_backed && len_ok && roundtrip_eq && (consumed.is_none() || same_bytes()) {
                    ev.class("accepted_map_permuted");
                } else {
                    return ev.known_or_fail(&format!("{P}|reencode_differs|{}", t.name), || {
                        let at = enc.iter().zip(input.iter()).position(|(a, b)| a != b).unwrap_or(enc.len().min(input.len()));
                        let lo = at.saturating_sub(12);
                        format!("decode accepted {consumed:?} bytes but value re-encodes to {} (len {}); input[{}]={}; first difference at byte {at}: input ..{}.. re-encoding ..{}..",
                            hex::encode(&enc[..enc.len().min(96)]), enc.len(), input.len(), show(), hex::encode(&input[lo..(at + 12).min(input.len())]), hex::encode(&enc[lo..(at + 12).min(enc.len())]))
                    });
                }
            }
            if !roundtrip_eq {
                return ev.known_or_fail(&format!("{P}|roundtrip|{}", t.name), || {
                    format!("decode(encode(v)) != v; input={}", show())
                });
            }
            if must_accept {
                if let Some(c) = consumed {
                    if c != input.len() {
                        return ev.known_or_fail(&format!("{P}|valid_not_fully_consumed|{}", t.name), || {
                            format!("consumed {c} of {}", input.len())
                        });
                    }
                }
            }
            ev.nontrivial(&(t.name, input));
        }
    }
    Ok(())
}

// --- structured values through the crate's `arbitrary` feature ---------------------------------

fn arb_one<T>(name: &str, raw: &[u8], ev: &Evidence) -> CaseResult
where
    T: for<'a> Arbitrary<'a> + MlsEncode + MlsSize + MlsDecode + PartialEq,
{
    let r = catch(|| {
        let mut u = Unstructured::new(raw);
        let v = T::arbitrary(&mut u).ok()?;
        let len = v.mls_encoded_len();
        let enc = v.mls_encode_to_vec();
        Some((len, enc.map_err(|e| format!("{e:?}"))))
    });
    ev.eval(1);
    match r {
        Err(p) => ev.known_or_fail(&format!("{P}|panic|arbitrary:{name}|{}", panic_signature(&p)), || {
            format!("encode/size of an arbitrary value panicked: {p}; raw={}", hex::encode(&raw[..raw.len().min(64)]))
        }),
        Ok(None) => {
            ev.class("arbitrary_not_generated");
            Ok(())
        }
        Ok(Some((_, Err(_)))) => {
            ev.class("arbitrary_unencodable");
            Ok(())
        }
        Ok(Some((len, Ok(enc)))) => {
            ev.class("arbitrary_encoded");
            if len != enc.len() {
                return ev.known_or_fail(&format!("{P}|encoded_len|arbitrary:{name}"), || {
                    format!("mls_encoded_len {len} != bytes written {}; encoding={}", enc.len(), hex::encode(&enc[..enc.len().min(96)]))
                });
            }
            if enc.len() >= 32 {
                ev.nontrivial(&(name, &enc));
            }
            ev.sample(&format!("arb:{name}"), || json!({"kind": "arbitrary value", "type": name, "encoded_len": enc.len(), "encoding_prefix": hex::encode(&enc[..enc.len().min(48)])}));
            // the encoding is also an input for the byte-level oracle
            let t = Target { name: "arbitrary-encoded", run: codec::<T>, map_backed: false, corpus: &[] };
            judge(&t, &enc, false, ev)
        }
    }
}

fn arbitrary_case(sel: u16, raw: &[u8], ev: &Evidence) -> CaseResult {
    match pick(sel, 12) {
        0 | 1 | 2 | 3 => arb_one::<mls_rs::MlsMessage>("MlsMessage", raw, ev),
        4 => arb_one::<mls_rs::KeyPackage>("KeyPackage", raw, ev),
        5 => arb_one::<mls_rs::group::GroupInfo>("GroupInfo", raw, ev),
        6 => arb_one::<mls_rs::group::LeafNode>("LeafNode", raw, ev),
        7 => arb_one::<mls_rs::ExtensionList>("ExtensionList", raw, ev),
        8 => arb_one::<mls_rs::group::GroupContext>("GroupContext", raw, ev),
        9 => arb_one::<mls_rs::group::Capabilities>("Capabilities", raw, ev),
        10 => arb_one::<mls_rs::identity::Credential>("Credential", raw, ev),
        _ => arb_one::<mls_rs::crypto::HpkeCiphertext>("HpkeCiphertext", raw, ev),
    }
}

// --- mutation of valid inputs ------------------------------------------------------------------

const VARINT_FORMS: &[&[u8]] = &[
    &[0xbf, 0xff, 0xff, 0xff], // maximal 4-byte length
    &[0x80, 0x01, 0x00, 0x00], // 65536
    &[0x40, 0x01],             // non-minimal 2-byte
    &[0x80, 0x00, 0x00, 0x01], // non-minimal 4-byte
    &[0xc0],                   // reserved prefix
    &[0xff, 0xff, 0xff, 0xff], // reserved prefix, all ones
    &[0x7f, 0xff],             // 16383
    &[0x3f],                   // 63
    &[0x00],
    &[0x80, 0x00, 0x40, 0x00], // minimal 4-byte (16384)
];

pub fn mutate(base: &[u8], ops: &[[u16; 5]], corpus_other: &[u8]) -> Vec<u8> {
    let mut b = base.to_vec();
    for op in ops {
        let n = b.len();
        let pos = pick(op[1], n.max(1));
        match pick(op[0], 9) {
            0 => {
                if n > 0 {
                    b[pos] ^= 1 << (op[2] % 8);
                }
            }
            1 => {
                if n > 0 {
                    b[pos] = op[2] as u8;
                }
            }
            2 => b.truncate(pos),
            3 => {
                let cnt = 1 + (op[2] % 8) as usize;
                let mut r = SplitMix::new(op[3] as u64, op[4] as u64);
                let ins = r.bytes(cnt);
                let at = pos.min(b.len());
                b.splice(at..at, ins);
            }
            4 => {
                if n > 0 {
                    let end = (pos + 1 + (op[2] % 16) as usize).min(n);
                    b.drain(pos..end);
                }
            }
            5 => {
                let f = VARINT_FORMS[pick(op[2], VARINT_FORMS.len())];
                for (i, x) in f.iter().enumerate() {
                    if pos + i < b.len() {
                        b[pos + i] = *x;
                    }
                }
            }
            6 => {
                let vals = [0xffffu16, 0, 8, 9, 0x0a0a, 0xf000, 6, 7];
                let v = vals[pick(op[2], vals.len())].to_be_bytes();
                for (i, x) in v.iter().enumerate() {
                    if pos + i < b.len() {
                        b[pos + i] = *x;
                    }
                }
            }
            7 => {
                // splice a range of another valid input
                if !corpus_other.is_empty() {
                    let s = pick(op[2], corpus_other.len());
                    let e = (s + 1 + pick(op[3], 64)).min(corpus_other.len());
                    let at = pos.min(b.len());
                    let end = (at + (e - s)).min(b.len());
                    b.splice(at..end, corpus_other[s..e].iter().copied());
                }
            }
            _ => {
                // insert a varint form (shifts everything after it)
                let f = VARINT_FORMS[pick(op[2], VARINT_FORMS.len())];
                let at = pos.min(b.len());
                b.splice(at..at, f.iter().copied());
            }
        }
    }
    b
}

fn run_case(case: &Case, targets: &[Target], corpus: &Corpus, ev: &Evidence) -> CaseResult {
    let mode = pick_weighted(case.c(1), &[2, 6, 1, 3]);
    let mut rng = SplitMix::new(((case.c(4) as u64) << 16) | case.c(5) as u64, 12);
    match mode {
        0 => {
            // uniform random bytes into every target family chosen by cfg[0]
            let t = &targets[pick(case.c(0), targets.len())];
            let len = pick(case.c(3), 512);
            let mut input = rng.bytes(len);
            // apply ops as overwrites so shrinking has something to remove
            input = mutate(&input, &case.ops, &[]);
            ev.class("mode_random");
            judge(t, &input, false, ev)
        }
        1 | 2 => {
            // mutated (or unchanged) valid input
            let with_corpus: Vec<&Target> = targets.iter().filter(|t| t.corpus.iter().any(|k| corpus.contains_key(*k))).collect();
            if with_corpus.is_empty() {
                return Ok(());
            }
            let t = with_corpus[pick(case.c(0), with_corpus.len())];
            let items: Vec<(&Vec<u8>, bool)> = t.corpus.iter().filter_map(|k| corpus.get(*k).map(|v| v.iter().map(move |x| (x, k.starts_with("h_"))))).flatten().collect();
            let (base, produced) = items[pick(case.c(2), items.len())];
            let other = items[pick(case.c(3), items.len())].0;
            if mode == 2 || case.ops.is_empty() {
                ev.class("mode_valid");
                ev.sample(&format!("valid:{}", t.name), || json!({"kind": "valid input, unchanged", "target": t.name, "len": base.len(), "prefix": hex::encode(&base[..base.len().min(32)])}));
                judge(t, base, produced, ev)
            } else {
                let input = mutate(base, &case.ops, other);
                ev.class("mode_mutated");
                ev.sample(&format!("mut:{}", t.name), || json!({"kind": "mutated valid input", "target": t.name, "ops": case.ops.len(), "len": input.len(), "prefix": hex::encode(&input[..input.len().min(32)])}));
                judge(t, &input, false, ev)
            }
        }
        _ => {
            let mut raw = rng.bytes(16 + pick(case.c(3), 3000));
            for (i, op) in case.ops.iter().enumerate() {
                for (j, x) in op.iter().enumerate() {
                    let k = (i * 10 + j * 2) % raw.len().max(1);
                    if k + 1 < raw.len() {
                        raw[k] = (*x >> 8) as u8;
                        raw[k + 1] = *x as u8;
                    }
                }
            }
            ev.class("mode_arbitrary");
            arbitrary_case(case.c(0), &raw, ev)
        }
    }
}

// --- variable-length integers (exhaustive) -------------------------------------------------------

/// Reference decoder of RFC 9000 §16 variable-length integers restricted as in RFC 9420 §2.1.2:
/// prefix 0b11 invalid, shortest form required. Returns (value, consumed).
fn ref_varint(b: &[u8]) -> Option<(u32, usize)> {
    let first = *b.first()?;
    let (len, min): (usize, u32) = match first >> 6 {
        0 => (1, 0),
        1 => (2, 64),
        2 => (4, 16384),
        _ => return None,
    };
    if b.len() < len {
        return None;
    }
    let mut v = (first & 0x3f) as u32;
    for x in &b[1..len] {
        v = (v << 8) | *x as u32;
    }
    if v < min {
        return None;
    }
    Some((v, len))
}

fn varint_check(input: &[u8], ev: &Evidence) -> CaseResult {
    let want = ref_varint(input);
    let got = catch(|| {
        let mut r = input;
        VarInt::mls_decode(&mut r).ok().map(|v| (u32::from(v), input.len() - r.len()))
    });
    ev.eval(1);
    let got = match got {
        Err(p) => return Err(Failure::new(format!("{P}|panic|VarInt|{}", panic_signature(&p)), format!("{p} input={}", hex::encode(input)))),
        Ok(g) => g,
    };
    if got != want {
        return ev.known_or_fail(&format!("{P}|varint"), || format!("input={} got {got:?} want {want:?}", hex::encode(input)));
    }
    if let Some((v, n)) = got {
        // re-encode is the shortest form == consumed bytes
        let enc = VarInt::try_from(v).ok().and_then(|x| x.mls_encode_to_vec().ok());
        if enc.as_deref() != Some(&input[..n]) {
            return ev.known_or_fail(&format!("{P}|varint_reencode"), || format!("input={} value {v}", hex::encode(input)));
        }
        ev.nontrivial(&("varint", v));
    }
    // a length prefix never reaches beyond the input: opaque<V> with this prefix and no body
    let r = catch(|| {
        let mut r = input;
        mls_rs::mls_rs_codec::byte_vec::mls_decode::<Vec<u8>>(&mut r).ok().map(|v| v.len())
    });
    match r {
        Err(p) => return Err(Failure::new(format!("{P}|panic|byte_vec|{}", panic_signature(&p)), format!("{p} input={}", hex::encode(input)))),
        Ok(Some(l)) => {
            let (v, n) = want.unwrap_or((0, 0));
            if want.is_none() || l as u32 != v || n + l > input.len() {
                return ev.known_or_fail(&format!("{P}|length_prefix_beyond_input"), || format!("input={} decoded {l} bytes", hex::encode(input)));
            }
        }
        Ok(None) => {}
    }
    Ok(())
}

/// Values whose encoded collections sit exactly on the boundaries of the variable-length size header (63/64, 16383/16384 bytes
/// of content), and proposals of the reserved types: encode, report the length, decode again.
fn boundary_values(ev: &Evidence) -> CaseResult {
    use mls_rs::group::proposal::{CustomProposal, Proposal, ProposalType};
    fn check<T: MlsDecode + MlsEncode + MlsSize + PartialEq>(what: &str, v: &T, ev: &Evidence) -> CaseResult {
        ev.eval(1);
        let enc = match v.mls_encode_to_vec() {
            Ok(e) => e,
            Err(_) => {
                ev.class(&format!("boundary:{what}:not_encodable"));
                return Ok(());
            }
        };
        if v.mls_encoded_len() != enc.len() {
            return Err(Failure::new(format!("{P}|boundary|{what}|mls_encoded_len_differs_from_bytes_written"), format!("reported {} written {}", v.mls_encoded_len(), enc.len())));
        }
        let mut rd = &enc[..];
        match T::mls_decode(&mut rd) {
            Ok(d) if d == *v && rd.is_empty() => {
                ev.class(&format!("boundary:{what}"));
                ev.nontrivial(&(what, enc.len()));
                Ok(())
            }
            Ok(_) => Err(Failure::new(format!("{P}|boundary|{what}|round_trip_differs"), format!("{} bytes", enc.len()))),
            Err(e) => Err(Failure::new(format!("{P}|boundary|{what}|own_encoding_does_not_decode"), format!("{} bytes: {e:?}", enc.len()))),
        }
    }
    let hdr = |d: usize| if d < 64 { 1 } else if d < 16384 { 2 } else { 4 };
    for target in [62usize, 63, 64, 65, 66, 16382, 16383, 16384, 16385, 16386] {
        // ExtensionList with one extension: content = type(2) + header(data) + data
        for d in target.saturating_sub(8)..=target {
            if 2 + hdr(d) + d == target {
                let mut l = mls_rs::ExtensionList::new();
                l.set(mls_rs::Extension::new(0xF0A0u16.into(), vec![0xAB; d]));
                check(&format!("ExtensionList_content_{target}"), &l, ev)?;
                // nested: the list inside a GroupContext extension vector inside a larger value
                let mut outer = mls_rs::ExtensionList::new();
                outer.set(mls_rs::Extension::new(0xF0A1u16.into(), l.mls_encode_to_vec().unwrap_or_default()));
                check(&format!("ExtensionList_nested_{target}"), &outer, ev)?;
            }
        }
        // a vector of u16-sized items: Capabilities.extensions
        if target % 2 == 0 {
            let caps = mls_rs::group::Capabilities { extensions: (0..target / 2).map(|i| (0xF000u16.wrapping_add(i as u16)).into()).collect(), ..Default::default() };
            check(&format!("Capabilities_extensions_content_{target}"), &caps, ev)?;
        }
    }
    // proposal types 0..=7 are reserved for the RFC's own proposals: a custom proposal of such a type must either not
    // encode, or round-trip
    for t in 0u16..=9 {
        let p = Proposal::Custom(CustomProposal::new(ProposalType::new(t), vec![1, 2, 3]));
        check(&format!("custom_proposal_type_{t}"), &p, ev)?;
    }
    Ok(())
}

fn varint_exhaustive(ev: &Evidence, tier: Tier, seed: u64) -> CaseResult {
    for a in 0..=255u8 {
        varint_check(&[a], ev)?;
        for b in 0..=255u8 {
            varint_check(&[a, b], ev)?;
        }
    }
    let mut rng = SplitMix::new(seed, 1212);
    let n = tier.pick(1u64 << 20, 1u64 << 24);
    for i in 0..n {
        let mut w = (rng.next() as u32).to_be_bytes();
        // half of the samples get the 4-byte prefix, the boundary region is over-sampled
        if i % 2 == 0 {
            w[0] = 0x80 | (w[0] & 0x3f);
        }
        if i % 8 == 0 {
            w[0] = 0x80;
            w[1] = 0;
            w[2] &= 0x7f;
        }
        varint_check(&w, ev)?;
    }
    for w in [[0x80u8, 0, 0x3f, 0xff], [0x80, 0, 0x40, 0], [0xbf, 0xff, 0xff, 0xff], [0xc0, 0, 0, 0], [0x7f, 0xff, 0, 0], [0x40, 0x3f, 0, 0], [0x40, 0x40, 0, 0]] {
        varint_check(&w, ev)?;
        varint_check(&w[..3], ev)?;
    }
    ev.sample("varint", || json!({"kind": "varint forms", "exhaustive": "all 1- and 2-byte inputs", "sampled_4_byte": n}));
    Ok(())
}

fn replay_payload(case: &Case) -> Value {
    json!({"kind": "case", "case": case.to_json()})
}

pub fn run(ctx: &Ctx) -> ! {
    let ev = Evidence::new(P, ctx.tier, ctx.seed, "exploration");
    ev.set_rule(
        "cases = (decode target, input) with inputs from four generators: uniform random bytes; valid inputs (IETF serialization vectors + \
         harvested library output) mutated by bit flips, byte sets, truncation, insertion, deletion, varint-form overwrites/insertions, \
         out-of-range discriminants and splices; valid inputs unchanged; values built by the crate's `arbitrary` feature, encoded, and fed back. \
         The library-made part of the valid corpus is harvested from this run's live groups (messages, key packages, GroupInfo objects, trees, leaf nodes, identities, capabilities, proposals, group contexts, commit secrets, commit descriptions by effect incl. ReInit; the 48 smallest of each kind). Oracle per input: no panic; peak heap growth <= 4096*len + 1 MiB; Ok(v) => encode(v) == consumed bytes, mls_encoded_len == bytes written, \
         decode(encode(v)) == v. Plus collections whose content length sits on the size-header boundaries (63/64, 16383/16384 bytes) and custom proposals of the reserved types 0-9. Plus every 1- and 2-byte varint form and sampled 4-byte forms against an RFC 9000 reference decoder. Plus the state a member stores \
         (snapshot incl. secret tree with skipped message keys, pending commit, pending updates, cached proposals; prior epochs) taken from generated group histories (hook): reported length == \
         bytes written, decodes completely, re-encodes to the same length, decoded value equal; the pending commit, which the snapshot carries as bytes, decodes completely and re-encodes to exactly those bytes. \
         Non-trivial = input that a decoder ACCEPTED (distinct by target+bytes), arbitrary value encoding to >= 32 bytes (distinct by encoding), accepted varint value.",
    );
    ev.assume("hash-map backed state types (CommitSecrets, ExternalSnapshot) may re-encode with permuted map entries: there equality of length and of the decoded value is required instead of byte equality");
    ev.assume("re-encode equality for from_bytes-only types is checked as 'encoding is a prefix of the input' (the API does not report how many bytes were consumed)");

    let targets = targets();
    let mut corpus = load_corpus();
    if ctx.replay.is_none() {
    // live member state from generated histories
        {
            let mut hp = crate::history::HistoryParams::standard(ctx.tier);
            hp.max_initial = 5;
            hp.weights = [6, 8, 6, 3, 2, 2, 3, 22, 3, 10, 3, 30];
            let spec = RunSpec { shards: 16, cases_per_shard: ctx.tier.pick(12, 300), cfg_len: crate::history::CFG_LEN, min_ops: 6, max_ops: ctx.tier.pick(24, 50), max_shrink_iters: 100 };
            if let Err(v) = run_sharded(&ev, &spec, 1212, &|case| live_state_case(case, &ev, &hp)) {
                let payload = v.case.as_ref().map(|c| json!({"kind": "live_state", "case": c.to_json()})).unwrap_or(Value::Null);
                finish_violation(&ev, v, payload);
            }
        }
        // what the live groups produced is the library-made part of the valid corpus (kinds `h_*`)
        for (kind, items) in HARVEST.lock().unwrap().iter() {
            corpus.entry(kind.to_string()).or_default().extend(items.iter().map(|(_, b)| b.clone()));
        }
    }
    ev.put_extra("corpus_items", json!(corpus.iter().map(|(k, v)| (k.clone(), v.len())).collect::<BTreeMap<_, _>>()));
    ev.put_extra("targets", json!(targets.iter().map(|t| t.name).collect::<Vec<_>>()));

    if let Some(path) = &ctx.replay {
        let v: Value = serde_json::from_str(&std::fs::read_to_string(path).unwrap_or_default()).unwrap_or_default();
        let r = replay_one(&v["case"], &targets, &corpus, &ev);
        return match r {
            Ok(()) => finish_ok(&ev),
            Err(f) => finish_violation(&ev, Violation { failure: f, case: None }, v["case"].clone()),
        };
    }

    // regression inputs first
    for (path, v) in load_replays(P) {
        if let Err(f) = replay_one(&v["case"], &targets, &corpus, &ev) {
            let _ = path;
            finish_violation(&ev, Violation { failure: f, case: None }, v["case"].clone());
        }
    }

    // every valid corpus item unchanged through every target that claims it (positive direction)
    for t in &targets {
        for k in t.corpus {
            if let Some(items) = corpus.get(*k) {
                for it in items {
                    // only library-produced (harvested, `h_*`) values are required to decode; IETF vectors
                    // contain values the library documents as out of range (e.g. leaf index >= 2^24)
                    if let Err(f) = judge(t, it, k.starts_with("h_"), &ev) {
                        finish_violation(&ev, Violation { failure: f, case: None }, json!({"kind": "bytes", "target": t.name, "bytes_hex": hex::encode(it)}));
                    }
                    // and every truncation point of a spread of items
                    if it.len() < 600 {
                        for cut in 0..it.len() {
                            if let Err(f) = judge(t, &it[..cut], false, &ev) {
                                finish_violation(&ev, Violation { failure: f, case: None }, json!({"kind": "bytes", "target": t.name, "bytes_hex": hex::encode(&it[..cut])}));
                            }
                        }
                        ev.class("truncation_sweeps");
                    }
                }
            }
        }
    }

    if let Err(f) = boundary_values(&ev) {
        finish_violation(&ev, Violation { failure: f, case: None }, json!({"kind": "boundary"}));
    }
    if let Err(f) = varint_exhaustive(&ev, ctx.tier, ctx.seed) {
        finish_violation(&ev, Violation { failure: f, case: None }, json!({"kind": "varint"}));
    }

    let spec = RunSpec {
        shards: 16,
        cases_per_shard: ctx.tier.pick(150_000, 3_000_000),
        cfg_len: 6,
        min_ops: 0,
        max_ops: 6,
        max_shrink_iters: 2000,
    };
    let r = run_sharded(&ev, &spec, 12, &|case| run_case(case, &targets, &corpus, &ev));
    if r.is_ok() && ctx.tier == Tier::Thorough {
        if let Err((f, payload)) = fuzz_stage(ctx, &ev) {
            finish_violation(&ev, Violation { failure: f, case: None }, payload);
        }
    }
    match r {
        Ok(()) => finish_ok(&ev),
        Err(v) => {
            let payload = v.case.as_ref().map(replay_payload).unwrap_or(Value::Null);
            finish_violation(&ev, v, payload)
        }
    }
}

// ---------------------------------------------------------------------------------------------
// live member state: the objects a member writes to storage (snapshot incl. secret tree with skipped message keys,
// pending commit, pending updates, cached proposals; prior epochs), taken from generated group histories through the
// hook `Group::verif_state_encodings`: reported length == bytes written, decodes again completely, re-encodes to the
// same length, decoded value equals the original.

struct LiveEnc<'e> {
    ev: &'e Evidence,
    checked: u64,
}

impl<'e> LiveEnc<'e> {
    fn check(&mut self, w: &crate::world::World, m: usize, site: &str) -> CaseResult {
        let g = w.parties[m].g();
        let encs = match crate::world::guard(|| g.verif_state_encodings()) {
            Ok(e) => e,
            Err(e) if e.is_panic() => return Err(crate::world::panic_failure(P, "encode member state", &e)),
            Err(e) => return Err(Failure::new(format!("{P}|live_state|encode_failed|{}", e.class()), e.text().to_string())),
        };
        for e in encs {
            self.ev.eval(1);
            self.checked += 1;
            let detail = || format!("{} of party {m} ({site}): mls_encoded_len {} encoding {} bytes, decodes {}, re-encodes to {} bytes, decoded value equal {}", e.what, e.reported_len, e.bytes.len(), e.decodes, e.reencoded_len, e.decoded_equal);
            if e.reported_len != e.bytes.len() {
                return Err(Failure::new(format!("{P}|live_state|{}|mls_encoded_len_differs_from_bytes_written", e.what), detail()));
            }
            if !e.decodes {
                return Err(Failure::new(format!("{P}|live_state|{}|own_encoding_does_not_decode", e.what), detail()));
            }
            if e.reencoded_len != e.bytes.len() || !e.decoded_equal {
                return Err(Failure::new(format!("{P}|live_state|{}|round_trip_differs", e.what), detail()));
            }
            self.ev.class(&format!("live_state:{}:{site}", e.what));
            self.ev.nontrivial(&(e.what, &e.bytes));
        }
        Ok(())
    }
    /// A commit description as the library reports it: exact length, round trip, and into the corpus.
    fn description(&mut self, d: &mls_rs::group::CommitMessageDescription, what: &str) -> CaseResult {
        let bytes = d.mls_encode_to_vec().map_err(|e| Failure::new(format!("{P}|live_state|commit_description|encode_failed"), format!("{e:?}")))?;
        self.ev.eval(1);
        if d.mls_encoded_len() != bytes.len() {
            return Err(Failure::new(
                format!("{P}|live_state|commit_description|mls_encoded_len_differs_from_bytes_written"),
                format!("{what}: mls_encoded_len {} but {} bytes written; effect {}", d.mls_encoded_len(), bytes.len(), format!("{:?}", d.effect).chars().take(24).collect::<String>()),
            ));
        }
        let mut r = &bytes[..];
        match mls_rs::group::CommitMessageDescription::mls_decode(&mut r) {
            Ok(d2) if r.is_empty() && d2 == *d => {}
            other => {
                return Err(Failure::new(
                    format!("{P}|live_state|commit_description|round_trip_differs"),
                    format!("{what}: decodes {} with {} bytes left, equal {}", other.is_ok(), r.len(), other.map(|x| x == *d).unwrap_or(false)),
                ))
            }
        }
        if let mls_rs::group::CommitEffect::NewEpoch(ne) = &d.effect {
            for p in ne.applied_proposals.iter().chain(ne.unused_proposals.iter()).take(4) {
                if let Ok(b) = p.proposal.mls_encode_to_vec() {
                    harvest("h_proposal", b);
                }
            }
        }
        self.ev.class(&format!("live_state:{}", what.replace(' ', "_")));
        harvest(
            match &d.effect {
                mls_rs::group::CommitEffect::Removed { .. } => "h_commit_description_removed",
                mls_rs::group::CommitEffect::ReInit(_) => "h_commit_description_reinit",
                _ => "h_commit_description",
            },
            bytes,
        );
        Ok(())
    }

    /// A ReInit commit built and received by copies of two members (the group goes on): its pending-commit encoding and
    /// the description the receiver gets (effect ReInit).
    fn reinit_probe(&mut self, w: &crate::world::World) -> CaseResult {
        let members = w.members();
        if members.len() < 2 {
            return Ok(());
        }
        let (a, b) = (members[0], members[1]);
        let t = w.now();
        let mut ca = w.parties[a].g().clone();
        if ca.has_pending_commit() {
            return Ok(());
        }
        let suite = w.cfg.suite;
        let Ok(out) = crate::world::guard(|| ca.commit_builder().reinit(Some(b"next".to_vec()), mls_rs::ProtocolVersion::MLS_10, mls_rs::CipherSuite::from(suite), mls_rs::ExtensionList::new())?.commit_time(t).build()) else {
            return Ok(());
        };
        if let Ok(encs) = crate::world::guard(|| ca.verif_state_encodings()) {
            for e in encs.iter().filter(|e| e.what == "pending_commit") {
                self.ev.eval(1);
                if e.reported_len != e.bytes.len() || !e.decodes || e.reencoded_len != e.bytes.len() || !e.decoded_equal {
                    return Err(Failure::new(
                        format!("{P}|live_state|pending_commit|{}", if e.reported_len != e.bytes.len() { "mls_encoded_len_differs_from_bytes_written" } else { "round_trip_differs" }),
                        format!("pending ReInit commit of party {a}: mls_encoded_len {} stored {} bytes, decodes {}, re-encodes to {} bytes", e.reported_len, e.bytes.len(), e.decodes, e.reencoded_len),
                    ));
                }
                self.ev.class("live_state:pending_commit:reinit");
            }
        }
        let mut cb = w.parties[b].g().clone();
        if let Ok(mls_rs::group::ReceivedMessage::Commit(d)) = crate::world::guard(|| cb.process_incoming_message_with_time(out.commit_message.clone(), t)) {
            self.description(&d, "commit description reinit")?;
        }
        Ok(())
    }

    fn all(&mut self, w: &crate::world::World, site: &str) -> CaseResult {
        for m in w.members() {
            self.check(w, m, site)?;
        }
        Ok(())
    }
}

impl<'e> crate::history::Observer for LiveEnc<'e> {
    fn on_start(&mut self, w: &mut crate::world::World) {
        w.keep_wire_log = true;
    }
    fn after_commit(&mut self, w: &mut crate::world::World, _i: &crate::world::CommitInfo, _s: &crate::history::HistoryStats) -> CaseResult {
        // harvest what the library produced in this epoch: it is the valid corpus of the byte-level part below
        for (kind, bytes) in w.wire_log.drain(..) {
            match kind {
                "tree" => harvest("h_tree", bytes),
                _ => harvest("h_message", bytes),
            }
        }
        if let Some(m) = w.members().first().copied() {
            let g = w.parties[m].g();
            if let Ok(b) = g.context().mls_encode_to_vec() {
                harvest("h_group_context", b);
            }
            if let Ok(gi) = crate::world::guard(|| g.group_info_message(true)) {
                if let Ok(b) = gi.to_bytes() {
                    harvest("h_message", b);
                }
            }
            if let Ok(b) = g.export_tree().to_bytes() {
                harvest("h_tree", b);
            }
            // the parts: leaf nodes of the tree, the members' identities and capabilities, key packages and GroupInfo objects
            let tree = g.export_tree();
            for (i, _) in tree.nodes().iter().enumerate().step_by(2).take(6) {
                if let Ok(li) = mls_rs::verif_hooks::LeafIndex::try_from((i / 2) as u32) {
                    if let Ok(Some(l)) = tree.get_leaf(li) {
                        if let Ok(b) = l.mls_encode_to_vec() {
                            harvest("h_leaf_node", b);
                        }
                    }
                }
            }
            for mem in g.roster().members().iter().take(4) {
                if let Ok(b) = mem.signing_identity.mls_encode_to_vec() {
                    harvest("h_signing_identity", b);
                }
                if let Ok(b) = mem.signing_identity.credential.mls_encode_to_vec() {
                    harvest("h_credential", b);
                }
                if let Ok(b) = mem.capabilities.mls_encode_to_vec() {
                    harvest("h_capabilities", b);
                }
            }
            if let Ok(gi) = crate::world::guard(|| g.group_info_message(false)) {
                if let Some(b) = gi.into_group_info().and_then(|x| x.mls_encode_to_vec().ok()) {
                    harvest("h_group_info", b);
                }
            }
            for kps in w.all_kps.values() {
                for kp in kps.iter().rev().take(1) {
                    if let Some(b) = mls_rs::MlsMessage::from_bytes(kp).ok().and_then(|m| m.into_key_package()).and_then(|k| k.mls_encode_to_vec().ok()) {
                        harvest("h_key_package", b);
                    }
                }
            }
            let mut c = g.clone();
            let t = w.now();
            if let Ok((_, secrets)) = crate::world::guard(|| c.commit_builder().commit_time(t).build_detached()) {
                if let Ok(b) = secrets.to_bytes() {
                    harvest("h_commit_secrets", b);
                }
            }
        }
        if w.epoch % 3 == 0 {
            self.reinit_probe(w)?;
        }
        self.all(w, "after_commit")
    }
    fn before_receive_commit(&mut self, w: &mut crate::world::World, m: usize, bytes: &[u8]) -> CaseResult {
        // the description of the commit as this receiver will report it
        let mut c = w.parties[m].g().clone();
        let t = w.now();
        if let Ok(mls_rs::group::ReceivedMessage::Commit(d)) = crate::world::guard(|| c.process_incoming_message_with_time(mls_rs::MlsMessage::from_bytes(bytes)?, t)) {
            self.description(&d, "commit description")?;
        }
        Ok(())
    }
    fn before_commit(&mut self, w: &mut crate::world::World, _c: usize) -> CaseResult {
        self.all(w, "with_cached_proposals")
    }
    fn after_build(&mut self, w: &mut crate::world::World, c: usize) -> CaseResult {
        self.check(w, c, "with_pending_commit")
    }
    fn extra_op(&mut self, w: &mut crate::world::World, op: &[u16; 5], _n: &mut crate::history::EpochNotes) -> CaseResult {
        // out-of-order delivery: the receiver holds skipped message keys
        let members = w.members();
        if members.len() < 2 {
            return Ok(());
        }
        let m = members[pick(op[1], members.len())];
        let others: Vec<usize> = members.iter().copied().filter(|x| *x != m).collect();
        let s = others[pick(op[2], others.len())];
        w.flush(op[4])?;
        if w.parties[s].g().commit_required() || w.parties[m].g().current_epoch() != w.parties[s].g().current_epoch() {
            return Ok(());
        }
        let n = 2 + (op[3] % 4) as usize;
        let mut fl = vec![];
        for i in 0..n {
            w.send_app(s, vec![i as u8; 3 + i], vec![]).map_err(|e| crate::history::op_failure(P, "encrypt_application_message", &e))?;
            fl.push(w.inflight.pop().expect("flight"));
        }
        let last = fl.len() - 1;
        let r = w.process(m, &fl[last].bytes);
        w.check_genuine(m, &fl[last], r)?;
        self.check(w, m, "with_skipped_message_keys")?;
        for f in &fl[..last] {
            let r = w.process(m, &f.bytes);
            w.check_genuine(m, f, r)?;
        }
        for o in members.iter().copied().filter(|x| *x != m && *x != s) {
            for f in &fl {
                let r = w.process(o, &f.bytes);
                w.check_genuine(o, f, r)?;
            }
        }
        Ok(())
    }
}

fn live_state_case(case: &Case, ev: &Evidence, hp: &crate::history::HistoryParams) -> CaseResult {
    let mut obs = LiveEnc { ev, checked: 0 };
    let mut h = crate::history::History::start(P, case, hp)?;
    h.grow_initial(case, &mut obs)?;
    h.run_ops(case, &mut obs)?;
    ev.class_n("live_state_objects_checked", obs.checked);
    Ok(())
}

// ---------------------------------------------------------------------------------------------
// coverage-guided stage (thorough tier): libFuzzer target harness/fuzz/fuzz_targets/decode.rs, seeded with the IETF
// vectors, bounded by a run count. The oracle is inside the target; a crash artifact becomes a replay file for the
// in-process judge. Tooling trouble (no nightly, build failure, time-out) is reported and never counted as a violation.

fn fuzz_stage(ctx: &Ctx, ev: &Evidence) -> Result<(), (Failure, Value)> {
    use std::process::Command;
    let root = format!("{}/harness/fuzz", VERIF_ROOT);
    let art = format!("{root}/artifacts/decode");
    let _ = std::fs::remove_dir_all(&art);
    for e in std::fs::read_dir(&root).into_iter().flatten().flatten() {
        if e.file_name().to_string_lossy().starts_with("fuzz-") {
            let _ = std::fs::remove_file(e.path());
        }
    }
    let seeded = Command::new("python3").arg(format!("{}/tools/fuzz_seed_corpus.py", VERIF_ROOT)).output();
    if !seeded.map(|o| o.status.success()).unwrap_or(false) {
        ev.put_extra("fuzz_stage", json!({"status": "unavailable", "why": "seed corpus script failed"}));
        println!("NOTE property={P}: coverage-guided stage unavailable (seed corpus)");
        return Ok(());
    }
    let runs: u64 = std::env::var("VERIF_FUZZ_RUNS").ok().and_then(|v| v.parse().ok()).unwrap_or(400_000);
    let jobs = 12;
    let build = Command::new("cargo").args(["+nightly", "fuzz", "build", "decode"]).current_dir(&root).env("CARGO_NET_OFFLINE", "true").output();
    match build {
        Ok(o) if o.status.success() => {}
        other => {
            let why = other.map(|o| String::from_utf8_lossy(&o.stderr).lines().rev().take(3).collect::<Vec<_>>().join(" | ")).unwrap_or_else(|e| e.to_string());
            ev.put_extra("fuzz_stage", json!({"status": "unavailable", "why": why}));
            println!("NOTE property={P}: coverage-guided stage unavailable (cargo +nightly fuzz build failed)");
            return Ok(());
        }
    }
    let t0 = std::time::Instant::now();
    let out = Command::new("cargo")
        .args(["+nightly", "fuzz", "run", "decode", "--"])
        .args([format!("-runs={runs}"), format!("-seed={}", (ctx.seed % 0x7fff_fffe) + 1), "-max_len=4096".into(), "-len_control=0".into(), format!("-jobs={jobs}"), format!("-workers={jobs}")])
        .current_dir(&root)
        .env("CARGO_NET_OFFLINE", "true")
        .output();
    let secs = t0.elapsed().as_secs();
    let crashes: Vec<std::path::PathBuf> = std::fs::read_dir(&art).into_iter().flatten().flatten().map(|e| e.path()).filter(|p| p.file_name().map(|n| n.to_string_lossy().starts_with("crash-")).unwrap_or(false)).collect();
    // what the target said
    let mut message = String::new();
    let mut execs = 0u64;
    for e in std::fs::read_dir(&root).into_iter().flatten().flatten() {
        if e.file_name().to_string_lossy().starts_with("fuzz-") {
            let log = std::fs::read_to_string(e.path()).unwrap_or_default();
            for l in log.lines() {
                if let Some(n) = l.strip_prefix("Done ").and_then(|r| r.split(' ').next()) {
                    execs += n.trim().parse::<u64>().unwrap_or(0);
                }
            }
            if message.is_empty() {
                let lines: Vec<&str> = log.lines().collect();
                if let Some(i) = lines.iter().position(|l| l.contains("panicked at")) {
                    message = lines[i..(i + 3).min(lines.len())].join(" ");
                }
            }
        }
    }
    ev.eval(execs);
    ev.class_n("fuzz_stage_executions", execs);
    ev.put_extra("fuzz_stage", json!({"status": if crashes.is_empty() { "clean" } else { "crash" }, "engine": "libFuzzer via cargo-fuzz", "target": "harness/fuzz/fuzz_targets/decode.rs", "jobs": jobs, "runs_per_job": runs, "executions": execs, "wall_s": secs, "exit_ok": out.as_ref().map(|o| o.status.success()).unwrap_or(false)}));
    if let Some(c) = crashes.first() {
        let data = std::fs::read(c).unwrap_or_default();
        let (sel, body) = data.split_first().map(|(a, b)| (*a, b.to_vec())).unwrap_or((0, vec![]));
        let target = if sel % 4 == 2 { "ExportedTree" } else { "MlsMessage" };
        let what = message.split("MlsMessage").next().unwrap_or("").len();
        let _ = what;
        let short: String = message.chars().filter(|c| !c.is_ascii_digit()).take(120).collect();
        return Err((Failure::new(format!("{P}|fuzz_target|{}", short.trim()), format!("libFuzzer artifact {}: {message}", c.display())), json!({"kind": "bytes", "target": target, "bytes_hex": hex::encode(body)})));
    }
    if !out.map(|o| o.status.success()).unwrap_or(false) && execs == 0 {
        println!("NOTE property={P}: coverage-guided stage did not run to completion");
    }
    Ok(())
}

fn replay_one(v: &Value, targets: &[Target], corpus: &Corpus, ev: &Evidence) -> CaseResult {
    match v["kind"].as_str() {
        Some("boundary") => boundary_values(ev),
        Some("live_state") => {
            let mut hp = crate::history::HistoryParams::standard(Tier::Quick);
            hp.max_initial = 5;
            hp.weights = [6, 8, 6, 3, 2, 2, 3, 22, 3, 10, 3, 30];
            match Case::from_json(&v["case"]) {
                Some(c) => live_state_case(&c, ev, &hp),
                None => Ok(()),
            }
        }
        Some("bytes") => {
            let name = v["target"].as_str().unwrap_or("MlsMessage");
            let bytes = hex::decode(v["bytes_hex"].as_str().unwrap_or("")).unwrap_or_default();
            match targets.iter().find(|t| t.name == name) {
                Some(t) => judge(t, &bytes, false, ev),
                None => Ok(()),
            }
        }
        Some("case") => match Case::from_json(&v["case"]) {
            Some(c) => run_case(&c, targets, corpus, ev),
            None => Ok(()),
        },
        Some("varint") => varint_exhaustive(ev, Tier::Quick, 0),
        _ => Ok(()),
    }
}
