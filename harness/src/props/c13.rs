//! C13 — key schedule, secret tree, PSK and transcript values equal the RFC 9420 formulas.
use crate::engine::*;
use crate::providers::{raw_suite, Inner, ProviderKind, VCrypto};
use crate::refmodel::keysched as rk;
use crate::refmodel::keysched::{PskIdRef, Suite};
use crate::refmodel::wire;
use crate::world::*;
use crate::Ctx;
use mls_rs::group::GroupContext;
use mls_rs::mls_rs_codec::{MlsDecode, MlsEncode};
use mls_rs::verif_hooks as hk;
use mls_rs::verif_hooks::VerifPskId;
use mls_rs::{CipherSuite, CryptoProvider, MlsMessage};
use serde_json::json;

const P: &str = "C13";

fn fail(what: &str, suite: u16, prov: ProviderKind, detail: String) -> Failure {
    Failure::new(format!("{P}|{what}"), format!("suite {suite} provider {}: {detail}", prov.name()))
}

fn cmp(what: &str, suite: u16, prov: ProviderKind, got: &[u8], want: &[u8], input: impl FnOnce() -> String) -> CaseResult {
    if got != want {
        return Err(fail(what, suite, prov, format!("library {} != reference {}; {}", hex::encode(got), hex::encode(want), input())));
    }
    Ok(())
}

fn providers_for(suite: u16) -> Vec<ProviderKind> {
    ProviderKind::ALL.iter().copied().filter(|p| p.suites().contains(&suite)).collect()
}

fn pure_case(case: &Case, ev: &Evidence) -> CaseResult {
    let suites = [1u16, 2, 3, 7, 5, 4, 6];
    let suite = suites[pick(case.c(0), suites.len())];
    let provs = providers_for(suite);
    let prov = provs[pick(case.c(1), provs.len())];
    let crypto = VCrypto::new(prov);
    let cs = crypto.cipher_suite_provider(CipherSuite::from(suite)).expect("suite");
    let s = Suite::new(suite);
    let nh = s.nh();
    let mut rng = SplitMix::new(((case.c(2) as u64) << 32) | ((case.c(3) as u64) << 16) | case.c(4) as u64, 13);
    // ops perturb the stream so that shrinking has something to drop
    for op in &case.ops {
        rng.perturb((op[0] as u64) << 7 | (op[1] as u64) << 23);
    }
    ev.eval(1);
    let sub = pick(case.c(5), 7);
    match sub {
        0 | 1 => {
            // full key schedule step
            let init = rng.bytes(nh);
            let commit_secret = if rng.below(4) == 0 { vec![0u8; nh] } else { rng.bytes(nh) };
            let psk = if rng.below(3) == 0 { vec![0u8; nh] } else { rng.bytes(nh) };
            let n_ext = rng.below(4) as usize;
            let exts: Vec<(u16, Vec<u8>)> = (0..n_ext).map(|i| (0xF000 + i as u16, { let l = rng.below(70) as usize; rng.bytes(l) })).collect();
            let gid_len = rng.below(70) as usize;
            let ctx_bytes = rk::encode_group_context(suite, &rng.bytes(gid_len), rng.next(), &rng.bytes(nh), &rng.bytes(nh), &exts);
            let ctx = GroupContext::mls_decode(&mut &ctx_bytes[..]).map_err(|e| fail("reference_context_rejected", suite, prov, format!("{e:?}")))?;
            if ctx.mls_encode_to_vec().ok().as_deref() != Some(&ctx_bytes[..]) {
                return Err(fail("group_context_encoding", suite, prov, "GroupContext re-encodes differently from the RFC layout".into()));
            }
            let leaves = 1u32 << rng.below(11);
            let got = hk::key_schedule(&cs, &init, &commit_secret, &ctx, leaves, &psk).map_err(|e| fail("library_error", suite, prov, format!("{e:?}")))?;
            let want = rk::key_schedule(&s, &init, &commit_secret, &ctx_bytes, &psk);
            let inp = || format!("init={} commit_secret={} psk={} ctx={}", hex::encode(&init), hex::encode(&commit_secret), hex::encode(&psk), hex::encode(&ctx_bytes));
            cmp("joiner_secret", suite, prov, &got.joiner_secret, &want.joiner_secret, inp)?;
            cmp("welcome_key", suite, prov, &got.welcome_key, &want.welcome_key, inp)?;
            cmp("welcome_nonce", suite, prov, &got.welcome_nonce, &want.welcome_nonce, inp)?;
            cmp("confirmation_key", suite, prov, &got.confirmation_key, &want.confirmation_key, inp)?;
            cmp("sender_data_secret", suite, prov, &got.sender_data_secret, &want.sender_data_secret, inp)?;
            cmp("resumption_psk", suite, prov, &got.resumption_secret, &want.resumption_psk, inp)?;
            cmp("encryption_secret", suite, prov, &got.encryption_secret, &want.encryption_secret, inp)?;
            cmp("exporter_secret", suite, prov, &got.parts.exporter_secret, &want.exporter_secret, inp)?;
            cmp("authentication_secret", suite, prov, &got.parts.authentication_secret, &want.epoch_authenticator, inp)?;
            cmp("external_secret", suite, prov, &got.parts.external_secret, &want.external_secret, inp)?;
            cmp("membership_key", suite, prov, &got.parts.membership_key, &want.membership_key, inp)?;
            cmp("init_secret", suite, prov, &got.parts.init_secret, &want.init_secret, inp)?;
            ev.class("key_schedule_steps");
            if psk != vec![0u8; nh] {
                ev.nontrivial(&("ks", &init, &ctx_bytes));
            }
            ev.sample("ks", || json!({"kind": "key schedule step", "suite": suite, "provider": prov.name(), "leaves": leaves, "context_len": ctx_bytes.len(), "init_secret": hex::encode(&init)}));
        }
        2 => {
            // PSK chain
            let n = rng.below(6) as usize;
            let mut lib = vec![];
            let mut rf = vec![];
            for _ in 0..n {
                let nonce = { let l = if rng.below(4) == 0 { rng.below(50) as usize } else { nh }; rng.bytes(l) };
                let value = { let l = 1 + rng.below(80) as usize; rng.bytes(l) };
                if rng.below(2) == 0 {
                    let id = { let l = rng.below(40) as usize; rng.bytes(l) };
                    lib.push((VerifPskId::External { id: id.clone(), nonce: nonce.clone() }, value.clone()));
                    rf.push((PskIdRef::External { id, nonce }, value));
                } else {
                    let usage = 1 + rng.below(3) as u8;
                    let gid = { let l = rng.below(40) as usize; rng.bytes(l) };
                    let epoch = rng.next();
                    lib.push((VerifPskId::Resumption { usage, group_id: gid.clone(), epoch, nonce: nonce.clone() }, value.clone()));
                    rf.push((PskIdRef::Resumption { usage, group_id: gid, epoch, nonce }, value));
                }
            }
            let got = hk::psk_secret(&cs, &lib).map_err(|e| fail("library_error", suite, prov, format!("{e:?}")))?;
            let want = rk::psk_secret(&s, &rf);
            cmp("psk_secret", suite, prov, &got, &want, || format!("{n} psks: {rf:?}"))?;
            ev.class(&format!("psk_lists_len_{n}"));
            if n >= 1 {
                ev.nontrivial(&("psk", &got));
            }
            ev.sample("psk", || json!({"kind": "psk secret", "suite": suite, "provider": prov.name(), "count": n}));
        }
        3 | 4 => {
            // secret tree: node secrets on the path and per-generation key / nonce
            let k = rng.below(11) as u32;
            let leaves = 1u32 << k;
            let leaf = rng.below(leaves as u64) as u32;
            let enc = rng.bytes(nh);
            let generation = match rng.below(5) {
                0 => 0,
                1 => rng.below(4) as u32,
                2 => rng.below(60) as u32,
                3 => 1000 + rng.below(60) as u32,
                _ => rng.below(2001) as u32,
            };
            let handshake = rng.below(2) == 0;
            let got = hk::secret_tree_key(&cs, &enc, leaves, leaf, handshake, generation).map_err(|e| fail("library_error", suite, prov, format!("{e:?}")))?;
            let want = rk::ratchet_key(&s, &enc, leaves, leaf, handshake, generation);
            let inp = || format!("encryption_secret={} leaves={leaves} leaf={leaf} handshake={handshake} generation={generation}", hex::encode(&enc));
            cmp("ratchet_key", suite, prov, &got.0, &want.0, inp)?;
            cmp("ratchet_nonce", suite, prov, &got.1, &want.1, inp)?;
            let nodes = hk::secret_tree_nodes(&cs, &enc, leaves, leaf).map_err(|e| fail("library_error", suite, prov, format!("{e:?}")))?;
            for (node, secret) in &nodes {
                let w = rk::secret_tree_node(&s, &enc, leaves, *node);
                cmp("secret_tree_node", suite, prov, secret, &w, || format!("node {node}; {}", inp()))?;
            }
            if nodes.len() != k as usize + 1 {
                return Err(fail("secret_tree_node_count", suite, prov, format!("{} node secrets held after deriving to a leaf of a 2^{k} tree", nodes.len())));
            }
            ev.class("secret_tree_keys");
            if generation > 0 || !leaves.is_power_of_two() || leaf > 0 {
                ev.nontrivial(&("st", &enc, leaf, generation, handshake));
            }
            ev.sample("st", || json!({"kind": "secret tree key", "suite": suite, "provider": prov.name(), "leaves": leaves, "leaf": leaf, "generation": generation, "handshake": handshake}));
        }
        5 => {
            // exporter, sender-data key, tags, transcript
            let exporter_secret = rng.bytes(nh);
            let label = { let l = rng.below(50) as usize; rng.bytes(l) };
            let context = { let l = rng.below(200) as usize; rng.bytes(l) };
            let max = 255 * nh;
            let len = match rng.below(6) {
                0 => 0,
                1 => max,
                2 => max + 1,
                3 => rng.below(40) as usize,
                _ => rng.below(max as u64 + 1) as usize,
            };
            match catch(|| hk::export_secret(&cs, &exporter_secret, &label, &context, len)) {
                Err(p) => return Err(Failure::new(format!("{P}|panic|export_secret|{}", panic_signature(&p)), format!("len {len}: {p}"))),
                Ok(Ok(got)) => {
                    if len > max {
                        return Err(fail("export_beyond_hkdf_limit_accepted", suite, prov, format!("len {len} > 255*Nh")));
                    }
                    let want = rk::exporter(&s, &exporter_secret, &label, &context, len);
                    cmp("exported_secret", suite, prov, &got, &want, || format!("label {} context {} len {len}", hex::encode(&label), hex::encode(&context)))?;
                    ev.nontrivial(&("exp", &got, len));
                }
                Ok(Err(_)) => {
                    if len <= max && len > 0 {
                        return Err(fail("export_refused", suite, prov, format!("len {len}")));
                    }
                    ev.class("export_len_refused");
                }
            }
            let sds = rng.bytes(nh);
            let ct = { let l = rng.below(3 * nh as u64) as usize; rng.bytes(l) };
            let got = hk::sender_data_key(&cs, &sds, &ct).map_err(|e| fail("library_error", suite, prov, format!("{e:?}")))?;
            let want = rk::sender_data_key(&s, &sds, &ct);
            cmp("sender_data_key", suite, prov, &got.0, &want.0, || format!("ciphertext len {}", ct.len()))?;
            cmp("sender_data_nonce", suite, prov, &got.1, &want.1, || format!("ciphertext len {}", ct.len()))?;
            let key = rng.bytes(nh);
            let cth = { let l = if rng.below(4) == 0 { rng.below(100) as usize } else { nh }; rng.bytes(l) };
            let got = hk::confirmation_tag(&cs, &key, &cth).map_err(|e| fail("library_error", suite, prov, format!("{e:?}")))?;
            cmp("confirmation_tag", suite, prov, &got, &rk::confirmation_tag(&s, &key, &cth), || String::new())?;
            let tag = rng.bytes(nh);
            let got = hk::interim_transcript_hash(&cs, &cth, &tag).map_err(|e| fail("library_error", suite, prov, format!("{e:?}")))?;
            cmp("interim_transcript_hash", suite, prov, &got, &rk::interim_transcript_hash(&s, &cth, &tag), || String::new())?;
            ev.class("exporter_senderdata_tags");
            ev.sample("exp", || json!({"kind": "exporter/sender-data/tags", "suite": suite, "provider": prov.name(), "export_len": len, "ciphertext_len": ct.len()}));
        }
        _ => {
            // ExpandWithLabel with arbitrary label / context / length
            let secret = rng.bytes(nh);
            let label = { let l = rng.below(60) as usize; rng.bytes(l) };
            let context = { let l = rng.below(300) as usize; rng.bytes(l) };
            let len = 1 + rng.below(3 * nh as u64) as usize;
            let got = hk::expand_with_label(&cs, &secret, &label, &context, Some(len)).map_err(|e| fail("library_error", suite, prov, format!("{e:?}")))?;
            cmp("expand_with_label", suite, prov, &got, &s.expand_with_label(&secret, &label, &context, len), || format!("label {} ctx {} len {len}", hex::encode(&label), hex::encode(&context)))?;
            ev.class("expand_with_label");
            ev.nontrivial(&("ewl", &got, len));
        }
    }
    // the raw primitives the reference relies on agree with the provider (guards the comparison itself)
    if let Some(Inner::O(_)) = raw_suite(ProviderKind::OpenSsl, CipherSuite::from(suite)) {}
    Ok(())
}

/// The reference's own decryption of a commit sent as PrivateMessage (RFC 9420 §6.3), re-framed as the PublicMessage the
/// sender would have sent (dummy membership tag): sender data key from the ciphertext sample, sender data, handshake
/// ratchet key and nonce of the sender's leaf at the announced generation, reuse guard, content, padding check.
fn decrypt_private_commit(s: &Suite, cs: &crate::providers::VSuite, msg: &[u8], keys: &mls_rs::verif_hooks::VerifEpochKeys, expect_leaf: u32) -> Option<Vec<u8>> {
    use crate::refmodel::tls::{put_opaque, Reader};
    let mut r = Reader::new(msg);
    let version = r.u16()?;
    if r.u16()? != 2 {
        return None;
    }
    let group_id = r.opaque()?.to_vec();
    let epoch = r.u64()?;
    let content_type = r.u8()?;
    let authenticated_data = r.opaque()?.to_vec();
    let esd = r.opaque()?.to_vec();
    let ciphertext = r.opaque()?.to_vec();
    if !r.is_empty() || content_type != 3 {
        return None;
    }
    let (sd_key, sd_nonce) = rk::sender_data_key(s, &keys.sender_data_secret, &ciphertext);
    let mut sd_aad = vec![];
    put_opaque(&mut sd_aad, &group_id);
    sd_aad.extend_from_slice(&epoch.to_be_bytes());
    sd_aad.push(content_type);
    let sd = mls_rs::CipherSuiteProvider::aead_open(cs, &sd_key, &esd, Some(&sd_aad), &sd_nonce).ok()?;
    let mut d = Reader::new(&sd);
    let leaf = d.u32()?;
    let generation = d.u32()?;
    let guard = d.take(4)?.to_vec();
    if leaf != expect_leaf {
        return None;
    }
    let root = keys.secret_tree_leaf_count - 1;
    let enc_secret = keys.secret_tree_nodes.iter().find(|(n, _)| *n == root).map(|(_, v)| v.clone())?;
    let (key, mut nonce) = rk::ratchet_key(s, &enc_secret, keys.secret_tree_leaf_count, leaf, true, generation);
    for i in 0..4 {
        nonce[i] ^= guard[i];
    }
    let mut aad = vec![];
    put_opaque(&mut aad, &group_id);
    aad.extend_from_slice(&epoch.to_be_bytes());
    aad.push(content_type);
    put_opaque(&mut aad, &authenticated_data);
    let content = mls_rs::CipherSuiteProvider::aead_open(cs, &key, &ciphertext, Some(&aad), &nonce).ok()?;
    let clen = wire::commit_len(&content)?;
    let mut t = Reader::new(&content[clen..]);
    let signature = t.opaque()?.to_vec();
    let tag = t.opaque()?.to_vec();
    if content[clen + t.pos..].iter().any(|b| *b != 0) {
        return None;
    }
    let mut out = vec![];
    out.extend_from_slice(&version.to_be_bytes());
    out.extend_from_slice(&1u16.to_be_bytes());
    put_opaque(&mut out, &group_id);
    out.extend_from_slice(&epoch.to_be_bytes());
    out.push(1);
    out.extend_from_slice(&leaf.to_be_bytes());
    put_opaque(&mut out, &authenticated_data);
    out.push(content_type);
    out.extend_from_slice(&content[..clen]);
    put_opaque(&mut out, &signature);
    put_opaque(&mut out, &tag);
    put_opaque(&mut out, &[0u8; 32]);
    Some(out)
}

fn psk_value(id: &[u8]) -> Vec<u8> {
    let mut v = vec![0x5a; 32];
    for (i, b) in id.iter().enumerate() {
        v[i % 32] ^= *b;
    }
    v
}

/// End-to-end: a live group with public handshake messages; every value the library holds after
/// a commit is recomputed by the reference from the public message and the previous epoch's secrets.
fn live_case(seed: u64, ev: &Evidence) -> CaseResult {
    let mut rng = SplitMix::new(seed, 1313);
    let suites = [1u16, 2, 3, 7];
    let suite = suites[rng.below(4) as usize];
    let s = Suite::new(suite);
    let mut cfg = WorldCfg::default_for(suite);
    cfg.providers = vec![ProviderKind::ALL[rng.below(3) as usize]];
    // one group in three sends its commits as PrivateMessage: the reference then decrypts the commit itself (sender data,
    // handshake ratchet, reuse guard) and the transcript takes wire_format = private
    cfg.encrypt_handshake = rng.below(3) == 0;
    let private = cfg.encrypt_handshake;
    let prov = cfg.providers[0];
    let mut w = World::new(P, cfg);
    let a = w.new_party();
    w.create_group(a).map_err(|e| Failure::new(format!("{P}|setup"), e.text().to_string()))?;
    let n_commits = 3 + rng.below(5);
    // resumption secret of every epoch so far, and the first epoch each party was a member of
    let mut resumption_of: std::collections::BTreeMap<u64, Vec<u8>> = Default::default();
    let mut member_since: std::collections::BTreeMap<usize, u64> = Default::default();
    member_since.insert(a, 0);
    for i in 0..n_commits {
        let members = w.members();
        // members persist their state now and then: a past epoch then lives in the store, in the pending writes, or in both
        let mut just_saved: Vec<usize> = vec![];
        for m in &members {
            if rng.below(3) == 0 {
                w.save(*m).map_err(|e| Failure::new(format!("{P}|setup_save|{}", e.class()), e.text().to_string()))?;
                ev.class("live_members_persisted_between_commits");
                just_saved.push(*m);
            }
        }
        let committer = members[rng.below(members.len() as u64) as usize];
        let before = w.parties[committer].g().verif_epoch_keys();
        resumption_of.insert(w.epoch, before.resumption_secret.clone());
        let committer_leaf_before = w.parties[committer].leaf();
        let ctx_before = w.parties[committer].g().context().mls_encode_to_vec().expect("ctx");
        let mut spec = CommitSpec::default();
        // path-less commits have commit_secret = 0: the whole chain is recomputable. Either an add-only commit, or a commit
        // that injects 2-3 external PSKs by value in a generated order (the PSK chain of RFC 9420 §8.4 depends on the order
        // of the proposals in the commit).
        let with_psks = w.members().len() >= 2 && rng.below(3) != 0;
        if with_psks {
            let mut ids: Vec<Vec<u8>> = vec![b"psk-c".to_vec(), b"psk-a".to_vec(), b"psk-b".to_vec()];
            for k in (1..ids.len()).rev() {
                ids.swap(k, rng.below(k as u64 + 1) as usize);
            }
            ids.truncate(2 + rng.below(2) as usize);
            for id in &ids {
                for q in 0..w.parties.len() {
                    w.parties[q].pstore.put(id, &psk_value(id));
                }
            }
            spec.external_psks = ids;
            // and sometimes the current epoch's resumption PSK, before or after the external ones
            if rng.below(2) == 0 {
                // ... of the current epoch or of a retained past one that every member has lived through
                let oldest = members.iter().map(|m| member_since.get(m).copied().unwrap_or(w.epoch)).max().unwrap_or(w.epoch).max(w.epoch.saturating_sub(2));
                let e = if oldest < w.epoch && rng.below(3) != 0 { oldest + rng.below(w.epoch - oldest) } else { w.epoch };
                if e < w.epoch {
                    ev.class("live_commits_with_resumption_psk_of_a_past_epoch");
                }
                spec.resumption_psk_epochs = vec![e];
                spec.resumption_psks_first = rng.below(2) == 0;
            }
        } else {
            let p = w.new_party();
            spec.add.push(p);
        }
        spec.aad = rng.blob(8);
        // Error paths on the way into the new epoch must not leave wrong secrets behind: (a) the committer's first attempt to
        // apply its commit meets a storage that fails once; (b) one receiver first sees the commit while it holds a stale
        // value for one of the PSKs, refuses it, gets the right value and processes it again. Everything is recomputed below
        // as if nothing had happened.
        let fault_committer = just_saved.contains(&committer) && rng.below(2) == 0;
        // (public handshake only: a refused PrivateMessage has spent its message key, the finding listed under C04)
        let stale_receiver = (with_psks && !private && rng.below(2) == 0).then(|| members[rng.below(members.len() as u64) as usize]).filter(|m| *m != committer);
        let stale_id = spec.external_psks.first().cloned();
        let mut hook = |w: &mut World, st: Stage| -> CaseResult {
            match st {
                Stage::AfterBuild { committer } if fault_committer => {
                    let party = &mut w.parties[committer];
                    party.ctl.arm(0, -1);
                    let r = guard(|| party.gm().apply_pending_commit().map(|_| ()));
                    let fired = party.ctl.fired.load(std::sync::atomic::Ordering::SeqCst);
                    party.ctl.reset();
                    match r {
                        Err(e) if e.is_panic() => return Err(panic_failure(P, "apply_pending_commit(storage fault)", &e)),
                        Err(_) if fired > 0 => ev.class("live_committer_first_apply_met_a_storage_fault"),
                        Err(e) => return Err(Failure::new(format!("{P}|setup_apply|{}", e.class()), e.text().to_string())),
                        Ok(()) => return Err(Failure::new(format!("{P}|harness|faulted_apply_succeeded"), format!("fired {fired}"))),
                    }
                }
                Stage::BeforeReceive { receiver, bytes } if Some(receiver) == stale_receiver => {
                    if let Some(id) = &stale_id {
                        let right = psk_value(id);
                        w.parties[receiver].pstore.put(id, &[0x3c; 32]);
                        let r = w.process(receiver, bytes);
                        w.parties[receiver].pstore.put(id, &right);
                        match r {
                            Err(e) if e.is_panic() => return Err(panic_failure(P, "process_incoming_message(commit, stale PSK)", &e)),
                            Err(_) => ev.class("live_receiver_first_refused_the_commit_with_a_stale_psk"),
                            Ok(_) => return Err(Failure::new(format!("{P}|commit_accepted_with_a_wrong_psk_value"), format!("party {receiver}"))),
                        }
                    }
                }
                _ => {}
            }
            Ok(())
        };
        let info = match w.commit_round_with(committer, &spec, &mut hook)? {
            Ok(i) => i,
            Err(e) => return Err(Failure::new(format!("{P}|setup_commit|{}", e.class()), e.text().to_string())),
        };
        ev.eval(1);
        for j in &info.joined {
            member_since.insert(*j, w.epoch);
        }
        let g = w.parties[committer].g();
        let after = g.verif_epoch_keys();
        let ctx_after = g.context().mls_encode_to_vec().expect("ctx");
        let cs = w.parties[committer].suite_provider(suite);
        // the commit as a public message: either as sent, or rebuilt from the reference's own decryption of the PrivateMessage
        let commit_public: Vec<u8> = if private {
            decrypt_private_commit(&s, &cs, &info.commit_bytes, &before, committer_leaf_before).ok_or_else(|| Failure::new(format!("{P}|private_commit_not_decryptable_by_reference"), format!("suite {suite} {}", prov.name())))?
        } else {
            info.commit_bytes.clone()
        };
        let pm = wire::parse_public_message(&commit_public).ok_or_else(|| Failure::new(format!("{P}|commit_unparsable"), String::new()))?;
        if !private {
            // membership tag of the commit under the OLD membership key and OLD context
            let mt = rk::membership_tag(&s, &before.key_schedule.membership_key, pm.version, 1, pm.framed_content, &ctx_before, pm.auth_data);
            cmp("membership_tag", suite, prov, pm.membership_tag.unwrap_or(&[]), &mt, || format!("commit {i}"))?;
            // and the library's own function on the same message agrees
            let msg = MlsMessage::from_bytes(&info.commit_bytes).expect("decode");
            let ctx_before_v = GroupContext::mls_decode(&mut &ctx_before[..]).expect("ctx");
            let lib_mt = hk::membership_tag(&cs, &before.key_schedule.membership_key, &ctx_before_v, &msg).map_err(|e| Failure::new(format!("{P}|library_error"), format!("{e:?}")))?;
            cmp("membership_tag_hook", suite, prov, &lib_mt, &mt, || format!("commit {i}"))?;
        }
        // confirmed transcript hash from the message (wire format 1 = public, 2 = private)
        let wf: u16 = if private { 2 } else { 1 };
        let cth = rk::confirmed_transcript_hash(&s, &before.interim_transcript_hash, wf, pm.framed_content, pm.signature);
        cmp(if private { "confirmed_transcript_hash(private commit)" } else { "confirmed_transcript_hash" }, suite, prov, &g.context().confirmed_transcript_hash, &cth, || format!("commit {i}"))?;
        if !private {
            let msg = MlsMessage::from_bytes(&info.commit_bytes).expect("decode");
            let lib_cth = hk::confirmed_transcript_hash(&cs, &before.interim_transcript_hash, &msg).map_err(|e| Failure::new(format!("{P}|library_error"), format!("{e:?}")))?;
            cmp("confirmed_transcript_hash_hook", suite, prov, &lib_cth, &cth, || format!("commit {i}"))?;
        } else {
            ev.class("live_private_commits_decrypted_by_reference");
        }
        // key schedule of the new epoch (commit_secret = 0 when there is no path, psk_secret = 0)
        if !info.had_path {
            let nh = s.nh();
            // PSKs in the order in which the commit lists them, with the nonces it announces
            let mut psks: Vec<(rk::PskIdRef, Vec<u8>)> = vec![];
            let field = |i: usize, f: &str| pm.spans.iter().find(|x| x.name == format!("commit.proposals[{i}].psk.{f}")).map(|sp| commit_public[sp.start..sp.end].to_vec());
            let opq = |b: Vec<u8>| crate::refmodel::tls::Reader::new(&b).opaque().unwrap_or_default().to_vec();
            for i in 0.. {
                if !pm.spans.iter().any(|x| x.name.starts_with(&format!("commit.proposals[{i}]."))) {
                    break;
                }
                let Some(nonce) = field(i, "psk_nonce").map(opq) else { continue };
                if let Some(id) = field(i, "psk_id").map(opq) {
                    let value = psk_value(&id);
                    psks.push((rk::PskIdRef::External { id, nonce }, value));
                } else if let (Some(usage), Some(gid), Some(ep)) = (field(i, "usage"), field(i, "psk_group_id").map(opq), field(i, "psk_epoch")) {
                    let epoch = u64::from_be_bytes(ep.try_into().unwrap_or([0; 8]));
                    // the resumption secret of that epoch as recorded when the group was in it
                    let Some(value) = resumption_of.get(&epoch).cloned() else {
                        return Err(Failure::new(format!("{P}|harness|unexpected_resumption_epoch"), format!("{epoch}")));
                    };
                    psks.push((rk::PskIdRef::Resumption { usage: usage[0], group_id: gid, epoch, nonce }, value));
                    ev.class("live_commits_with_resumption_and_external_psks");
                }
            }
            let psk_secret = if psks.is_empty() { vec![0u8; nh] } else { rk::psk_secret(&s, &psks) };
            if psks.len() >= 2 {
                ev.class("live_commits_with_several_psks");
                let sorted = psks.windows(2).all(|w| match (&w[0].0, &w[1].0) {
                    (rk::PskIdRef::External { id: a, .. }, rk::PskIdRef::External { id: b, .. }) => a <= b,
                    _ => true,
                });
                if !sorted {
                    ev.class("live_commits_with_psks_not_in_id_order");
                }
            }
            let want = rk::key_schedule(&s, &before.key_schedule.init_secret, &vec![0u8; nh], &ctx_after, &psk_secret);
            cmp("live.init_secret", suite, prov, &after.key_schedule.init_secret, &want.init_secret, || format!("commit {i}"))?;
            cmp("live.membership_key", suite, prov, &after.key_schedule.membership_key, &want.membership_key, || format!("commit {i}"))?;
            cmp("live.exporter_secret", suite, prov, &after.key_schedule.exporter_secret, &want.exporter_secret, || format!("commit {i}"))?;
            cmp("live.external_secret", suite, prov, &after.key_schedule.external_secret, &want.external_secret, || format!("commit {i}"))?;
            cmp("live.sender_data_secret", suite, prov, &after.sender_data_secret, &want.sender_data_secret, || format!("commit {i}"))?;
            cmp("live.resumption_psk", suite, prov, &after.resumption_secret, &want.resumption_psk, || format!("commit {i}"))?;
            let tag = rk::confirmation_tag(&s, &want.confirmation_key, &cth);
            cmp("live.confirmation_tag", suite, prov, &after.confirmation_tag, &tag, || format!("commit {i}"))?;
            cmp("live.confirmation_tag_in_message", suite, prov, pm.confirmation_tag.unwrap_or(&[]), &tag, || format!("commit {i}"))?;
            cmp("live.interim_transcript_hash", suite, prov, &after.interim_transcript_hash, &rk::interim_transcript_hash(&s, &cth, &tag), || format!("commit {i}"))?;
            let auth = g.epoch_authenticator().map(|x| x.as_bytes().to_vec()).unwrap_or_default();
            cmp("live.epoch_authenticator", suite, prov, &auth, &want.epoch_authenticator, || format!("commit {i}"))?;
            let label = rng.blob(20);
            let c = rng.blob(50);
            let len = 1 + rng.below(100) as usize;
            let e = g.export_secret(&label, &c, len).map(|x| x.as_bytes().to_vec()).unwrap_or_default();
            cmp("live.export_secret", suite, prov, &e, &rk::exporter(&s, &want.exporter_secret, &label, &c, len), || format!("commit {i}"))?;
            // secret tree root
            let root = after.secret_tree_leaf_count - 1;
            if let Some((_, sec)) = after.secret_tree_nodes.iter().find(|(n, _)| *n == root) {
                cmp("live.encryption_secret", suite, prov, sec, &want.encryption_secret, || format!("commit {i}"))?;
            }
            ev.class("live_pathless_commits_fully_recomputed");
            ev.nontrivial(&("live", &ctx_after));
        } else {
            ev.class("live_commits_with_path_transcript_only");
        }
    }
    ev.sample("live", || json!({"kind": "live group", "suite": suite, "provider": prov.name(), "commits": n_commits}));
    Ok(())
}

pub fn run(ctx: &Ctx) -> ! {
    let ev = Evidence::new(P, ctx.tier, ctx.seed, "exploration");
    ev.set_rule(
        "differential against an independent RFC 9420 implementation on bare SHA-2/HMAC (refmodel::keysched), calibrated at start-up on the IETF vectors \
         (basic crypto, key schedule, PSK secret, secret tree, transcript hashes). Generated per case: suite (1-7) x provider; random init/commit/PSK secrets and GroupContext \
         (ids, hashes, 0-3 extensions); PSK lists of 0-5 mixed external/resumption ids with random nonces; tree sizes 2^0..2^10, any leaf, generations 0..2000, both ratchets; \
         exporter label/context/length incl. 0, 255*Nh and 255*Nh+1; sender-data samples shorter and longer than Nh; tags and interim hashes. Plus live groups (two thirds with public handshake; with encrypted handshake the reference decrypts the commit itself): \
         membership tag, confirmed/interim transcript hash, confirmation tag and, for path-less commits, every secret of the new epoch recomputed from the previous epoch's init secret, incl. commits that inject 2-3 external PSKs in a generated (not id-sorted) order and the resumption PSK of the current or a retained past epoch, with members persisted at generated moments (so that past epochs live in the store, in the pending writes, or both). \
         On the way into a new epoch the committer's first apply sometimes meets a storage that fails once and a receiver first refuses the commit over a stale PSK value (public handshake); the recomputation is the same. Non-trivial = derivation with a non-zero PSK secret / >= 1 PSK / generation > 0 or leaf > 0 / any export; distinct by input values.",
    );
    ev.assume("refmodel::keysched and refmodel::wire are correct; they are calibrated on the IETF interop vectors before every run");
    match rk::calibrate() {
        Ok(n) => ev.put_extra("calibration_checks_passed", json!(n)),
        Err(e) => inconclusive(&ev, &format!("oracle calibration failed: {e}")),
    }

    if let Some(path) = &ctx.replay {
        let v: serde_json::Value = serde_json::from_str(&std::fs::read_to_string(path).unwrap_or_default()).unwrap_or_default();
        let r = match Case::from_json(&v["case"]) {
            Some(c) => pure_case(&c, &ev),
            None => live_case(v["case"]["live_seed"].as_u64().unwrap_or(0), &ev),
        };
        return match r {
            Ok(()) => finish_ok(&ev),
            Err(f) => finish_violation(&ev, Violation { failure: f, case: None }, v["case"].clone()),
        };
    }
    for (_, v) in load_replays(P) {
        let r = match Case::from_json(&v["case"]) {
            Some(c) => pure_case(&c, &ev),
            None => live_case(v["case"]["live_seed"].as_u64().unwrap_or(0), &ev),
        };
        if let Err(f) = r {
            finish_violation(&ev, Violation { failure: f, case: None }, v["case"].clone());
        }
    }

    // live groups
    let n_live = ctx.tier.pick(160u64, 3000);
    let results: Vec<Option<(u64, Failure)>> = std::thread::scope(|sc| {
        let hs: Vec<_> = (0..16u64)
            .map(|t| {
                let ev = &ev;
                sc.spawn(move || {
                    for i in 0..n_live / 16 {
                        let seed = ctx.seed.wrapping_mul(31).wrapping_add(t * 1_000_003 + i);
                        match catch(|| live_case(seed, ev)) {
                            Ok(Ok(())) => {}
                            Ok(Err(f)) => return Some((seed, f)),
                            Err(p) => return Some((seed, Failure::new(format!("{P}|harness_panic"), p))),
                        }
                    }
                    None
                })
            })
            .collect();
        hs.into_iter().map(|h| h.join().unwrap()).collect()
    });
    if let Some((seed, f)) = results.into_iter().flatten().next() {
        if f.signature.ends_with("harness_panic") {
            inconclusive(&ev, &f.detail);
        }
        finish_violation(&ev, Violation { failure: f, case: None }, json!({"live_seed": seed}));
    }

    let spec = RunSpec {
        shards: 16,
        cases_per_shard: ctx.tier.pick(1500, 40_000),
        cfg_len: 6,
        min_ops: 0,
        max_ops: 3,
        max_shrink_iters: 500,
    };
    match run_sharded(&ev, &spec, 13, &|c| pure_case(c, &ev)) {
        Ok(()) => finish_ok(&ev),
        Err(v) => {
            let payload = v.case.as_ref().map(|c| c.to_json()).unwrap_or_default();
            finish_violation(&ev, v, payload)
        }
    }
}
