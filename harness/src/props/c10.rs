//! C10 — committer-side and receiver-side proposal validation agree.
use crate::engine::*;
use crate::history::{setup_failure, CFG_LEN};
use crate::props::c04::{diff_components, snap};
use crate::providers::ProviderKind;
use crate::world::*;
use crate::Ctx;
use mls_rs::group::proposal::{CustomProposal, Proposal, ProposalType};
use mls_rs::group::{CommitEffect, ReceivedMessage};
use mls_rs::mls_rs_codec::MlsEncode;
use mls_rs::mls_rules::ProposalInfo;
use mls_rs::time::MlsTime;
use mls_rs::{CipherSuite, Extension, ExtensionList, MlsMessage};
use serde_json::json;
use std::collections::BTreeSet;

const P: &str = "C10";
const UNSUPPORTED_EXT: u16 = 0xFAAA;
const CUSTOM_CREDENTIAL: u16 = 0xF111;
const UNKNOWN_CUSTOM: u16 = 0xF0B7;

fn fail(what: &str, detail: String) -> Failure {
    Failure::new(format!("{P}|{what}"), detail)
}

#[derive(Clone, Debug, PartialEq, Eq, PartialOrd, Ord)]
enum Kind {
    AddNew,
    Update,
    Remove,
    ExtPsk,
    Gce,
    Custom,
    NewMemberAdd,
    // invalid by construction
    RemoveByValueOfSelf,
    UnknownPsk,
    ReInit,
    ExpiredKeyPackage,
    FutureKeyPackage,
    RefusedCredential,
    DuplicateIdentity,
    UnknownCustomType,
    WrongSuiteKeyPackage,
    /// GroupContextExtensions whose RequiredCapabilities name an extension no member supports
    GceRequiresUnsupported,
    /// Add of a client that lacks the extension the group requires (but supports the one above)
    AddLackingRequired,
    /// Add (by reference) of a client with a custom credential type that only some members' applications accept
    AddCustomCredential,
    /// Add of a key package whose init key is not a valid KEM public key (one byte short), correctly signed
    MalformedInitKey,
    /// Remove (by reference, from a client that does not check) of a leaf that is already blank
    RemoveOfBlankLeaf,
}

#[derive(Clone, Debug)]
struct Prop {
    kind: Kind,
    by_value: bool,
    proposer: usize,
    /// leaf the proposal changes (update: proposer's leaf; remove: target leaf)
    leaf: Option<u32>,
    /// encoded Proposal (by reference: from the proposer's message description)
    encoded: Vec<u8>,
    bytes: Vec<u8>,
}

fn key(p: &ProposalInfo<Proposal>) -> (Vec<u8>, String) {
    (p.proposal.mls_encode_to_vec().unwrap_or_default(), format!("{:?}", p.sender))
}

fn sender_key(s: &mls_rs::group::Sender) -> String {
    match s {
        mls_rs::group::Sender::Member(i) => format!("member{i}"),
        mls_rs::group::Sender::External(i) => format!("external{i}"),
        mls_rs::group::Sender::NewMemberProposal => "new_member".into(),
        _ => "other".into(),
    }
}

fn proposal_sender_key(s: &mls_rs::group::ProposalSender) -> String {
    match s {
        mls_rs::group::ProposalSender::Member(i) => format!("member{i}"),
        mls_rs::group::ProposalSender::External(i) => format!("external{i}"),
        mls_rs::group::ProposalSender::NewMember => "new_member".into(),
    }
}

/// One applied proposal (ProposalInfo is non-exhaustive and cannot be built outside the crate).
#[derive(Clone, Debug)]
struct Ap {
    proposal: Proposal,
    sender: mls_rs::group::Sender,
    by_ref: bool,
    reference: Option<Vec<u8>>,
}

fn ref_of(src: &mls_rs::mls_rules::ProposalSource) -> Option<Vec<u8>> {
    match src {
        mls_rs::mls_rules::ProposalSource::ByReference(r) => r.mls_encode_to_vec().ok(),
        _ => None,
    }
}

fn aps(v: &[ProposalInfo<Proposal>]) -> Vec<Ap> {
    v.iter().map(|p| Ap { proposal: p.proposal.clone(), sender: p.sender, by_ref: matches!(p.source, mls_rs::mls_rules::ProposalSource::ByReference(_)), reference: ref_of(&p.source) }).collect()
}

fn set_of_ap(v: &[Ap]) -> BTreeSet<(Vec<u8>, String)> {
    v.iter().map(|p| (p.proposal.mls_encode_to_vec().unwrap_or_default(), format!("{:?}", p.sender))).collect()
}

fn set_of(v: &[ProposalInfo<Proposal>]) -> BTreeSet<(Vec<u8>, String)> {
    v.iter().map(key).collect()
}

/// RFC 9420 §12.2 rules that can be evaluated on the applied set alone.
fn applied_set_valid(applied: &[Ap], committer_leaf: u32) -> Result<(), String> {
    let mut touched = BTreeSet::new();
    let mut gce = 0;
    let mut reinit = 0;
    let mut psks = BTreeSet::new();
    for p in applied {
        match &p.proposal {
            Proposal::Update(_) => {
                let leaf = match p.sender {
                    mls_rs::group::Sender::Member(i) => i,
                    _ => return Err("update from a non-member sender".into()),
                };
                if leaf == committer_leaf {
                    return Err("update proposal of the committer applied".into());
                }
                if !touched.insert(leaf) {
                    return Err(format!("two changes to leaf {leaf}"));
                }
            }
            Proposal::Remove(r) => {
                if r.to_remove() == committer_leaf {
                    return Err("removal of the committer applied".into());
                }
                if !touched.insert(r.to_remove()) {
                    return Err(format!("two changes to leaf {}", r.to_remove()));
                }
            }
            Proposal::Psk(x) => {
                if !psks.insert(x.mls_encode_to_vec().unwrap_or_default()) {
                    return Err("duplicate PreSharedKeyID".into());
                }
            }
            Proposal::GroupContextExtensions(_) => gce += 1,
            Proposal::ReInit(_) => reinit += 1,
            _ => {}
        }
    }
    if gce > 1 {
        return Err("more than one GroupContextExtensions".into());
    }
    if reinit > 0 && applied.len() != 1 {
        return Err("ReInit together with other proposals".into());
    }
    Ok(())
}

fn run_case(case: &Case, ev: &Evidence) -> CaseResult {
    ev.eval(1);
    let suite = [1u16, 1, 3][pick(case.c(0), 3)];
    let mut cfg = WorldCfg::default_for(suite);
    cfg.providers = vec![ProviderKind::ALL[pick(case.c(1), 3)]];
    cfg.encrypt_handshake = case.c(2) & 1 == 1;
    cfg.path_required = case.c(2) & 2 != 0;
    let mut w = World::new(P, cfg);
    w.require_ext = case.c(8) % 2 == 0;
    let n = 3 + pick(case.c(3), 6);
    let creator = w.new_party();
    w.create_group(creator).map_err(|e| setup_failure(P, "create_group", &e))?;
    // the applications of some members also accept a custom credential type (their leaves list it), the others do not
    let mixed_credentials = case.c(9) % 2 == 0;
    let mut spec = CommitSpec::default();
    for i in 1..n {
        let p = w.new_party();
        if mixed_credentials && i % 2 == 1 {
            w.parties[p].idp.extra_types.lock().unwrap().push(CUSTOM_CREDENTIAL);
        }
        spec.add.push(p);
    }
    w.commit_round(creator, &spec)?.map_err(|e| setup_failure(P, "initial_commit", &e))?;
    // sometimes the tree has a blank leaf below populated parents: a member in the middle was removed by a commit with a path
    let mut blank_leaf: Option<u32> = None;
    if n >= 5 && case.c(7) % 2 == 0 {
        let ms = w.members();
        let victim = ms[1 + pick(case.c(6), ms.len() - 2)];
        let leaf = w.parties[victim].leaf();
        if w.commit_round(creator, &CommitSpec { remove: vec![leaf], ..Default::default() })?.is_ok() {
            blank_leaf = Some(leaf);
        }
    }
    for p in 0..w.parties.len() {
        w.parties[p].pstore.put(b"psk0", &[7; 32]);
        w.parties[p].pstore.put(b"psk1", &[8; 32]);
    }
    let members = w.members();
    let committer = members[pick(case.c(4), members.len())];
    let committer_leaf = w.parties[committer].leaf();
    let t = w.tick();
    // one identity is refused by every member's application
    let refused = w.new_party_named(b"refused-identity".to_vec());
    for m in &members {
        w.parties[*m].idp.reject.lock().unwrap().insert(b"refused-identity".to_vec());
    }

    let mut props: Vec<Prop> = vec![];
    let mut updated: BTreeSet<usize> = BTreeSet::new();
    let mut removed_leaves: BTreeSet<u32> = BTreeSet::new();
    let mut invalid_kinds: BTreeSet<Kind> = BTreeSet::new();
    let mut by_value_invalid = false;
    let mut by_value: Vec<(Kind, Proposal)> = vec![];
    let mut by_value_kps: Vec<(Kind, MlsMessage)> = vec![];
    let mut by_value_removes: Vec<u32> = vec![];
    let mut by_value_psks: Vec<Vec<u8>> = vec![];
    let mut by_value_gce: Vec<ExtensionList> = vec![];
    let mut by_value_custom: Vec<CustomProposal> = vec![];
    let mut by_value_reinit = false;
    let mut added_candidates: Vec<usize> = vec![];
    // members in whose name a proposal was forged (made by a discarded clone): they do not hold it themselves
    let mut forged_from: BTreeSet<usize> = BTreeSet::new();

    for op in case.ops.iter().take(8) {
        let kinds = [
            (Kind::AddNew, 12),
            (Kind::Update, 10),
            (Kind::Remove, 12),
            (Kind::ExtPsk, 6),
            (Kind::Gce, 7),
            (Kind::Custom, 5),
            (Kind::NewMemberAdd, 4),
            (Kind::RemoveByValueOfSelf, 3),
            (Kind::UnknownPsk, 5),
            (Kind::ReInit, 3),
            (Kind::ExpiredKeyPackage, 5),
            (Kind::FutureKeyPackage, 3),
            (Kind::RefusedCredential, 5),
            (Kind::DuplicateIdentity, 5),
            (Kind::UnknownCustomType, 4),
            (Kind::WrongSuiteKeyPackage, 4),
            (Kind::GceRequiresUnsupported, 7),
            (Kind::AddLackingRequired, if w.require_ext { 9 } else { 0 }),
            (Kind::AddCustomCredential, if mixed_credentials { 8 } else { 0 }),
            (Kind::MalformedInitKey, 5),
            (Kind::RemoveOfBlankLeaf, if blank_leaf.is_some() && !w.cfg.encrypt_handshake { 9 } else { 0 }),
        ];
        let weights: Vec<u32> = kinds.iter().map(|k| k.1).collect();
        let kind = kinds[pick_weighted(op[0], &weights)].0.clone();
        let mut want_by_value = op[1] % 3 == 0;
        let proposer = members[pick(op[2], members.len())];
        let gid = w.group_id.clone();

        // build the Proposal (and, for by-reference, the message from `proposer`)
        macro_rules! by_ref {
            ($kind:expr, $leaf:expr, $call:expr) => {{
                let party = &mut w.parties[proposer];
                match guard(|| $call(party.gm())) {
                    Ok(m) => {
                        let bytes = m.to_bytes().expect("enc");
                        w.push_proposal(proposer, m, vec![]).map_err(|e| setup_failure(P, "encode", &e))?;
                        props.push(Prop { kind: $kind, by_value: false, proposer, leaf: $leaf, encoded: vec![], bytes });
                    }
                    Err(e) if e.is_panic() => return Err(panic_failure(P, "propose", &e)),
                    Err(e) => {
                        ev.class(&format!("proposal_refused_at_creation:{:?}:{}", $kind, e.class()));
                    }
                }
            }};
        }

        match kind {
            Kind::AddNew | Kind::ExpiredKeyPackage | Kind::FutureKeyPackage | Kind::RefusedCredential | Kind::DuplicateIdentity | Kind::WrongSuiteKeyPackage => {
                let (party_id, ts): (usize, MlsTime) = match kind {
                    Kind::AddNew => (w.new_party(), t),
                    Kind::ExpiredKeyPackage => (w.new_party(), MlsTime::from(T0 - 3 * 365 * 86400)),
                    Kind::FutureKeyPackage => (w.new_party(), MlsTime::from(T0 + 40 * 86400)),
                    Kind::RefusedCredential => (refused, t),
                    Kind::DuplicateIdentity => {
                        // the committer cannot leave in its own commit, so its identity stays taken
                        let victim = committer;
                        let name = w.parties[victim].name.clone();
                        (w.new_party_named(name), t)
                    }
                    _ => (w.new_party(), t),
                };
                if kind == Kind::AddNew {
                    for q in [b"psk0", b"psk1"] {
                        w.parties[party_id].pstore.put(q, &[if q == b"psk0" { 7 } else { 8 }; 32]);
                    }
                }
                let kp = if kind == Kind::ExpiredKeyPackage {
                    // a one-day key package issued ten days before the fake clock
                    let p = &w.parties[party_id];
                    let c = build_client_with_lifetime(p.crypto.clone(), p.idp.clone(), p.gstore.clone(), p.kstore.clone(), p.pstore.clone(), Default::default(), p.identity.clone(), p.signer.clone(), suite, 86400);
                    guard(|| c.generate_key_package_message(Default::default(), Default::default(), Some(MlsTime::from(T0 - 10 * 86400))))
                } else if kind == Kind::WrongSuiteKeyPackage {
                    let other = if suite == 1 { 3 } else { 1 };
                    let p = &w.parties[party_id];
                    let c = build_client(p.crypto.clone(), p.idp.clone(), p.gstore.clone(), p.kstore.clone(), p.pstore.clone(), Default::default(), p.identity.clone(), p.signer.clone(), other);
                    guard(|| c.generate_key_package_message(Default::default(), Default::default(), Some(t)))
                } else {
                    let p = &w.parties[party_id];
                    guard(|| p.client.generate_key_package_message(Default::default(), Default::default(), Some(ts)))
                };
                let kp = kp.map_err(|e| setup_failure(P, "key_package", &e))?;
                if kind == Kind::AddNew {
                    added_candidates.push(party_id);
                    w.last_kp.insert(party_id, kp.to_bytes().expect("enc"));
                } else {
                    invalid_kinds.insert(kind.clone());
                }
                if want_by_value {
                    if kind != Kind::AddNew {
                        by_value_invalid = true;
                    }
                    by_value_kps.push((kind.clone(), kp));
                } else {
                    let kp2 = kp.clone();
                    by_ref!(kind.clone(), None, |g: &mut VGroup| g.propose_add(kp2.clone(), vec![]));
                }
            }
            Kind::Update => {
                if updated.contains(&proposer) {
                    continue;
                }
                updated.insert(proposer);
                let leaf = w.parties[proposer].leaf();
                by_ref!(Kind::Update, Some(leaf), |g: &mut VGroup| g.propose_update(vec![]));
            }
            Kind::Remove => {
                let target = members[pick(op[3], members.len())];
                let leaf = w.parties[target].leaf();
                if want_by_value {
                    if target == committer || by_value_removes.contains(&leaf) {
                        continue;
                    }
                    by_value_removes.push(leaf);
                    removed_leaves.insert(leaf);
                } else {
                    if target == proposer {
                        continue;
                    }
                    removed_leaves.insert(leaf);
                    by_ref!(Kind::Remove, Some(leaf), |g: &mut VGroup| g.propose_remove(leaf, vec![]));
                }
            }
            Kind::RemoveByValueOfSelf => {
                want_by_value = true;
                by_value_removes.push(committer_leaf);
                by_value_invalid = true;
                invalid_kinds.insert(kind.clone());
            }
            Kind::ExtPsk | Kind::UnknownPsk => {
                let id: Vec<u8> = if kind == Kind::ExtPsk { if op[3] % 2 == 0 { b"psk0".to_vec() } else { b"psk1".to_vec() } } else { b"nobody-has-this".to_vec() };
                if kind == Kind::UnknownPsk {
                    invalid_kinds.insert(kind.clone());
                }
                if want_by_value {
                    if by_value_psks.contains(&id) {
                        continue;
                    }
                    if kind == Kind::UnknownPsk {
                        by_value_invalid = true;
                    }
                    by_value_psks.push(id);
                } else {
                    let id2 = id.clone();
                    by_ref!(kind.clone(), None, |g: &mut VGroup| g.propose_external_psk(mls_rs::psk::ExternalPskId::new(id2.clone()), vec![]));
                }
            }
            Kind::Gce => {
                let mut e = ExtensionList::new();
                e.set(Extension::new(EXT_TYPE.into(), vec![op[3] as u8; 2]));
                if want_by_value {
                    if !by_value_gce.is_empty() {
                        by_value_invalid = true;
                        invalid_kinds.insert(Kind::Gce);
                    }
                    by_value_gce.push(e);
                } else {
                    by_ref!(Kind::Gce, None, |g: &mut VGroup| g.propose_group_context_extensions(e.clone(), vec![]));
                }
            }
            Kind::RemoveOfBlankLeaf => {
                invalid_kinds.insert(kind.clone());
                let Some(bl) = blank_leaf else { continue };
                if proposer == committer {
                    continue;
                }
                forged_from.insert(proposer);
                // a genuine Remove of some other member, re-aimed at the blank leaf and re-signed by its sender
                let Some(target) = members.iter().copied().find(|m| *m != proposer && *m != committer) else { continue };
                let tleaf = w.parties[target].leaf();
                let mut clone = w.parties[proposer].g().clone();
                let genuine = match guard(|| clone.propose_remove(tleaf, vec![])) {
                    Ok(m) => m.to_bytes().expect("enc"),
                    Err(_) => continue,
                };
                let pp = &w.parties[proposer];
                let keys = pp.g().verif_epoch_keys();
                let ctx = pp.g().context().mls_encode_to_vec().expect("ctx");
                let Some(bytes) = crate::forge::retarget_remove_proposal(suite, &pp.suite_provider(suite), &genuine, bl, &pp.signer, &keys.key_schedule.membership_key, &ctx) else { continue };
                w.inflight.push(Flight { bytes: bytes.clone(), sender: proposer, sender_leaf: pp.leaf(), kind: FlightKind::Proposal, payload: vec![], aad: vec![], epoch: w.epoch });
                props.push(Prop { kind: Kind::RemoveOfBlankLeaf, by_value: false, proposer, leaf: Some(bl), encoded: vec![], bytes });
            }
            Kind::MalformedInitKey => {
                invalid_kinds.insert(kind.clone());
                let party_id = w.new_party();
                let good = w.key_package(party_id).map_err(|e| setup_failure(P, "key_package", &e))?.to_bytes().expect("enc");
                // MLSMessage(KeyPackage): version, wire_format, KeyPackage { version, cipher_suite, init_key<V>, leaf_node, extensions<V>, signature<V> }
                let rebuilt = (|| -> Option<Vec<u8>> {
                    use crate::refmodel::tls::{put_opaque, Reader};
                    let mut r = Reader::new(&good);
                    r.u16()?;
                    r.u16()?;
                    let kp_start = r.pos;
                    r.u16()?;
                    r.u16()?;
                    let head_end = r.pos;
                    let init = r.opaque()?.to_vec();
                    let leaf_start = r.pos;
                    crate::refmodel::tree::parse_leaf(&mut r)?;
                    r.opaque()?;
                    let tbs_tail_end = r.pos;
                    let mut tbs = good[kp_start..head_end].to_vec();
                    put_opaque(&mut tbs, &init[..init.len() - 1]);
                    tbs.extend_from_slice(&good[leaf_start..tbs_tail_end]);
                    let mut sc = vec![];
                    put_opaque(&mut sc, b"MLS 1.0 KeyPackageTBS");
                    put_opaque(&mut sc, &tbs);
                    let p = &w.parties[party_id];
                    let sig = mls_rs::CipherSuiteProvider::sign(&p.suite_provider(suite), &p.signer, &sc).ok()?;
                    let mut out = good[..kp_start].to_vec();
                    out.extend_from_slice(&tbs);
                    put_opaque(&mut out, &sig);
                    Some(out)
                })();
                let Some(bytes) = rebuilt else { continue };
                let Ok(kp) = MlsMessage::from_bytes(&bytes) else { continue };
                if want_by_value {
                    by_value_invalid = true;
                    by_value_kps.push((kind.clone(), kp));
                } else {
                    let kp2 = kp.clone();
                    by_ref!(kind.clone(), None, |g: &mut VGroup| g.propose_add(kp2.clone(), vec![]));
                }
            }
            Kind::AddCustomCredential => {
                // valid only if every member's leaf lists the type: decided by the library on both sides (agreement oracle)
                let party_id = w.new_party();
                w.parties[party_id].idp.extra_types.lock().unwrap().push(CUSTOM_CREDENTIAL);
                let p = &w.parties[party_id];
                let cs = p.suite_provider(suite);
                let (sk, pk) = mls_rs::CipherSuiteProvider::signature_key_generate(&cs).map_err(|e| setup_failure(P, "keygen", &OpErr::Mls(e.0)))?;
                let cred = mls_rs::identity::CustomCredential::new(mls_rs::identity::CredentialType::new(CUSTOM_CREDENTIAL), p.name.clone());
                let id = mls_rs::identity::SigningIdentity::new(mls_rs::identity::Credential::Custom(cred), pk);
                let c = build_client(p.crypto.clone(), p.idp.clone(), p.gstore.clone(), p.kstore.clone(), p.pstore.clone(), Default::default(), id, sk, suite);
                let kp = guard(|| c.generate_key_package_message(Default::default(), Default::default(), Some(t))).map_err(|e| setup_failure(P, "key_package", &e))?;
                let kp2 = kp.clone();
                by_ref!(kind.clone(), None, |g: &mut VGroup| g.propose_add(kp2.clone(), vec![]));
            }
            Kind::GceRequiresUnsupported => {
                use mls_rs::extension::MlsExtension;
                invalid_kinds.insert(kind.clone());
                let mut e = ExtensionList::new();
                if op[3] % 2 == 0 {
                    e.set(Extension::new(EXT_TYPE.into(), vec![op[3] as u8; 2]));
                }
                let rc = mls_rs::extension::built_in::RequiredCapabilitiesExt::new(vec![UNSUPPORTED_EXT.into()], vec![], vec![]);
                e.set(rc.into_extension().expect("ext"));
                if want_by_value {
                    by_value_invalid = true;
                    by_value_gce.push(e);
                } else {
                    by_ref!(Kind::GceRequiresUnsupported, None, |g: &mut VGroup| g.propose_group_context_extensions(e.clone(), vec![]));
                }
            }
            Kind::AddLackingRequired => {
                invalid_kinds.insert(kind.clone());
                let party_id = w.new_party();
                let p = &w.parties[party_id];
                // supports the extension nobody else does, lacks the one the group requires
                let c: VClient = mls_rs::Client::builder()
                    .key_package_repo(p.kstore.clone())
                    .psk_store(p.pstore.clone())
                    .group_state_storage(p.gstore.clone())
                    .identity_provider(p.idp.clone())
                    .crypto_provider(p.crypto.clone())
                    .mls_rules(Default::default())
                    .extension_types([UNSUPPORTED_EXT.into()])
                    .custom_proposal_type(ProposalType::new(CUSTOM_PROPOSAL))
                    .signing_identity(p.identity.clone(), p.signer.clone(), CipherSuite::from(suite))
                    .build();
                let kp = guard(|| c.generate_key_package_message(Default::default(), Default::default(), Some(t))).map_err(|e| setup_failure(P, "key_package", &e))?;
                if want_by_value {
                    by_value_invalid = true;
                    by_value_kps.push((kind.clone(), kp));
                } else {
                    let kp2 = kp.clone();
                    by_ref!(kind.clone(), None, |g: &mut VGroup| g.propose_add(kp2.clone(), vec![]));
                }
            }
            Kind::Custom | Kind::UnknownCustomType => {
                let ty = if kind == Kind::Custom { CUSTOM_PROPOSAL } else { UNKNOWN_CUSTOM };
                let cp = CustomProposal::new(ProposalType::new(ty), vec![op[3] as u8; 3]);
                if kind == Kind::UnknownCustomType {
                    invalid_kinds.insert(kind.clone());
                }
                if want_by_value {
                    if kind == Kind::UnknownCustomType {
                        by_value_invalid = true;
                    }
                    by_value_custom.push(cp);
                } else {
                    by_ref!(kind.clone(), None, |g: &mut VGroup| g.propose_custom(cp.clone(), vec![]));
                }
            }
            Kind::ReInit => {
                invalid_kinds.insert(Kind::ReInit);
                if want_by_value {
                    by_value_reinit = true;
                } else {
                    by_ref!(Kind::ReInit, None, |g: &mut VGroup| g.propose_reinit(None, mls_rs::ProtocolVersion::MLS_10, CipherSuite::from(suite), ExtensionList::new(), vec![]));
                }
            }
            Kind::NewMemberAdd => {
                let p = w.new_party();
                for q in [b"psk0", b"psk1"] {
                    w.parties[p].pstore.put(q, &[if q == b"psk0" { 7 } else { 8 }; 32]);
                }
                let via = &w.parties[members[0]];
                let gi = guard(|| via.g().group_info_message_allowing_ext_commit(true)).map_err(|e| setup_failure(P, "group_info", &e))?;
                let party = &w.parties[p];
                match guard(|| party.client.external_add_proposal(&gi, None, vec![], Default::default(), Default::default(), Some(t))) {
                    Ok(m) => {
                        let bytes = m.to_bytes().expect("enc");
                        // broadcast by the delivery service: every member receives it
                        w.inflight.push(Flight { bytes: bytes.clone(), sender: usize::MAX, sender_leaf: u32::MAX, kind: FlightKind::Proposal, payload: vec![], aad: vec![], epoch: w.epoch });
                        props.push(Prop { kind: Kind::NewMemberAdd, by_value: false, proposer: p, leaf: None, encoded: vec![], bytes });
                        added_candidates.push(p);
                    }
                    Err(e) if e.is_panic() => return Err(panic_failure(P, "external_add_proposal", &e)),
                    Err(e) => ev.class(&format!("new_member_proposal_refused:{}", e.class())),
                }
            }
        }
        let _ = (want_by_value, &gid, &mut by_value);
    }

    // delivery: every member receives the by-reference proposals in its own order; one member misses one
    let flights = std::mem::take(&mut w.inflight);
    let misser = members[pick(case.c(5), members.len())];
    let missed_idx = if flights.is_empty() || misser == committer { None } else { Some(pick(case.c(6), flights.len())) };
    // a member always knows its own proposals
    let missed_idx = missed_idx.filter(|i| flights[*i].sender != misser);
    let mut missed_ref: Option<(Vec<u8>, String)> = None;
    let mut misser_refs: BTreeSet<Vec<u8>> = BTreeSet::new();
    for (mi, m) in members.iter().enumerate() {
        for i in permutation(flights.len(), case.c(7) as u64 + mi as u64 * 131 + 1) {
            let f = &flights[i];
            if f.sender == *m {
                continue;
            }
            if *m == misser && Some(i) == missed_idx {
                continue;
            }
            match w.process(*m, &f.bytes) {
                Ok(ReceivedMessage::Proposal(d)) => {
                    if *m == misser {
                        misser_refs.insert(d.proposal_ref.mls_encode_to_vec().unwrap_or_default());
                    }
                    if *m == committer || (Some(i) == missed_idx && missed_ref.is_none()) {
                        if Some(i) == missed_idx {
                            missed_ref = Some((d.proposal_ref.mls_encode_to_vec().unwrap_or_default(), proposal_sender_key(&d.sender)));
                        }
                    }
                }
                Ok(_) => return Err(fail("proposal_wrong_kind", String::new())),
                Err(e) if e.is_panic() => return Err(panic_failure(P, "process_incoming_message(proposal)", &e)),
                Err(e) => {
                    // receivers may refuse a proposal message outright (e.g. unsupported custom type); note it
                    ev.class(&format!("proposal_message_refused_by_receiver:{}", e.class()));
                }
            }
        }
    }
    if let (Some(i), true) = (missed_idx, missed_ref.is_none()) {
        // the missed proposal was sent by a member other than the ones that recorded it: get its encoding from the sender
        let _ = i;
    }

    // the commit
    let before = snap(&w, committer)?;
    let party = &mut w.parties[committer];
    let kps = by_value_kps.clone();
    let r = guard(|| {
        let mut b = party.group.as_mut().unwrap().commit_builder().commit_time(t);
        for (_, kp) in kps {
            b = b.add_member(kp)?;
        }
        for l in &by_value_removes {
            b = b.remove_member(*l)?;
        }
        for id in &by_value_psks {
            b = b.add_external_psk(mls_rs::psk::ExternalPskId::new(id.clone()))?;
        }
        let mut first = true;
        for e in &by_value_gce {
            if first {
                b = b.set_group_context_ext(e.clone())?;
                first = false;
            } else {
                b = b.raw_proposal(Proposal::GroupContextExtensions(e.clone()));
            }
        }
        for c in &by_value_custom {
            b = b.custom_proposal(c.clone());
        }
        if by_value_reinit {
            b = b.reinit(None, mls_rs::ProtocolVersion::MLS_10, CipherSuite::from(suite), ExtensionList::new())?;
        }
        b.build()
    });
    let n_by_value = by_value_kps.len() + by_value_removes.len() + by_value_psks.len() + by_value_gce.len() + by_value_custom.len() + by_value_reinit as usize;
    let by_value_reinit_with_others = by_value_reinit && (n_by_value > 1 || !props.is_empty());
    let out = match r {
        Err(e) if e.is_panic() => return Err(panic_failure(P, "commit_builder.build", &e)),
        Err(e) => {
            ev.class(&format!("build_refused:{}", e.class()));
            // (B) refused builds leave the committer unchanged
            let after = snap(&w, committer)?;
            let d = before.diff(&after);
            if !d.is_empty() {
                return Err(fail(&format!("refused_build_changed_state|diff={}", diff_components(&d)), format!("{d:?}")));
            }
            // two proposals that are each valid can exclude each other: a by-reference Add with the custom credential type and a
            // by-value Add of a client that does not list that type. Which one gives way is not specified; failing is legitimate.
            let credential_conflict = props.iter().any(|p| p.kind == Kind::AddCustomCredential) && !by_value_kps.is_empty() && matches!(e.class().as_str(), "InUseCredentialTypeUnsupportedByNewLeaf" | "CredentialTypeOfNewLeafIsUnsupported");
            if credential_conflict {
                ev.class("build_refused:mutually_exclusive_valid_adds");
                return Ok(());
            }
            if !by_value_invalid && !by_value_reinit_with_others {
                // nothing sent by value is invalid on its own: the by-reference offenders should have been dropped
                let sig = format!("{P}|valid_by_value_set_refused|{}", e.class());
                return ev.known_or_fail(&sig, || {
                    format!(
                        "committer {committer} (leaf {committer_leaf}): build failed with {} although every by-value proposal is valid; by-value: {} adds {:?} removes {:?} psks {} gce {} custom; by-reference kinds: {:?}",
                        e.text(),
                        by_value_kps.len(),
                        by_value_removes,
                        by_value_psks.len(),
                        by_value_gce.len(),
                        by_value_custom.len(),
                        props.iter().map(|p| format!("{:?}", p.kind)).collect::<Vec<_>>()
                    )
                });
            }
            ev.nontrivial(&("refused", case));
            return Ok(());
        }
        Ok(o) => o,
    };
    if by_value_invalid {
        return Err(fail(
            "invalid_by_value_proposal_committed",
            format!("the commit was built although a by-value proposal is invalid by construction: {invalid_kinds:?}; by-value removes {by_value_removes:?} (committer leaf {committer_leaf})"),
        ));
    }
    let commit_bytes = out.commit_message.to_bytes().expect("enc");
    let committer_unused = set_of(&out.unused_proposals);

    // the committer applies: its own view of what was applied
    let party = &mut w.parties[committer];
    let desc = guard(|| party.gm().apply_pending_commit()).map_err(|e| fail(&format!("apply_pending_commit_failed|{}", e.class()), e.text().into()))?;
    let (applied, committer_unused2): (Vec<Ap>, BTreeSet<_>) = match &desc.effect {
        CommitEffect::NewEpoch(ne) => (aps(ne.applied_proposals()), set_of(ne.unused_proposals())),
        CommitEffect::Removed { new_epoch, .. } => (aps(new_epoch.applied_proposals()), set_of(new_epoch.unused_proposals())),
        CommitEffect::ReInit(r) => (
            vec![Ap { proposal: Proposal::ReInit(r.proposal.clone()), sender: r.sender, by_ref: matches!(r.source, mls_rs::mls_rules::ProposalSource::ByReference(_)), reference: ref_of(&r.source) }],
            BTreeSet::new(),
        ),
    };
    let applied_set = set_of_ap(&applied);
    if let Err(why) = applied_set_valid(&applied, committer_leaf) {
        return Err(fail("committed_set_violates_rules", format!("{why}; applied kinds: {:?}", applied.iter().map(|p| format!("{:?}", p.proposal.proposal_type())).collect::<Vec<_>>())));
    }
    // (C) proposals invalid by construction must not be applied
    let refused_name = b"refused-identity".to_vec();
    for p in &applied {
        let bad = match &p.proposal {
            Proposal::Add(a) => {
                let id = a.signing_identity().credential.as_basic().map(|b| b.identifier.clone()).unwrap_or_default();
                id == refused_name || w.parties[committer].name == id || a.key_package().cipher_suite != CipherSuite::from(suite)
            }
            Proposal::Psk(x) => x.external_psk_id().map(|i| i.as_ref() == b"nobody-has-this").unwrap_or(false),
            Proposal::Custom(c) => c.proposal_type() == ProposalType::new(UNKNOWN_CUSTOM),
            _ => false,
        };
        if bad {
            return Err(fail(
                "proposal_invalid_by_construction_committed",
                format!("{:?} (sender {:?}, by reference: {})", p.proposal.proposal_type(), p.sender, p.by_ref),
            ));
        }
    }
    if !invalid_kinds.is_empty() {
        ev.class("commits_with_dropped_invalid_by_reference_proposals");
    }
    if committer_unused != committer_unused2 && !matches!(desc.effect, CommitEffect::ReInit(_)) {
        return Err(fail("committer_reports_two_different_unused_sets", format!("CommitOutput: {} apply: {}", committer_unused.len(), committer_unused2.len())));
    }

    let mut followers: Vec<usize> = vec![];
    // (A) every other member that has all referenced proposals accepts and reports the same sets
    let missed_is_applied = missed_ref.as_ref().map(|r| applied.iter().any(|p| p.reference.as_ref() == Some(&r.0))).unwrap_or(false);
    for m in &members {
        if *m == committer {
            continue;
        }
        let r = w.process(*m, &commit_bytes);
        // signatures may be deterministic: two identical proposals from one sender are one proposal (same reference)
        let misser_leaf = w.parties[misser].leaf();
        let lacks_a_referenced_proposal = applied.iter().any(|p| p.by_ref && p.sender != mls_rs::group::Sender::Member(misser_leaf) && p.reference.as_ref().map(|r| !misser_refs.contains(r)).unwrap_or(false));
        let missing_needed = *m == misser && missed_idx.is_some() && missed_is_applied && lacks_a_referenced_proposal;
        match r {
            Err(e) if e.is_panic() => return Err(panic_failure(P, "process_incoming_message(commit)", &e)),
            Err(e) => {
                if missing_needed {
                    ev.class("receiver_missing_a_referenced_proposal_rejects");
                    continue;
                }
                // A member that this commit removes and whose application does not know the custom credential type cannot
                // validate the leaf of a client that the remaining members (who all accept the type) let in: not a disagreement
                // between committer-side and receiver-side validation.
                let m_leaf = w.parties[*m].leaf();
                let m_is_removed = removed_leaves.contains(&m_leaf) || by_value_removes.contains(&m_leaf);
                let m_knows_type = w.parties[*m].idp.extra_types.lock().unwrap().contains(&CUSTOM_CREDENTIAL);
                if m_is_removed && !m_knows_type && e.class() == "IdentityProviderError" && props.iter().any(|p| p.kind == Kind::AddCustomCredential) {
                    ev.class("removed_member_cannot_validate_custom_credential");
                    continue;
                }
                return Err(fail(
                    &format!("receiver_rejects_built_commit|{}", e.class()),
                    format!(
                        "member {m} (leaf {}) rejects the commit of {committer} (leaf {committer_leaf}): {}; applied kinds {:?}; by-reference kinds {:?}; misser {misser} missed {missed_idx:?} missed_is_applied {missed_is_applied} missed_ref {:?}",
                        w.parties[*m].leaf(),
                        e.text(),
                        applied.iter().map(|p| format!("{:?}/by_ref={}", p.proposal.proposal_type(), p.by_ref)).collect::<Vec<_>>(),
                        props.iter().map(|p| format!("{:?}", p.kind)).collect::<Vec<_>>(),
                        missed_ref.as_ref().map(|r| (r.0.len(), r.1.clone()))
                    ),
                ));
            }
            Ok(ReceivedMessage::Commit(d)) => {
                if missing_needed {
                    return Err(fail("receiver_accepts_commit_referencing_unknown_proposal", format!("member {m}; missed flight {missed_idx:?} of {} flights, missed_ref {:?}; applied {:?}; by-reference kinds {:?}", flights.len(), missed_ref.as_ref().map(|r| (hex::encode(&r.0[..r.0.len().min(12)]), r.1.clone())), applied.iter().map(|p| format!("{:?}/{}/by_ref={}", p.proposal.proposal_type(), sender_key(&p.sender), p.by_ref)).collect::<Vec<_>>(), props.iter().map(|p| format!("{:?}@{}", p.kind, p.proposer)).collect::<Vec<_>>())));
                }
                if matches!(d.effect, CommitEffect::NewEpoch(_)) {
                    followers.push(*m);
                }
                let (ra, ru) = match &d.effect {
                    CommitEffect::NewEpoch(ne) => (set_of(ne.applied_proposals()), set_of(ne.unused_proposals())),
                    CommitEffect::Removed { new_epoch, .. } => (set_of(new_epoch.applied_proposals()), set_of(new_epoch.unused_proposals())),
                    CommitEffect::ReInit(r) => ([(Proposal::ReInit(r.proposal.clone()).mls_encode_to_vec().unwrap_or_default(), format!("{:?}", r.sender))].into_iter().collect(), BTreeSet::new()),
                };
                if ra != applied_set {
                    return Err(fail("receiver_reports_different_applied_set", format!("member {m}: {} vs committer {}", ra.len(), applied_set.len())));
                }
                if *m != misser && !forged_from.contains(m) && !matches!(d.effect, CommitEffect::ReInit(_)) && ru != committer_unused {
                    return Err(fail("receiver_reports_different_unused_set", format!("member {m}: {} vs committer {}", ru.len(), committer_unused.len())));
                }
                if *m == misser && missed_idx.is_some() {
                    ev.class("receiver_missing_an_unused_proposal_accepts");
                }
            }
            Ok(_) => return Err(fail("commit_wrong_kind", String::new())),
        }
    }
    // (D) dropping proposals leaves no trace: the next, ordinary commit of another member is accepted by the committer and
    // by everybody else who followed
    if !matches!(desc.effect, CommitEffect::ReInit(_)) && !followers.is_empty() {
        let f = followers[pick(case.c(5), followers.len())];
        let t2 = w.tick();
        let party = &mut w.parties[f];
        match guard(|| party.gm().commit_builder().commit_time(t2).build()) {
            Err(e) if e.is_panic() => return Err(panic_failure(P, "commit_builder.build (follow-up)", &e)),
            Err(e) => return Err(fail(&format!("follow_up_commit_refused|{}", e.class()), format!("member {f} cannot build an empty commit after the commit of {committer}: {}", e.text()))),
            Ok(o) => {
                let b = o.commit_message.to_bytes().expect("enc");
                for m in followers.iter().copied().chain([committer]) {
                    if m == f {
                        continue;
                    }
                    match w.process(m, &b) {
                        Ok(_) => {}
                        Err(e) if e.is_panic() => return Err(panic_failure(P, "process_incoming_message(follow-up commit)", &e)),
                        Err(e) => {
                            return Err(fail(
                                &format!("follow_up_commit_rejected|{}", e.class()),
                                format!("member {m} rejects the ordinary follow-up commit of member {f} after the commit of {committer} that dropped {:?}: {}", invalid_kinds, e.text()),
                            ))
                        }
                    }
                }
                ev.class("follow_up_commits_accepted");
            }
        }
    }
    ev.class_n("proposals_by_reference", props.len() as u64);
    ev.class_n("proposals_by_value", n_by_value as u64);
    ev.class_n("applied_proposals", applied.len() as u64);
    ev.class_n("unused_proposals", committer_unused.len() as u64);
    for k in &invalid_kinds {
        ev.class(&format!("invalid_kind:{k:?}"));
    }
    if invalid_kinds.len() >= 2 || (!invalid_kinds.is_empty() && !removed_leaves.is_empty() && !updated.is_empty()) {
        ev.nontrivial(case);
        ev.sample(&format!("nt{}", invalid_kinds.len()), || json!({"members": n, "committer_leaf": committer_leaf, "by_reference": props.iter().map(|p| format!("{:?}", p.kind)).collect::<Vec<_>>(), "by_value": n_by_value, "invalid_kinds": invalid_kinds.iter().map(|k| format!("{k:?}")).collect::<Vec<_>>(), "applied": applied.len(), "unused": committer_unused.len()}));
    }
    let _ = (added_candidates, props.iter().map(|p| (&p.encoded, &p.bytes, p.by_value, p.proposer, p.leaf)).count());
    Ok(())
}

pub fn run(ctx: &Ctx) -> ! {
    let ev = Evidence::new(P, ctx.tier, ctx.seed, "exploration");
    ev.set_rule(
        "fresh group of 3-8 members per case; a multiset of up to 8 proposals, each by reference (a real proposal message from a generated member, or a new-member add proposal) or by value, \
         drawn from valid kinds (add, update, remove, external PSK, GCE, custom) and kinds invalid by construction (update from / removal of the committer, self-removal by value, second change of a leaf, \
         unknown PSK, second GCE, ReInit with others, expired / not-yet-valid / wrong-suite key package, credential refused by every member's identity provider, duplicate identity, unregistered custom type, GroupContextExtensions requiring an extension nobody supports, \
         Add lacking the extension the group requires, Add with a custom credential type only some members accept, Add of a correctly signed key package with a malformed init key, a re-signed Remove of an already blank leaf); \
         every receiver caches the proposals in its own order and one receiver misses one. Oracle: (A) a built commit is accepted by every member that has the referenced proposals, with the same applied and \
         unused sets as the committer reports; the member missing a referenced proposal rejects, one missing only an unused proposal accepts; (B) an invalid by-value proposal => build fails and the committer is \
         canonically unchanged; a build must not fail when every by-value proposal is valid; (D) an ordinary follow-up commit by another member is accepted by everybody (dropped proposals leave no trace); (C) the applied set satisfies the RFC 9420 §12.2 set rules (independent checker) and contains nothing invalid by construction. \
         Non-trivial = >= 2 different invalid kinds, or an invalid kind together with an update/remove conflict; distinct by case value.",
    );
    ev.assume("forged commits (receiver-side rejection of invalid sets built by a dishonest member) are exercised by C03's insider mutations, not here");
    let run = |c: &Case| run_case(c, &ev);
    if let Some(path) = &ctx.replay {
        let v: serde_json::Value = serde_json::from_str(&std::fs::read_to_string(path).unwrap_or_default()).unwrap_or_default();
        let case = Case::from_json(&v["case"]).unwrap_or_else(|| inconclusive(&ev, "no case"));
        return match run(&case) {
            Ok(()) => finish_ok(&ev),
            Err(f) => finish_violation(&ev, Violation { failure: f, case: Some(case.clone()) }, case.to_json()),
        };
    }
    for (_, v) in load_replays(P) {
        if let Some(case) = Case::from_json(&v["case"]) {
            if let Err(f) = run(&case) {
                finish_violation(&ev, Violation { failure: f, case: Some(case.clone()) }, case.to_json());
            }
        }
    }
    let spec = RunSpec { shards: 16, cases_per_shard: ctx.tier.pick(1200, 20000), cfg_len: CFG_LEN, min_ops: 2, max_ops: 8, max_shrink_iters: 500 };
    match run_sharded(&ev, &spec, 10, &run) {
        Ok(()) => finish_ok(&ev),
        Err(v) => {
            let payload = v.case.as_ref().map(|c| c.to_json()).unwrap_or_default();
            finish_violation(&ev, v, payload)
        }
    }
}
