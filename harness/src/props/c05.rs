//! C05 — message keys are single-use: no nonce reuse, no replay, reordering tolerated.
use crate::engine::*;
use crate::history::{setup_failure, CFG_LEN};
use crate::providers::{ProviderKind, StoreKind};
use crate::refmodel::tls::Reader;
use crate::world::*;
use crate::Ctx;
use mls_rs::group::proposal::{CustomProposal, ProposalType};
use mls_rs::group::ReceivedMessage;
use mls_rs::MlsMessage;
use serde_json::json;
use std::collections::{BTreeMap, BTreeSet, HashMap};

const P: &str = "C05";
const WINDOW: u32 = 1024;

fn fail(what: &str, detail: String) -> Failure {
    Failure::new(format!("{P}|{what}"), detail)
}

struct Msg {
    sender: usize,
    sender_leaf: u32,
    handshake: bool,
    generation: u32,
    bytes: Vec<u8>,
    payload: Vec<u8>,
}

#[derive(Default, Clone)]
struct RatchetModel {
    next: u32,
    consumed: BTreeSet<u32>,
}

fn run_case(case: &Case, ev: &Evidence) -> CaseResult {
    ev.eval(1);
    let suites = [1u16, 1, 3, 2, 7];
    let mut cfg = WorldCfg::default_for(suites[pick(case.c(0), suites.len())]);
    cfg.providers = vec![ProviderKind::ALL[pick(case.c(1), 3)]];
    if !cfg.providers[0].suites().contains(&cfg.suite) {
        cfg.providers = vec![ProviderKind::OpenSsl];
    }
    cfg.encrypt_handshake = true;
    cfg.padding = (case.c(2) % 3) as u8;
    cfg.store = [StoreKind::Mem, StoreKind::Sql][pick(case.c(4), 2)];
    let mut w = World::new(P, cfg);
    let n = 2 + pick(case.c(3), 3);
    let creator = w.new_party();
    w.create_group(creator).map_err(|e| setup_failure(P, "create_group", &e))?;
    let mut spec = CommitSpec::default();
    for _ in 1..n {
        spec.add.push(w.new_party());
    }
    match w.commit_round(creator, &spec)? {
        Ok(_) => {}
        Err(e) => return Err(setup_failure(P, "initial_commit", &e)),
    }
    for p in &w.parties {
        p.crypto.log.start();
    }
    let members = w.members();
    let mut msgs: Vec<Msg> = vec![];
    // per sender, per ratchet: next generation to be used by the sender
    let mut send_gen: BTreeMap<(usize, bool), u32> = BTreeMap::new();
    // receiver -> (sender, handshake) -> model
    let mut model: BTreeMap<usize, BTreeMap<(usize, bool), RatchetModel>> = BTreeMap::new();
    let mut delivered: BTreeMap<usize, BTreeSet<usize>> = BTreeMap::new();
    let (mut out_of_order, mut duplicates, mut reloads, mut big_gaps, mut beyond_window) = (0u64, 0u64, 0u64, 0u64, 0u64);
    let mut detached = 0u64;
    let mut senders_used = BTreeSet::new();
    let mut both_ratchets = BTreeSet::new();

    // one delivery with the exactly-once model as oracle
    let mut deliver = |w: &mut World, model: &mut BTreeMap<usize, BTreeMap<(usize, bool), RatchetModel>>, delivered: &mut BTreeMap<usize, BTreeSet<usize>>, r: usize, mi: usize, msgs: &Vec<Msg>, ooo: &mut u64, dup: &mut u64, beyond: &mut u64| -> CaseResult {
        let m = &msgs[mi];
        if m.sender == r {
            return Ok(());
        }
        let rm = model.entry(r).or_default().entry((m.sender, m.handshake)).or_default();
        let res = w.process(r, &m.bytes);
        if let Err(e) = &res {
            if e.is_panic() {
                return Err(panic_failure(P, "process_incoming_message", e));
            }
        }
        if rm.consumed.contains(&m.generation) {
            *dup += 1;
            if res.is_ok() {
                return Err(fail(
                    "replay_accepted",
                    format!("receiver {r} accepted generation {} of sender {} ({}) a second time", m.generation, m.sender, if m.handshake { "handshake" } else { "application" }),
                ));
            }
            return Ok(());
        }
        if m.generation > rm.next && m.generation - rm.next > WINDOW {
            // beyond the documented window: nothing is demanded except no panic and no damage
            *beyond += 1;
            if res.is_ok() {
                rm.consumed.insert(m.generation);
                rm.next = m.generation + 1;
                delivered.entry(r).or_default().insert(mi);
            }
            return Ok(());
        }
        if m.generation < rm.next {
            *ooo += 1;
        }
        match res {
            Err(e) => Err(fail(
                &format!("fresh_message_rejected|{}", e.class()),
                format!(
                    "receiver {r}: generation {} of sender {} ({}) not yet consumed, receiver ratchet at {} (distance {}), rejected: {}",
                    m.generation,
                    m.sender,
                    if m.handshake { "handshake" } else { "application" },
                    rm.next,
                    m.generation as i64 - rm.next as i64,
                    e.text()
                ),
            )),
            Ok(ReceivedMessage::ApplicationMessage(d)) if !m.handshake => {
                if d.sender_index != m.sender_leaf || d.data() != &m.payload[..] {
                    return Err(fail("decrypted_message_misreported", format!("receiver {r}: sender {} want {}", d.sender_index, m.sender_leaf)));
                }
                rm.consumed.insert(m.generation);
                rm.next = rm.next.max(m.generation + 1);
                delivered.entry(r).or_default().insert(mi);
                Ok(())
            }
            Ok(ReceivedMessage::Proposal(_)) if m.handshake => {
                rm.consumed.insert(m.generation);
                rm.next = rm.next.max(m.generation + 1);
                delivered.entry(r).or_default().insert(mi);
                Ok(())
            }
            Ok(o) => Err(fail("message_wrong_kind", format!("{o:?}").chars().take(100).collect())),
        }
    };

    for op in &case.ops {
        match pick_weighted(op[0], &[30, 40, 8, 6, 8, 4]) {
            5 => {
                // the sender builds a detached commit and throws it away (the application decided otherwise): the handshake
                // generation it was sealed with is spent, the next handshake message must use another one
                let s = members[pick(op[1], members.len().min(1 + (case.c(5) % 4) as usize))];
                let t = w.now();
                let party = &mut w.parties[s];
                party.gm().clear_proposal_cache();
                if party.g().has_pending_commit() {
                    continue;
                }
                match guard(|| party.gm().commit_builder().commit_time(t).build_detached()) {
                    Ok(_) => {
                        *send_gen.entry((s, true)).or_insert(0) += 1;
                        both_ratchets.insert((s, true));
                        detached += 1;
                    }
                    Err(e) if e.is_panic() => return Err(panic_failure(P, "build_detached", &e)),
                    Err(e) => return Err(setup_failure(P, "build_detached", &e)),
                }
            }
            0 => {
                // send (after discarding `gap` messages of the same ratchet)
                let s = members[pick(op[1], members.len().min(1 + (case.c(5) % 4) as usize))];
                let handshake = op[2] % 4 == 0;
                let gap = [0u32, 0, 0, 0, 0, 0, 1, 1, 1, 2, 2, 3, 5, 9, 30, 100, 400, 1023, 1024, 1025][pick(op[3], 20)];
                if gap >= 1023 {
                    big_gaps += 1;
                }
                senders_used.insert(s);
                both_ratchets.insert((s, handshake));
                for i in 0..=gap {
                    let last = i == gap;
                    let payload = vec![op[4] as u8; 1 + (op[4] % 40) as usize];
                    let party = &mut w.parties[s];
                    let leaf = party.leaf();
                    let bytes = if handshake {
                        let cp = CustomProposal::new(ProposalType::new(CUSTOM_PROPOSAL), payload.clone());
                        let m = guard(|| party.gm().propose_custom(cp, vec![])).map_err(|e| setup_failure(P, "propose_custom", &e))?;
                        party.gm().clear_proposal_cache();
                        m.to_bytes().expect("enc")
                    } else {
                        if party.g().commit_required() {
                            party.gm().clear_proposal_cache();
                        }
                        let pl = payload.clone();
                        let m = guard(|| party.gm().encrypt_application_message(&pl, vec![])).map_err(|e| setup_failure(P, "encrypt", &e))?;
                        m.to_bytes().expect("enc")
                    };
                    let g = send_gen.entry((s, handshake)).or_insert(0);
                    let generation = *g;
                    *g += 1;
                    if last {
                        msgs.push(Msg { sender: s, sender_leaf: leaf, handshake, generation, bytes, payload });
                    }
                }
            }
            1 => {
                if msgs.is_empty() {
                    continue;
                }
                let r = members[pick(op[1], members.len())];
                let mi = pick(op[2], msgs.len());
                deliver(&mut w, &mut model, &mut delivered, r, mi, &msgs, &mut out_of_order, &mut duplicates, &mut beyond_window)?;
                // a receiver caching a proposal would refuse application messages of its own later: clear
                w.parties[r].gm().clear_proposal_cache();
            }
            2 => {
                let r = members[pick(op[1], members.len())];
                let pending: Vec<usize> = (0..msgs.len()).filter(|i| !delivered.get(&r).map(|d| d.contains(i)).unwrap_or(false)).collect();
                for i in permutation(pending.len(), op[2] as u64 + 1) {
                    deliver(&mut w, &mut model, &mut delivered, r, pending[i], &msgs, &mut out_of_order, &mut duplicates, &mut beyond_window)?;
                }
                w.parties[r].gm().clear_proposal_cache();
            }
            3 => {
                // write + reload of a sender or receiver in the middle of the stream
                let p = members[pick(op[1], members.len())];
                w.save(p).map_err(|e| setup_failure(P, "write_to_storage", &e))?;
                w.reload(p).map_err(|e| setup_failure(P, "load_group", &e))?;
                reloads += 1;
            }
            _ => {
                // explicit duplicate of something this receiver already consumed
                let r = members[pick(op[1], members.len())];
                let done: Vec<usize> = delivered.get(&r).map(|d| d.iter().copied().collect()).unwrap_or_default();
                if done.is_empty() {
                    continue;
                }
                let mi = done[pick(op[2], done.len())];
                deliver(&mut w, &mut model, &mut delivered, r, mi, &msgs, &mut out_of_order, &mut duplicates, &mut beyond_window)?;
            }
        }
    }
    // finally every receiver gets everything it has not seen, oldest generations first so that
    // nothing stays beyond the window, then in a permuted order once more (all duplicates now)
    for r in &members {
        let mut pending: Vec<usize> = (0..msgs.len()).filter(|i| !delivered.get(r).map(|d| d.contains(i)).unwrap_or(false)).collect();
        pending.sort_by_key(|i| msgs[*i].generation);
        for i in pending {
            deliver(&mut w, &mut model, &mut delivered, *r, i, &msgs, &mut out_of_order, &mut duplicates, &mut beyond_window)?;
        }
        for i in permutation(msgs.len(), case.c(6) as u64 + 1) {
            let still_beyond = model
                .get(r)
                .and_then(|m| m.get(&(msgs[i].sender, msgs[i].handshake)))
                .map(|rm| msgs[i].generation > rm.next && msgs[i].generation - rm.next > WINDOW)
                .unwrap_or(msgs[i].generation > WINDOW);
            if msgs[i].sender != *r && !still_beyond && !delivered.get(r).map(|d| d.contains(&i)).unwrap_or(false) {
                return Err(fail("message_never_accepted", format!("receiver {r}: generation {} of sender {} was never accepted although all earlier ones were delivered", msgs[i].generation, msgs[i].sender)));
            }
            deliver(&mut w, &mut model, &mut delivered, *r, i, &msgs, &mut out_of_order, &mut duplicates, &mut beyond_window)?;
        }
    }

    // (key, nonce) uniqueness over every AEAD encryption of every member in this epoch
    let mut seen: HashMap<(Vec<u8>, Vec<u8>), usize> = HashMap::new();
    let mut app_keys: BTreeSet<Vec<u8>> = BTreeSet::new();
    let mut hs_keys: BTreeSet<Vec<u8>> = BTreeSet::new();
    let mut seals = 0u64;
    // every message key is used for one encryption only (the reuse guard protects copies of a sender, it is no licence to
    // seal twice with one generation): no AEAD key occurs in two seals
    let mut seen_keys: HashMap<Vec<u8>, usize> = HashMap::new();
    for p in &w.parties {
        let (_, aead) = p.crypto.log.stop();
        for rec in aead {
            seals += 1;
            if let Some(prev) = seen_keys.insert(rec.key.clone(), p.id) {
                return Err(fail(
                    "aead_key_used_for_two_messages",
                    format!("parties {prev} and {} sealed two messages with the same AEAD key {}.. (nonces differ: a ratchet generation was used twice); detached commits built and discarded in this case: {detached}", p.id, hex::encode(&rec.key[..4])),
                ));
            }
            if let Some(prev) = seen.insert((rec.key.clone(), rec.nonce.clone()), p.id) {
                return Err(fail(
                    "aead_key_nonce_reused",
                    format!("parties {prev} and {} encrypted with the same AEAD key and nonce (key {}.., nonce {})", p.id, hex::encode(&rec.key[..4]), hex::encode(&rec.nonce)),
                ));
            }
            // classify by the AAD layout: PrivateContentAAD has authenticated_data<V> after content_type
            let mut r = Reader::new(&rec.aad);
            if r.opaque().is_some() && r.u64().is_some() {
                if let Some(ct) = r.u8() {
                    if !r.is_empty() {
                        if ct == 1 {
                            app_keys.insert(rec.key.clone());
                        } else {
                            hs_keys.insert(rec.key.clone());
                        }
                    }
                }
            }
        }
    }
    if let Some(k) = app_keys.intersection(&hs_keys).next() {
        return Err(fail("application_and_handshake_share_a_key", hex::encode(&k[..4])));
    }
    // Phase 2: messages that are overtaken by a commit. They reach the receiver in the next epoch (the old epoch is retained),
    // in a permuted order, possibly after a write + reload: each is accepted exactly once, every further copy is rejected,
    // also after another write + reload.
    let mut late_ok = 0u64;
    let mut late_dup = 0u64;
    // the commit is an encrypted handshake message itself: its sender must not have skipped handshake generations beyond the window
    let committers: Vec<usize> = members.iter().copied().filter(|m| !both_ratchets.contains(&(*m, true))).collect();
    if case.c(7) % 4 != 0 && members.len() >= 2 && !committers.is_empty() {
        let r = members[pick(case.c(8), members.len())];
        // only senders whose application ratchet the receiver has followed to the end (nothing left beyond the window)
        let senders: Vec<usize> = members
            .iter()
            .copied()
            .filter(|m| *m != r)
            .filter(|m| {
                let sent = send_gen.get(&(*m, false)).copied().unwrap_or(0);
                let next = model.get(&r).and_then(|x| x.get(&(*m, false))).map(|rm| rm.next).unwrap_or(0);
                sent == next
            })
            .collect();
        let mut late: Vec<(usize, u32, Vec<u8>, Vec<u8>)> = vec![];
        for (si, s) in senders.iter().take(2).enumerate() {
            for i in 0..1 + (case.c(9) as usize + si) % 3 {
                let payload = vec![0xA0 + i as u8; 3 + si];
                let party = &mut w.parties[*s];
                if party.g().commit_required() {
                    party.gm().clear_proposal_cache();
                }
                let leaf = party.leaf();
                let pl = payload.clone();
                let m = guard(|| party.gm().encrypt_application_message(&pl, vec![])).map_err(|e| setup_failure(P, "encrypt", &e))?;
                late.push((*s, leaf, m.to_bytes().expect("enc"), payload));
            }
        }
        for m in &members {
            w.parties[*m].gm().clear_proposal_cache();
        }
        // half of the time the receiver itself commits, and takes some of the messages while its commit is pending: what it
        // consumed then stays consumed in the record of the epoch it leaves
        let committer = if committers.contains(&r) && case.c(7) % 2 == 1 { r } else { committers[pick(case.c(6), committers.len())] };
        let mut early: BTreeSet<usize> = BTreeSet::new();
        let n_early = if committer == r { (late.len() + 1) / 2 } else { 0 };
        let late_ref = &late;
        let early_ref = &mut early;
        let mut hook = |w: &mut World, st: Stage| -> CaseResult {
            if let Stage::AfterBuild { committer } = st {
                for (i, (s, leaf, bytes, payload)) in late_ref.iter().enumerate().take(n_early) {
                    match w.process(committer, bytes) {
                        Err(e) if e.is_panic() => return Err(panic_failure(P, "process_incoming_message(while a commit is pending)", &e)),
                        Err(e) => return Err(fail(&format!("fresh_message_rejected_while_commit_pending|{}", e.class()), format!("receiver {committer}: message of sender {s}: {}", e.text()))),
                        Ok(ReceivedMessage::ApplicationMessage(d)) => {
                            if d.sender_index != *leaf || d.data() != &payload[..] {
                                return Err(fail("decrypted_message_misreported", format!("receiver {committer}: message of sender {s} taken while a commit is pending")));
                            }
                            early_ref.insert(i);
                        }
                        Ok(o) => return Err(fail("message_wrong_kind", format!("{o:?}").chars().take(100).collect())),
                    }
                }
            }
            Ok(())
        };
        match w.commit_round_with(committer, &CommitSpec::default(), &mut hook)? {
            Ok(_) => {}
            Err(e) => return Err(setup_failure(P, "commit_between_phases", &e)),
        }
        if !early.is_empty() {
            ev.class_n("messages_taken_while_own_commit_pending", early.len() as u64);
        }
        if case.c(7) % 3 == 0 {
            w.save(r).map_err(|e| setup_failure(P, "write_to_storage", &e))?;
            w.reload(r).map_err(|e| setup_failure(P, "load_group", &e))?;
        }
        for round in 0..3 {
            for i in permutation(late.len(), case.c(5) as u64 + round) {
                let (s, leaf, bytes, payload) = &late[i];
                let res = w.process(r, bytes);
                let round = if early.contains(&i) { round + 1 } else { round };
                match (round, res) {
                    (_, Err(e)) if e.is_panic() => return Err(panic_failure(P, "process_incoming_message(late message)", &e)),
                    (0, Ok(ReceivedMessage::ApplicationMessage(d))) => {
                        if d.sender_index != *leaf || d.data() != &payload[..] {
                            return Err(fail("decrypted_message_misreported", format!("receiver {r}: late message of sender {s}")));
                        }
                        late_ok += 1;
                    }
                    (0, Ok(o)) => return Err(fail("message_wrong_kind", format!("{o:?}").chars().take(100).collect())),
                    (0, Err(e)) => {
                        return Err(fail(
                            &format!("late_message_of_retained_epoch_rejected|{}", e.class()),
                            format!("receiver {r}: message of sender {s} from the previous epoch (retained), first delivery: {}", e.text()),
                        ))
                    }
                    (_, Ok(_)) => {
                        return Err(fail(
                            "replay_accepted|late_message_of_previous_epoch",
                            format!("receiver {r} accepted a message of sender {s} from the previous epoch a second time (delivery {}{}{})", round + 1, if round >= 2 { ", after write + reload" } else { "" }, if early.contains(&i) { ", first taken while its own commit was pending" } else { "" }),
                        ))
                    }
                    (_, Err(_)) => late_dup += 1,
                }
            }
            if round == 0 && case.c(9) % 2 == 0 {
                // a write that fails (the storage refuses it once): what the receiver has consumed stays consumed
                let party = &mut w.parties[r];
                party.ctl.arm(0, -1);
                let res = guard(|| party.gm().write_to_storage());
                let fired = party.ctl.fired.load(std::sync::atomic::Ordering::SeqCst);
                party.ctl.reset();
                match res {
                    Err(e) if e.is_panic() => return Err(panic_failure(P, "write_to_storage(storage fault)", &e)),
                    Err(_) if fired > 0 => ev.class("failed_writes_between_delivery_and_replay"),
                    Err(e) => return Err(setup_failure(P, "write_to_storage", &e)),
                    Ok(()) => {}
                }
            }
            if round == 1 {
                w.save(r).map_err(|e| setup_failure(P, "write_to_storage", &e))?;
                w.reload(r).map_err(|e| setup_failure(P, "load_group", &e))?;
            }
        }
    }
    ev.class_n("detached_commits_built_and_discarded", detached);
    ev.class_n("late_messages_of_previous_epoch_accepted_once", late_ok);
    ev.class_n("late_message_replays_rejected", late_dup);
    ev.class_n("aead_seals_checked_for_uniqueness", seals);
    ev.class_n("deliveries_out_of_order", out_of_order);
    ev.class_n("duplicate_deliveries_rejected", duplicates);
    ev.class_n("reloads_mid_stream", reloads);
    ev.class_n("gaps_of_1023_or_more", big_gaps);
    ev.class_n("deliveries_beyond_window", beyond_window);
    ev.class_n("messages", msgs.len() as u64);
    if senders_used.len() > 1 {
        ev.class("multi_sender_cases");
    }
    if both_ratchets.iter().any(|(s, h)| *h && both_ratchets.contains(&(*s, false))) {
        ev.class("cases_mixing_both_ratchets_of_one_sender");
    }
    if out_of_order > 0 && duplicates > 0 {
        ev.nontrivial(case);
        ev.sample(&format!("nt{}", msgs.len() % 4), || json!({"members": n, "messages": msgs.len(), "out_of_order": out_of_order, "duplicates": duplicates, "reloads": reloads, "big_gaps": big_gaps, "case": case.to_json()}));
    }
    Ok(())
}

/// The reuse guard's documented purpose: two copies of one sender state that encrypt with the
/// same generation key must not use the same nonce.
fn clone_guard_check(seed: u64, ev: &Evidence) -> CaseResult {
    for (i, kind) in ProviderKind::ALL.iter().enumerate() {
        let mut cfg = WorldCfg::default_for(1);
        cfg.providers = vec![*kind];
        let mut w = World::new(P, cfg);
        let a = w.new_party();
        w.create_group(a).map_err(|e| setup_failure(P, "create_group", &e))?;
        let b = w.new_party();
        let mut spec = CommitSpec::default();
        spec.add.push(b);
        w.commit_round(a, &spec)?.map_err(|e| setup_failure(P, "commit", &e))?;
        // deterministic provider randomness so that the outcome is a function of the seed
        *w.parties[a].crypto.log.seeded_random.lock().unwrap() = Some(SplitMix::new(seed, 500 + i as u64));
        w.parties[a].crypto.log.start();
        let mut c1 = w.parties[a].g().clone();
        let mut c2 = w.parties[a].g().clone();
        for _ in 0..8 {
            guard(|| c1.encrypt_application_message(b"same generation", vec![])).map_err(|e| setup_failure(P, "encrypt", &e))?;
            guard(|| c2.encrypt_application_message(b"same generation", vec![])).map_err(|e| setup_failure(P, "encrypt", &e))?;
        }
        let (_, aead) = w.parties[a].crypto.log.stop();
        *w.parties[a].crypto.log.seeded_random.lock().unwrap() = None;
        let mut by_key: BTreeMap<Vec<u8>, Vec<Vec<u8>>> = BTreeMap::new();
        for r in aead {
            // content encryptions only
            let mut rd = Reader::new(&r.aad);
            if rd.opaque().is_some() && rd.u64().is_some() && rd.u8().is_some() && !rd.is_empty() {
                by_key.entry(r.key).or_default().push(r.nonce);
            }
        }
        let mut shared_keys = 0;
        for (k, nonces) in by_key {
            if nonces.len() >= 2 {
                shared_keys += 1;
                let set: BTreeSet<_> = nonces.iter().collect();
                if set.len() != nonces.len() {
                    return Err(fail("clones_reuse_key_and_nonce", format!("provider {}: key {}.. used twice with the same nonce by two copies of a sender", kind.name(), hex::encode(&k[..4]))));
                }
            }
        }
        if shared_keys == 0 {
            return Err(fail("clone_check_vacuous", "clones did not share any generation key".into()));
        }
        ev.eval(1);
        ev.class("clone_reuse_guard_checks");
    }
    Ok(())
}

pub fn run(ctx: &Ctx) -> ! {
    let ev = Evidence::new(P, ctx.tier, ctx.seed, "exploration");
    ev.set_rule(
        "one epoch, 2-4 members with encrypted handshake messages; generated streams of application messages and encrypted proposals from 1-4 senders (the sender discards 0/1/2/5/30/1023/1024/1025 \
         messages before one that is delivered), per-receiver delivery schedules with permutation, duplicates, late delivery and write+reload of sender or receiver mid-stream; then messages overtaken by a commit are delivered in the next epoch (accepted once, every replay rejected, also across write+reload). Oracle: explicit \
         exactly-once model per (receiver, sender, ratchet): {consumed generations, ratchet position}; a delivery must succeed iff its generation is unconsumed and at most 1024 ahead, yielding \
         the original payload and sender; a consumed generation must be rejected; beyond the window only no-panic is demanded; at the end every message has been accepted exactly once by every \
         receiver. Recorder oracle: all (key, nonce) pairs of all AEAD encryptions of all members are pairwise distinct; keys used for application content and handshake content are disjoint. \
         Senders also build detached commits and discard them: no AEAD key may occur in two seals. In phase 2 the receiver is often the committer and takes half of the late messages while its commit is pending. Between first delivery and replay of the late messages the receiver's write sometimes meets a storage that fails once. Clone check: two copies of a sender encrypting the same generation use different nonces (provider randomness seeded). Non-trivial = schedule with >= 1 out-of-order delivery and >= 1 duplicate.",
    );
    ev.assume("state rollback (reloading an older snapshot after having sent) is the application's fault and is not modelled: reloads always follow a write");
    let run = |c: &Case| run_case(c, &ev);
    if let Some(path) = &ctx.replay {
        let v: serde_json::Value = serde_json::from_str(&std::fs::read_to_string(path).unwrap_or_default()).unwrap_or_default();
        let case = Case::from_json(&v["case"]).unwrap_or_else(|| inconclusive(&ev, "no case"));
        return match run(&case) {
            Ok(()) => finish_ok(&ev),
            Err(f) => finish_violation(&ev, Violation { failure: f, case: Some(case.clone()) }, case.to_json()),
        };
    }
    if let Err(f) = clone_guard_check(ctx.seed, &ev) {
        finish_violation(&ev, Violation { failure: f, case: None }, json!({"clone_guard_check": true}));
    }
    for (_, v) in load_replays(P) {
        if let Some(case) = Case::from_json(&v["case"]) {
            if let Err(f) = run(&case) {
                finish_violation(&ev, Violation { failure: f, case: Some(case.clone()) }, case.to_json());
            }
        }
    }
    let spec = RunSpec { shards: 16, cases_per_shard: ctx.tier.pick(60, 400), cfg_len: CFG_LEN, min_ops: 6, max_ops: ctx.tier.pick(60, 120), max_shrink_iters: 60 };
    match run_sharded(&ev, &spec, 5, &run) {
        Ok(()) => finish_ok(&ev),
        Err(v) => {
            let payload = v.case.as_ref().map(|c| c.to_json()).unwrap_or_default();
            finish_violation(&ev, v, payload)
        }
    }
}
