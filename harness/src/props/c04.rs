//! C04 — a rejected message leaves the group exactly as it was.
use crate::engine::*;
use crate::history::*;
use crate::mutate::mutate_message;
use crate::world::*;
use crate::Ctx;
use mls_rs::group::proposal::{CustomProposal, ProposalType};
use mls_rs::verif_hooks::VerifState;
use mls_rs::MlsMessage;

const P: &str = "C04";

pub fn snap_group(party: &Party, g: &VGroup) -> Result<VerifState, Failure> {
    let _s = party.ctl.suspend();
    g.verif_state().map_err(|e| Failure::new(format!("{P}|hook_failed"), format!("{e:?}")))
}

pub fn snap(w: &World, m: usize) -> Result<VerifState, Failure> {
    snap_group(&w.parties[m], w.parties[m].g())
}

pub fn diff_components(d: &[(String, String)]) -> String {
    let mut c: Vec<&str> = d.iter().map(|(c, _)| c.as_str()).collect();
    c.sort();
    c.dedup();
    c.join(",")
}

pub struct Obs {
    ev: &'static Evidence,
    rng: SplitMix,
    pub injections: u64,
    /// detached commits built by discarded clones: (member, epoch, CommitSecrets)
    stale: Vec<(usize, u64, Vec<u8>)>,
    /// second handles on members' groups (copies sharing the member's storage) taken right before a commit arrives:
    /// (member, copy, the commit)
    stale_handles: Vec<(usize, VGroup, Vec<u8>)>,
}

/// Error classes produced before any authentication happens.
fn early_reject(class: &str) -> bool {
    matches!(
        class,
        "SerializationError" | "InvalidEpoch" | "GroupIdMismatch" | "UnexpectedMessageType" | "ProtocolVersionMismatch" | "CantProcessMessageFromSelf" | "UnencryptedApplicationMessage"
    )
}

impl Obs {
    /// Deliver `bytes` (which must be rejected) to member `m`: first on a clone, then — unless a
    /// listed known finding was hit — on the member itself. State must be canonically unchanged.
    fn try_rejected(&mut self, w: &mut World, m: usize, bytes: &[u8], what: &str, genuine: Option<&[u8]>) -> CaseResult {
        // signature class: every private message that is rejected after its message key was derived
        // shares one root cause (the key is consumed when handed out), whatever rejects it later
        let is_private = MlsMessage::from_bytes(bytes).map(|x| x.wire_format() == mls_rs::WireFormat::PrivateMessage).unwrap_or(false);
        // (a message beyond the look-ahead window is refused before any key is handed out: not that root cause)
        let sigclass: String = if is_private && what != "application_beyond_the_window" { "private_message".into() } else { what.to_string() };
        let t = w.now();
        self.injections += 1;
        let flags = {
            let s = snap(w, m)?;
            format!(
                "{}{}{}",
                if s.has_pending_commit() { "+pending_commit" } else { "" },
                if s.pending_updates() > 0 { "+pending_update" } else { "" },
                if s.cached_proposals() > 0 { "+cached_proposals" } else { "" }
            )
        };
        let party = &w.parties[m];
        let mut clone = party.g().clone();
        let before = snap_group(party, &clone)?;
        let r = guard(|| {
            let msg = MlsMessage::from_bytes(bytes)?;
            clone.process_incoming_message_with_time(msg, t)
        });
        let err = match r {
            Ok(_) => {
                self.ev.class(&format!("not_rejected:{what}"));
                return Ok(());
            }
            Err(e) if e.is_panic() => return Err(panic_failure(P, &format!("process_incoming_message({what})"), &e)),
            Err(e) => e,
        };
        let class = err.class();
        self.ev.class(&format!("rejected:{class}"));
        self.ev.class(&format!("rejected_as:{what}"));
        let after = snap_group(party, &clone)?;
        let d = before.diff(&after);
        if !before.strict_eq(&after) && d.is_empty() {
            self.ev.class("byte_unequal_but_canonically_equal");
        }
        if !d.is_empty() {
            let sig = format!("{P}|rejected_message_changed_state|{sigclass}|diff={}", diff_components(&d));
            self.ev.known_or_fail(&sig, || {
                format!("party {m} (epoch {}) rejected a message ({what}) with {class} but its state changed: {d:?}; message {}", w.epoch, hex::encode(&bytes[..bytes.len().min(80)]))
            })?;
            // known finding: show its consequence on the clone, leave the real member alone
            if let Some(g) = genuine {
                let r2 = guard(|| {
                    let msg = MlsMessage::from_bytes(g)?;
                    clone.process_incoming_message_with_time(msg, t)
                });
                if let Err(e) = r2 {
                    let sig2 = format!("{P}|genuine_rejected_after_rejected_copy|{sigclass}|{}", e.class());
                    self.ev.known_or_fail(&sig2, || format!("party {m}: genuine message fails after a corrupted copy was rejected: {}", e.text()))?;
                }
            }
            self.ev.class("excluded_known");
            return Ok(());
        }
        if !early_reject(&class) || !flags.is_empty() {
            self.ev.nontrivial(&(what, &class, &flags, bytes.len(), m, w.epoch));
        }
        // the same on the member itself
        let before = snap(w, m)?;
        let r = w.process(m, bytes);
        match r {
            Ok(_) => {
                return Err(Failure::new(
                    format!("{P}|clone_and_member_disagree|{what}"),
                    format!("a clone of party {m} rejected the message with {class}, the member itself accepted it"),
                ))
            }
            Err(e) if e.is_panic() => return Err(panic_failure(P, &format!("process_incoming_message({what})"), &e)),
            Err(_) => {}
        }
        let after = snap(w, m)?;
        let d = before.diff(&after);
        if !d.is_empty() {
            let sig = format!("{P}|rejected_message_changed_state|{what}|diff={}", diff_components(&d));
            return Err(Failure::new(sig, format!("party {m}: {d:?} (the clone was unchanged)")));
        }
        Ok(())
    }

    fn failed_build(&mut self, w: &mut World, m: usize, which: u16) -> CaseResult {
        let before = snap(w, m)?;
        let t = w.now();
        let leaf = w.parties[m].leaf();
        // a correctly signed key package whose init key cannot be sealed to (X25519: the all-zero point passes the
        // public-key check and fails in HPKE; other suites: one byte short): the build fails late, while the Welcome is made
        let unusable_kp = if which % 7 == 6 {
            let np = w.new_party();
            crate::forge::key_package_with_init_key(w, np, |k| if k.len() == 32 { vec![0u8; 32] } else { k[..k.len() - 1].to_vec() }).and_then(|b| MlsMessage::from_bytes(&b).ok())
        } else {
            None
        };
        let party = &mut w.parties[m];
        let (what, r): (&str, Result<(), OpErr>) = match which % 7 {
            6 => match unusable_kp {
                Some(kp) => ("commit_adding_key_package_with_unusable_init_key", guard(|| party.gm().commit_builder().add_member(kp)?.commit_time(t).build().map(|_| ()))),
                None => return Ok(()),
            },
            0 => ("commit_removing_self", guard(|| party.gm().commit_builder().remove_member(leaf)?.commit_time(t).build().map(|_| ()))),
            1 => (
                "commit_with_unknown_psk",
                guard(|| party.gm().commit_builder().add_external_psk(mls_rs::psk::ExternalPskId::new(b"nobody has this".to_vec()))?.commit_time(t).build().map(|_| ())),
            ),
            2 => ("propose_remove_bad_index", guard(|| party.gm().propose_remove(9_999, vec![]).map(|_| ()))),
            3 => ("commit_remove_bad_index", guard(|| party.gm().commit_builder().remove_member(8_888)?.commit_time(t).build().map(|_| ()))),
            4 => (
                "commit_two_gce",
                guard(|| {
                    let mut e = mls_rs::ExtensionList::new();
                    e.set(mls_rs::Extension::new(EXT_TYPE.into(), vec![1]));
                    party
                        .gm()
                        .commit_builder()
                        .set_group_context_ext(e.clone())?
                        .raw_proposal(mls_rs::group::proposal::Proposal::GroupContextExtensions(e))
                        .commit_time(t)
                        .build()
                        .map(|_| ())
                }),
            ),
            _ => (
                "commit_with_resumption_psk_of_unknown_epoch",
                guard(|| party.gm().commit_builder().add_resumption_psk(1_000_000)?.commit_time(t).build().map(|_| ())),
            ),
        };
        match r {
            Ok(()) => {
                // the library accepted it (e.g. no pending state): undo so that the history can go on
                self.ev.class(&format!("build_not_refused:{what}"));
                w.parties[m].gm().clear_pending_commit();
                Ok(())
            }
            Err(e) if e.is_panic() => Err(panic_failure(P, what, &e)),
            Err(e) => {
                self.ev.class(&format!("failed_build:{what}:{}", e.class()));
                let after = snap(w, m)?;
                let d = before.diff(&after);
                if !d.is_empty() {
                    let sig = format!("{P}|failed_build_changed_state|{what}|diff={}", diff_components(&d));
                    return self.ev.known_or_fail(&sig, || format!("party {m}: {what} failed with {} but changed the state: {d:?}", e.class()));
                }
                self.ev.nontrivial(&("build", what, m, w.epoch));
                Ok(())
            }
        }
    }
}

impl Observer for Obs {
    fn on_start(&mut self, w: &mut World) {
        w.keep_wire_log = true;
    }

    fn extra_op(&mut self, w: &mut World, op: &[u16; 5], _notes: &mut EpochNotes) -> CaseResult {
        let members = w.members();
        if members.len() < 2 {
            return Ok(());
        }
        let m = members[pick(op[1], members.len())];
        let others: Vec<usize> = members.iter().copied().filter(|x| *x != m).collect();
        let s = others[pick(op[3], others.len())];
        match pick(op[2], 13) {
            11 | 12 => {
                // failed operation: applying the secrets of a detached commit of an older epoch (built by a discarded clone)
                let cand = self.stale.iter().position(|(p, e, _)| members.contains(p) && *e < w.parties[*p].g().current_epoch() && !w.parties[*p].g().has_pending_commit());
                if let Some(ix) = cand {
                    let (m, e, sec) = self.stale.remove(ix);
                    let now = w.parties[m].g().current_epoch();
                    let before = snap(w, m)?;
                    let party = &mut w.parties[m];
                    match guard(|| party.gm().apply_detached_commit(mls_rs::group::CommitSecrets::from_bytes(&sec)?).map(|_| ())) {
                        Ok(()) => return Err(Failure::new(format!("{P}|stale_detached_commit_applied"), format!("party {m} in epoch {now} applied the secrets of a detached commit built in epoch {e}"))),
                        Err(e) if e.is_panic() => return Err(panic_failure(P, "apply_detached_commit", &e)),
                        Err(err) => {
                            let after = snap(w, m)?;
                            let d = before.diff(&after);
                            if !d.is_empty() {
                                let sig = format!("{P}|failed_build_changed_state|apply_stale_detached_commit|diff={}", diff_components(&d));
                                return self.ev.known_or_fail(&sig, || format!("party {m}: apply_detached_commit (built in epoch {e}, now {now}) failed with {} but changed the state: {d:?}", err.class()));
                            }
                            self.ev.class(&format!("failed_build:apply_stale_detached_commit:{}", err.class()));
                            self.ev.nontrivial(&("stale_detached", m, e, now));
                        }
                    }
                }
                // ... and a new detached commit by a discarded clone of m: its secrets are stale as soon as the group moves on
                let mut clone = w.parties[m].g().clone();
                let t = w.now();
                if let Ok((_, secrets)) = guard(|| clone.commit_builder().commit_time(t).build_detached()) {
                    if let Ok(b) = secrets.to_bytes() {
                        self.stale.retain(|(p, _, _)| *p != m);
                        self.stale.push((m, w.parties[m].g().current_epoch(), b));
                    }
                }
            }
            10 => {
                // a genuine application message far beyond the receiver's look-ahead window (made by a discarded clone of the
                // sender, so the sender's real ratchet stays where it is): rejected, and nothing may have moved
                w.flush(op[4])?;
                if w.parties[s].g().commit_required() || w.parties[s].g().current_epoch() != w.parties[m].g().current_epoch() {
                    return Ok(());
                }
                let mut clone = w.parties[s].g().clone();
                let mut last = None;
                let gap = 1026 + (op[4] % 3) as usize;
                for _ in 0..gap {
                    match guard(|| clone.encrypt_application_message(b"far", vec![])) {
                        Ok(x) => last = Some(x),
                        Err(e) if e.is_panic() => return Err(panic_failure(P, "encrypt_application_message", &e)),
                        Err(_) => return Ok(()),
                    }
                }
                if let Some(msg) = last {
                    let bytes = msg.to_bytes().expect("enc");
                    self.try_rejected(w, m, &bytes, "application_beyond_the_window", None)?;
                    self.ev.class("application_beyond_the_window");
                }
            }
            8 | 9 => {
                // A ReInit commit built by a discarded clone of s (so the group goes on): corrupted copies, and a copy with a
                // wrong confirmation tag under a fresh membership tag, must be rejected without a trace: a rejected
                // re-initialisation must not freeze the member.
                w.flush(op[4])?;
                if w.parties[s].g().current_epoch() != w.parties[m].g().current_epoch() {
                    return Ok(());
                }
                let mut clone = w.parties[s].g().clone();
                let t = w.now();
                let suite = w.cfg.suite;
                let built = guard(|| {
                    clone
                        .commit_builder()
                        .reinit(Some(b"successor".to_vec()), mls_rs::ProtocolVersion::MLS_10, mls_rs::CipherSuite::from(suite), mls_rs::ExtensionList::new())?
                        .commit_time(t)
                        .build()
                });
                let bytes = match built {
                    Ok(o) => o.commit_message.to_bytes().expect("enc"),
                    Err(e) if e.is_panic() => return Err(panic_failure(P, "commit_builder.reinit.build", &e)),
                    Err(_) => return Ok(()),
                };
                for i in 0..2 {
                    if let Some(mu) = mutate_message(&bytes, self.rng.next() as u16, self.rng.next() as u16, self.rng.next() as u16 ^ i) {
                        self.try_rejected(w, m, &mu.bytes, &format!("corrupt_reinit_commit:{}", mu.field), None)?;
                    }
                }
                let keys = w.parties[s].g().verif_epoch_keys();
                let ctx = mls_rs::mls_rs_codec::MlsEncode::mls_encode_to_vec(w.parties[s].g().context()).expect("ctx");
                if let Some(f) = crate::forge::wrong_confirmation_tag(suite, &bytes, &keys.key_schedule.membership_key, &ctx) {
                    self.try_rejected(w, m, &f, "reinit_commit_wrong_confirmation_tag", None)?;
                    self.ev.class("reinit_commit_wrong_confirmation_tag");
                }
            }
            0 | 1 => {
                // corrupted copies of a genuine application message from s
                if w.parties[s].g().commit_required() {
                    return Ok(());
                }
                let payload = vec![op[4] as u8; (op[4] % 90) as usize];
                if let Err(e) = w.send_app(s, payload, vec![1, 2, 3]) {
                    return Err(op_failure(P, "encrypt_application_message", &e));
                }
                let genuine = w.inflight.last().unwrap().bytes.clone();
                for i in 0..1 + (op[4] % 3) {
                    if let Some(mu) = mutate_message(&genuine, self.rng.next() as u16, self.rng.next() as u16, self.rng.next() as u16 ^ i) {
                        self.try_rejected(w, m, &mu.bytes, &format!("corrupt_application:{}", mu.field), Some(&genuine))?;
                    }
                }
            }
            2 => {
                // corrupted copies of a genuine proposal from s
                let cp = CustomProposal::new(ProposalType::new(CUSTOM_PROPOSAL), vec![op[4] as u8; 5]);
                let party = &mut w.parties[s];
                let msg = match guard(|| party.gm().propose_custom(cp, vec![9])) {
                    Ok(x) => x,
                    Err(e) => return Err(op_failure(P, "propose_custom", &e)),
                };
                w.push_proposal(s, msg, vec![9]).map_err(|e| setup_failure(P, "encode", &e))?;
                let genuine = w.inflight.last().unwrap().bytes.clone();
                let enc = if w.parties[s].enc_opts.encrypt_control_messages { "private" } else { "public" };
                for i in 0..1 + (op[4] % 3) {
                    if let Some(mu) = mutate_message(&genuine, self.rng.next() as u16, self.rng.next() as u16, self.rng.next() as u16 ^ i) {
                        self.try_rejected(w, m, &mu.bytes, &format!("corrupt_{enc}_proposal:{}", mu.field), Some(&genuine))?;
                    }
                }
            }
            3 => {
                // duplicate: deliver all in-flight traffic, then replay an application message
                w.flush(op[4])?;
                if w.parties[s].g().commit_required() {
                    return Ok(());
                }
                if let Err(e) = w.send_app(s, b"dup".to_vec(), vec![]) {
                    return Err(op_failure(P, "encrypt_application_message", &e));
                }
                let genuine = w.inflight.last().unwrap().bytes.clone();
                w.flush(0)?;
                self.try_rejected(w, m, &genuine, "duplicate_application", None)?;
            }
            4 => {
                // own message
                if w.parties[m].g().commit_required() {
                    return Ok(());
                }
                if let Err(e) = w.send_app(m, b"own".to_vec(), vec![]) {
                    return Err(op_failure(P, "encrypt_application_message", &e));
                }
                let genuine = w.inflight.last().unwrap().bytes.clone();
                self.try_rejected(w, m, &genuine, "own_application", None)?;
            }
            5 => {
                // replay of traffic of an earlier epoch (commit, proposal, application)
                let old: Vec<(&'static str, Vec<u8>)> = w
                    .wire_log
                    .iter()
                    .filter(|(k, b)| matches!(*k, "commit" | "proposal" | "application" | "external_commit") && MlsMessage::from_bytes(b).ok().and_then(|x| x.epoch()).map(|e| e < w.epoch).unwrap_or(false))
                    .cloned()
                    .collect();
                if old.is_empty() {
                    return Ok(());
                }
                let (k, b) = &old[pick(op[4], old.len())];
                self.try_rejected(w, m, b, &format!("old_epoch_{k}"), None)?;
            }
            _ => {
                self.failed_build(w, m, op[4])?;
            }
        }
        Ok(())
    }

    fn after_commit(&mut self, w: &mut World, _info: &CommitInfo, _st: &HistoryStats) -> CaseResult {
        // A second handle on a member's group that has not seen the commit yet, while the member itself has processed it
        // and written its state: whatever the handle answers to the (genuine) commit, a refusal must leave it as it was.
        for (m, mut copy, bytes) in std::mem::take(&mut self.stale_handles) {
            if w.parties[m].status != Status::Member {
                continue;
            }
            if w.save(m).is_err() {
                continue;
            }
            let t = w.now();
            let before = snap_group(&w.parties[m], &copy)?;
            match guard(|| copy.process_incoming_message_with_time(MlsMessage::from_bytes(&bytes)?, t).map(|_| ())) {
                Ok(()) => self.ev.class("stale_handle_accepts_the_commit"),
                Err(e) if e.is_panic() => return Err(panic_failure(P, "process_incoming_message(commit, stale handle)", &e)),
                Err(e) => {
                    let after = snap_group(&w.parties[m], &copy)?;
                    let d = before.diff(&after);
                    if !d.is_empty() {
                        // (a private commit has had its message key taken out of the ratchet by then: the listed root cause)
                        let is_private = MlsMessage::from_bytes(&bytes).map(|x| x.wire_format() == mls_rs::WireFormat::PrivateMessage).unwrap_or(false);
                        let sig = format!("{P}|rejected_message_changed_state|{}|diff={}", if is_private { "private_message" } else { "commit_on_stale_handle" }, diff_components(&d));
                        return self.ev.known_or_fail(&sig, || format!("a copy of party {m}'s group refused the commit ({}) that the member had already processed and stored, but changed: {d:?}", e.class()));
                    }
                    self.ev.class(&format!("stale_handle_refuses_the_commit_unchanged:{}", e.class()));
                    self.ev.nontrivial(&("stale_handle", m, w.epoch));
                }
            }
        }
        Ok(())
    }

    fn before_receive_commit(&mut self, w: &mut World, m: usize, bytes: &[u8]) -> CaseResult {
        if self.rng.below(4) == 0 && self.stale_handles.len() < 2 && !w.parties[m].g().has_pending_commit() {
            self.stale_handles.push((m, w.parties[m].g().clone(), bytes.to_vec()));
        }
        // a copy of the commit with a wrong confirmation tag under a fresh membership tag (public handshake): it passes
        // every check before the key schedule
        if self.rng.below(3) == 0 {
            if let Some(c) = w.members().into_iter().find(|c| w.parties[*c].g().has_pending_commit() && *c != m) {
                let keys = w.parties[c].g().verif_epoch_keys();
                let ctx = mls_rs::mls_rs_codec::MlsEncode::mls_encode_to_vec(w.parties[c].g().context()).expect("ctx");
                if let Some(f) = crate::forge::wrong_confirmation_tag(w.cfg.suite, bytes, &keys.key_schedule.membership_key, &ctx) {
                    self.try_rejected(w, m, &f, "commit_wrong_confirmation_tag_remaced", Some(bytes))?;
                    self.ev.class("commit_wrong_confirmation_tag_remaced");
                }
            }
        }
        match self.rng.below(10) {
            0..=2 => {
                // corrupted copies of the commit before the genuine one
                for _ in 0..1 + self.rng.below(2) {
                    if let Some(mu) = mutate_message(bytes, self.rng.next() as u16, self.rng.next() as u16, self.rng.next() as u16) {
                        let kind = if MlsMessage::from_bytes(bytes).map(|x| x.wire_format() == mls_rs::WireFormat::PublicMessage).unwrap_or(false) { "public" } else { "private" };
                        self.try_rejected(w, m, &mu.bytes, &format!("corrupt_{kind}_commit:{}", mu.field), Some(bytes))?;
                    }
                }
            }
            3 => {
                // the receiver has a pending commit of its own (it loses the race); corrupted copies first
                if !w.parties[m].g().has_pending_commit() {
                    let t = w.now();
                    let party = &mut w.parties[m];
                    match guard(|| party.gm().commit_builder().commit_time(t).build().map(|_| ())) {
                        Ok(()) => self.ev.class("receiver_with_own_pending_commit"),
                        Err(e) if e.is_panic() => return Err(panic_failure(P, "commit_builder.build", &e)),
                        Err(_) => {}
                    }
                }
                if let Some(mu) = mutate_message(bytes, self.rng.next() as u16, self.rng.next() as u16, self.rng.next() as u16) {
                    self.try_rejected(w, m, &mu.bytes, &format!("corrupt_commit_while_pending:{}", mu.field), Some(bytes))?;
                }
            }
            4 => {
                // the receiver lacks the external PSKs: a commit that uses one must be rejected cleanly
                let saved: Vec<(Vec<u8>, Option<Vec<u8>>)> = (0..3u8).map(|i| (vec![b'p', b's', b'k', i], w.parties[m].pstore.value(&[b'p', b's', b'k', i]))).collect();
                for (id, _) in &saved {
                    w.parties[m].pstore.remove(id);
                }
                let r = self.try_rejected(w, m, bytes, "commit_with_missing_psk", None);
                for (id, v) in saved {
                    if let Some(v) = v {
                        w.parties[m].pstore.put(&id, &v);
                    }
                }
                r?;
            }
            5 => {
                // the receiver's application refuses every credential that is not yet in the group
                let roster: Vec<Vec<u8>> = w.parties[m].g().roster().members().iter().filter_map(|x| x.signing_identity.credential.as_basic().map(|b| b.identifier.clone())).collect();
                let outsiders: Vec<Vec<u8>> = w.parties.iter().map(|p| p.name.clone()).filter(|n| !roster.contains(n)).collect();
                {
                    let mut rj = w.parties[m].idp.reject.lock().unwrap();
                    for o in &outsiders {
                        rj.insert(o.clone());
                    }
                }
                let r = self.try_rejected(w, m, bytes, "commit_with_refused_credential", None);
                w.parties[m].idp.reject.lock().unwrap().clear();
                r?;
            }
            _ => {}
        }
        Ok(())
    }
}

pub fn run(ctx: &Ctx) -> ! {
    let mut hp = HistoryParams::standard(ctx.tier);
    hp.weights = [8, 8, 7, 3, 2, 2, 2, 26, 4, 6, 2, 22];
    hp.max_initial = ctx.tier.pick(6, 12);
    let spec = RunSpec {
        shards: 16,
        cases_per_shard: ctx.tier.pick(60, 300),
        cfg_len: CFG_LEN,
        min_ops: 4,
        max_ops: ctx.tier.pick(26, 60),
        max_shrink_iters: 300,
    };
    run_property(
        ctx,
        P,
        "exploration",
        "C01-style histories with injected messages that must be rejected, at generated points: field-addressed corruptions (bit flip / truncation / byte set / trailing byte; \
         fields chosen uniformly among the wire fields) of genuine application messages, proposals (public and private) and commits; duplicates; own messages; replays of earlier \
         epochs; commits arriving while the receiver lacks the PSK or while its application refuses the new credentials; corrupted commits while the receiver holds its own pending \
         commit, cached proposals or a pending own update; and builds the library must refuse (self-removal, unknown PSK, bad index, two GCE, unknown resumption epoch, an Add whose key package has a correctly signed but unusable init key so that the build fails only while the Welcome is sealed; the secrets of a detached commit of an older epoch). \
         A second handle on a member's group, taken before a commit arrives, gets the genuine commit after the member has processed and stored it: a refusal must leave the handle unchanged. Oracle: hook Group::verif_state() before/after the failing call under canonical equality (decoded values, secret tree in normal form, clean cached prior epochs dropped), \
         first on a clone then on the member; afterwards the genuine message is delivered and must be accepted, and the history goes on with N-way agreement and cross-decryption. \
         Non-trivial = rejection at or after authentication (error class not decode/epoch/group-id/wire-format) or while a pending commit / pending update / cached proposals exist; \
         distinct by (injection kind, field, error class, state flags, member, epoch).",
        &hp,
        spec,
        &|case, ev| Obs { ev, rng: SplitMix::new(((case.c(7) as u64) << 16) | case.c(8) as u64, 4), injections: 0, stale: vec![], stale_handles: vec![] },
        &|_, o| {
            o.ev.class_n("injections", o.injections);
            false
        },
    )
}
