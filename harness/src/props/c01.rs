//! C01 — all members that process the same commits reach the same epoch state.
use crate::engine::*;
use crate::history::*;
use crate::Ctx;

const P: &str = "C01";

pub fn run(ctx: &Ctx) -> ! {
    let mut hp = HistoryParams::standard(ctx.tier);
    // removals also come through the application's rules (a 'kick' custom proposal expanded into a local Remove)
    hp.kicks = true;
    let spec = RunSpec {
        shards: 16,
        cases_per_shard: ctx.tier.pick(100, 400),
        cfg_len: CFG_LEN,
        min_ops: 3,
        max_ops: ctx.tier.pick(26, 70),
        max_shrink_iters: 300,
    };
    run_property(
        ctx,
        P,
        "exploration",
        "case = (world config: suite, provider mix, commit options, handshake encryption, padding) + op sequence over \
         {by-ref add/update(+identity)/remove/ext-PSK/resumption-PSK/GCE/custom proposals, commits with by-value adds/removes/PSKs/GCE/custom/identity change, \
         external commits (new party, rejoin, resync), application messages, per-member permuted delivery}. Oracle after every accepted commit: \
         all members have equal GroupContext, roster, exported tree bytes, epoch authenticator and export_secret for 3 (label, context, len) triples; \
         epoch = #accepted commits; roster = set of parties that follow the group; then every member encrypts and every other member decrypts with the true sender/payload/aad. \
         Non-trivial = history with >= 2 commits and a commit while an interior leaf is blank, or with unmerged leaves, or an external commit, or a change of tree size, or mixed providers; distinct by case value.",
        &hp,
        spec,
        &|_, _| NoObserver,
        &|st, _| history_nontrivial(st),
    )
}
