//! C17 — re-init and branch keep the membership rules and the link to the old group.
use crate::engine::*;
use crate::history::{setup_failure, CFG_LEN};
use crate::providers::ProviderKind;
use crate::world::*;
use crate::Ctx;
use mls_rs::group::ExportedTree;
use mls_rs::{CipherSuite, ExtensionList, MlsMessage, ProtocolVersion};
use serde_json::json;

const P: &str = "C17";

fn fail(what: &str, detail: String) -> Failure {
    Failure::new(format!("{P}|{what}"), detail)
}

#[derive(Clone, Copy, PartialEq, Eq, Debug)]
enum Variant {
    Equal,
    StrictSubset,
    Superset,
    Replaced,
}

fn groups_agree(groups: &[(usize, &VGroup)]) -> CaseResult {
    let Some((first, g0)) = groups.first() else { return Ok(()) };
    let a0 = g0.epoch_authenticator().map(|s| s.as_bytes().to_vec()).unwrap_or_default();
    for (p, g) in groups.iter().skip(1) {
        if g.context() != g0.context() || g.epoch_authenticator().map(|s| s.as_bytes().to_vec()).unwrap_or_default() != a0 || g.export_tree().to_bytes().ok() != g0.export_tree().to_bytes().ok() {
            return Err(fail("successor_members_disagree", format!("parties {first} and {p}")));
        }
    }
    Ok(())
}

fn run_case(case: &Case, ev: &Evidence) -> CaseResult {
    ev.eval(1);
    let old_suite = [1u16, 3, 1, 2][pick(case.c(0), 4)];
    let mut cfg = WorldCfg::default_for(old_suite);
    cfg.providers = vec![ProviderKind::ALL[pick(case.c(1), 3)]];
    cfg.encrypt_handshake = case.c(2) & 1 == 1;
    cfg.ratchet_tree_extension = case.c(2) & 2 == 0;
    let mut w = World::new(P, cfg);
    let creator = w.new_party();
    w.create_group(creator).map_err(|e| setup_failure(P, "create_group", &e))?;
    let n = 3 + pick(case.c(3), 5);
    let mut spec = CommitSpec::default();
    for _ in 1..n {
        spec.add.push(w.new_party());
    }
    w.commit_round(creator, &spec)?.map_err(|e| setup_failure(P, "initial_commit", &e))?;

    // shape the old group: interior removal (blank leaf), identity change, more epochs
    let mut blank_interior = false;
    let mut identity_changed = false;
    let mut rng = SplitMix::new(((case.c(4) as u64) << 16) | case.c(5) as u64, 17);
    for op in case.ops.iter().take(4) {
        let members = w.members();
        match op[0] % 4 {
            0 if members.len() > 3 => {
                // remove a member that is not at the last leaf
                let c = members[pick(op[1], members.len())];
                let max_leaf = members.iter().map(|m| w.parties[*m].leaf()).max().unwrap();
                let cand: Vec<usize> = members.iter().copied().filter(|m| *m != c && w.parties[*m].leaf() != max_leaf).collect();
                if cand.is_empty() {
                    continue;
                }
                let t = cand[pick(op[2], cand.len())];
                let leaf = w.parties[t].leaf();
                if w.commit_round(c, &CommitSpec { remove: vec![leaf], ..Default::default() })?.is_ok() {
                    blank_interior = true;
                }
            }
            1 => {
                let c = members[pick(op[1], members.len())];
                if w.commit_round(c, &CommitSpec { new_identity: true, ..Default::default() })?.is_ok() {
                    identity_changed = true;
                }
            }
            2 => {
                let c = members[pick(op[1], members.len())];
                let _ = w.commit_round(c, &CommitSpec::default())?;
            }
            _ => {}
        }
    }
    w.agree(&[])?;
    let members = w.members();
    let t = w.tick();
    let do_branch = case.c(6) % 3 == 0;
    let variant = [Variant::Equal, Variant::Equal, Variant::StrictSubset, Variant::Superset, Variant::Replaced][pick(case.c(7), 5)];
    let leader = members[pick(case.c(8), members.len())];
    let others: Vec<usize> = members.iter().copied().filter(|m| *m != leader).collect();
    let new_suite = if do_branch { old_suite } else { [old_suite, if old_suite == 1 { 3 } else { 1 }, old_suite][pick(case.c(9), 3)] };
    let sig_compatible = matches!((old_suite, new_suite), (1, 3) | (3, 1)) || old_suite == new_suite;

    // snapshot of a member before the re-init commit (a "member of another epoch")
    let stale_member = others[0];
    let stale_group = w.parties[stale_member].g().clone();
    // the announced successor id may be the empty string: still an id that the successor has to carry
    let new_gid = if case.c(4) % 4 == 0 { vec![] } else { b"successor-group".to_vec() };

    if !do_branch {
        // ---- ReInit -------------------------------------------------------------------------------
        // a detached commit that another member built in the old epoch, before the ReInit commit (applied after the freeze below)
        let early_detached: Option<Vec<u8>> = {
            let mut c = stale_group.clone();
            match guard(|| c.commit_builder().commit_time(t).build_detached()) {
                Ok((_, secrets)) => secrets.to_bytes().ok(),
                Err(e) if e.is_panic() => return Err(panic_failure(P, "build_detached before reinit", &e)),
                Err(_) => None,
            }
        };
        let party = &mut w.parties[leader];
        let mut ext = ExtensionList::new();
        ext.set(mls_rs::Extension::new(EXT_TYPE.into(), vec![9, 9]));
        if case.c(5) % 2 == 0 {
            // the successor keeps the old group's extensions: then only the PSK tells a re-init Welcome from a branch Welcome
            ext = party.g().context().extensions.clone();
            ev.class("reinit_keeps_group_context_extensions");
        }
        let ext2 = ext.clone();
        let gid2 = new_gid.clone();
        let out = guard(|| party.gm().commit_builder().reinit(Some(gid2), ProtocolVersion::MLS_10, CipherSuite::from(new_suite), ext2)?.commit_time(t).build());
        let out = match out {
            Ok(o) => o,
            Err(e) if e.is_panic() => return Err(panic_failure(P, "reinit commit", &e)),
            Err(e) => return Err(fail(&format!("reinit_commit_refused|{}", e.class()), e.text().into())),
        };
        let cb = out.commit_message.to_bytes().expect("enc");
        for m in &others {
            match w.process(*m, &cb) {
                Ok(_) => {}
                Err(e) if e.is_panic() => return Err(panic_failure(P, "process reinit commit", &e)),
                Err(e) => return Err(fail(&format!("member_rejects_reinit_commit|{}", e.class()), e.text().into())),
            }
        }
        {
            let party = &mut w.parties[leader];
            guard(|| party.gm().apply_pending_commit()).map_err(|e| fail(&format!("apply_reinit_failed|{}", e.class()), e.text().into()))?;
        }
        // the old group is frozen for everybody
        for m in &members {
            let party = &mut w.parties[*m];
            match guard(|| party.gm().commit_builder().commit_time(t).build()) {
                Ok(_) => return Err(fail("old_group_commits_after_reinit", format!("member {m}"))),
                Err(e) if e.is_panic() => return Err(panic_failure(P, "commit after reinit", &e)),
                Err(e) => ev.class(&format!("old_group_frozen:{}", e.class())),
            }
            // the detached API is no way around it either
            let mut clone = party.g().clone();
            match guard(|| clone.commit_builder().commit_time(t).build_detached()) {
                Ok(_) => return Err(fail("old_group_commits_after_reinit|detached", format!("member {m}: build_detached succeeds on a re-initialised group"))),
                Err(e) if e.is_panic() => return Err(panic_failure(P, "detached commit after reinit", &e)),
                Err(e) => ev.class(&format!("old_group_frozen_detached:{}", e.class())),
            }
        }
        // nor is a detached commit of the old epoch, built before the ReInit commit: applying it now would replace the frozen
        // state by one without the pending re-init
        if let Some(sec) = &early_detached {
            let mut clone = w.parties[stale_member].g().clone();
            match guard(|| clone.apply_detached_commit(mls_rs::group::CommitSecrets::from_bytes(sec)?).map(|_| ())) {
                Ok(()) => {
                    let thawed = guard(|| clone.commit_builder().commit_time(t).build()).is_ok();
                    return Err(fail(
                        "old_group_thawed_by_detached_commit",
                        format!("member {stale_member}: a detached commit built before the ReInit commit applies to the re-initialised group (commit afterwards succeeds: {thawed})"),
                    ));
                }
                Err(e) if e.is_panic() => return Err(panic_failure(P, "apply early detached commit after reinit", &e)),
                Err(e) => ev.class(&format!("early_detached_refused_after_reinit:{}", e.class())),
            }
        }
        // a commit built by a lagging copy is refused too
        {
            let mut lag = stale_group.clone();
            if let Ok(o) = guard(|| lag.commit_builder().commit_time(t).build()) {
                let b = o.commit_message.to_bytes().expect("enc");
                for m in &members {
                    if w.process(*m, &b).is_ok() {
                        return Err(fail("commit_accepted_after_reinit", format!("member {m}")));
                    }
                }
            }
        }
        // a member that ignores the freeze (hook: a copy of its group that forgot the pending re-initialisation) commits for
        // the current epoch of the old group, with and without removing the receiver: every frozen member refuses, whatever
        // the commit does to it
        {
            let rogue_of = members[pick(case.c(6), members.len())];
            for remove_receiver in [false, true] {
                for m in &members {
                    if *m == rogue_of {
                        continue;
                    }
                    let mut rogue = w.parties[rogue_of].g().clone();
                    rogue.verif_forget_pending_reinit();
                    let victim_leaf = w.parties[*m].leaf();
                    let built = guard(|| {
                        let mut b = rogue.commit_builder().commit_time(t);
                        if remove_receiver {
                            b = b.remove_member(victim_leaf)?;
                        }
                        b.build()
                    });
                    let bytes = match built {
                        Ok(o) => o.commit_message.to_bytes().expect("enc"),
                        Err(e) if e.is_panic() => return Err(panic_failure(P, "commit_builder.build(rogue)", &e)),
                        Err(e) => {
                            ev.class(&format!("rogue_commit_not_built:{}", e.class()));
                            continue;
                        }
                    };
                    let mut frozen = w.parties[*m].g().clone();
                    match guard(|| frozen.process_incoming_message_with_time(MlsMessage::from_bytes(&bytes)?, t)) {
                        Ok(r) => {
                            return Err(fail(
                                if remove_receiver { "commit_accepted_after_reinit|removes_the_receiver" } else { "commit_accepted_after_reinit|rogue_member" },
                                format!("member {m}, frozen by the ReInit commit, accepts a commit of member {rogue_of} for the old group: {}", format!("{r:?}").chars().take(80).collect::<String>()),
                            ))
                        }
                        Err(e) if e.is_panic() => return Err(panic_failure(P, "process_incoming_message(commit after reinit)", &e)),
                        Err(e) => ev.class(&format!("rogue_commit_refused{}:{}", if remove_receiver { "(removes the receiver)" } else { "" }, e.class())),
                    }
                    if !remove_receiver {
                        break;
                    }
                }
            }
        }
        // the freeze survives a write and a reload of the old group: still no commits, still a ReinitClient
        if case.c(3) % 2 == 0 {
            let m = others[0];
            w.save(m).map_err(|e| fail(&format!("write_after_reinit_failed|{}", e.class()), e.text().into()))?;
            w.reload(m).map_err(|e| fail(&format!("load_after_reinit_failed|{}", e.class()), e.text().into()))?;
            let party = &mut w.parties[m];
            match guard(|| party.gm().commit_builder().commit_time(t).build()) {
                Ok(_) => return Err(fail("old_group_commits_after_reinit|reloaded", format!("member {m}: the re-initialised group commits again after write + load"))),
                Err(e) if e.is_panic() => return Err(panic_failure(P, "commit after reinit (reloaded)", &e)),
                Err(e) => ev.class(&format!("old_group_frozen_after_reload:{}", e.class())),
            }
        }
        // successor: everybody gets a ReinitClient from a clone of its frozen group
        let mk_client = |w: &World, p: usize| -> Result<mls_rs::group::ReinitClient<VConfig>, OpErr> {
            let g = w.parties[p].g().clone();
            let (sk, id) = if sig_compatible {
                (None, None)
            } else {
                let cs = w.parties[p].crypto.suite(CipherSuite::from(new_suite)).expect("suite");
                let (sk, id) = make_identity(&cs, &w.parties[p].name);
                (Some(sk), Some(id))
            };
            guard(|| g.get_reinit_client(sk, id))
        };
        // the chosen member set
        let mut included: Vec<usize> = others.clone();
        let mut outsider_kps: Vec<MlsMessage> = vec![];
        let mk_outsider_kp = |w: &mut World| -> Result<MlsMessage, Failure> {
            let p = w.new_party();
            let party = &w.parties[p];
            let cs = party.crypto.suite(CipherSuite::from(new_suite)).ok_or_else(|| fail("setup", "suite".into()))?;
            let (sk, id) = make_identity(&cs, &party.name);
            let c = build_client(party.crypto.clone(), party.idp.clone(), party.gstore.clone(), party.kstore.clone(), party.pstore.clone(), Default::default(), id, sk, new_suite);
            guard(|| c.generate_key_package_message(Default::default(), Default::default(), Some(t))).map_err(|e| setup_failure(P, "key_package", &e))
        };
        match variant {
            Variant::Equal => {}
            Variant::StrictSubset => {
                included.remove(pick(rng.next() as u16, included.len()));
            }
            Variant::Superset => outsider_kps.push(mk_outsider_kp(&mut w)?),
            Variant::Replaced => {
                included.remove(pick(rng.next() as u16, included.len()));
                outsider_kps.push(mk_outsider_kp(&mut w)?);
            }
        }
        let mut kps = outsider_kps;
        let mut clients = vec![];
        for p in &included {
            let rc = mk_client(&w, *p).map_err(|e| fail(&format!("get_reinit_client_failed|{}", e.class()), e.text().into()))?;
            let kp = guard(|| rc.generate_key_package(Some(t))).map_err(|e| setup_failure(P, "reinit key package", &e))?;
            kps.push(kp);
            clients.push((*p, rc));
        }
        // shuffled order: the successor's leaf order differs from the old one
        let order = permutation(kps.len(), rng.next() | 1);
        let kps: Vec<MlsMessage> = order.iter().map(|i| kps[*i].clone()).collect();
        let lead = mk_client(&w, leader).map_err(|e| fail(&format!("get_reinit_client_failed|{}", e.class()), e.text().into()))?;
        let kps_again = kps.clone();
        let r = guard(|| lead.commit(kps, ExtensionList::new(), Some(t)));
        let expect_ok = variant == Variant::Equal;
        let (new_group, welcomes) = match (expect_ok, r) {
            (_, Err(e)) if e.is_panic() => return Err(panic_failure(P, "ReinitClient::commit", &e)),
            (true, Err(e)) => {
                let shape = if blank_interior { "blank_interior_leaf" } else { "dense_tree" };
                let sig = format!("{P}|legitimate_reinit_refused|{shape}|{}", e.class());
                return ev.known_or_fail(&sig, || {
                    format!("the successor has exactly the old group's identities ({} members, old tree has a blank interior leaf: {blank_interior}, identity changed: {identity_changed}) but ReinitClient::commit fails: {}", members.len(), e.text())
                });
            }
            (false, Ok(_)) => return Err(fail(&format!("reinit_with_{variant:?}_member_set_accepted"), format!("{} old members", members.len()))),
            (false, Err(e)) => {
                ev.class(&format!("reinit_{variant:?}_refused:{}", e.class()));
                ev.nontrivial(&(case, "refused"));
                // The joiners must refuse such a successor on their own: a creator that skips the create-side check
                // (hook: the same construction without it) sends its Welcome to the old members it kept.
                let lead2 = mk_client(&w, leader).map_err(|e| fail(&format!("get_reinit_client_failed|{}", e.class()), e.text().into()))?;
                match guard(|| lead2.verif_commit_unchecked(kps_again, ExtensionList::new(), Some(t))) {
                    Ok((bad_group, welcomes)) => {
                        let welcome = welcomes.first().ok_or_else(|| fail("no_welcome", String::new()))?.to_bytes().expect("enc");
                        let tree = bad_group.export_tree().to_bytes().expect("tree");
                        for (p, rc) in clients {
                            let r = guard(|| rc.join(&MlsMessage::from_bytes(&welcome)?, Some(ExportedTree::from_bytes(&tree)?), Some(t)).map(|_| ()));
                            match r {
                                Ok(()) => {
                                    return Err(fail(
                                        &format!("joiner_accepts_reinit_successor_with_{variant:?}_member_set"),
                                        format!("party {p} joined a re-init successor with {} members, the old group has {}", bad_group.roster().members().len(), members.len()),
                                    ))
                                }
                                Err(e) if e.is_panic() => return Err(panic_failure(P, "ReinitClient::join", &e)),
                                Err(e) => ev.class(&format!("joiner_refuses_reinit_{variant:?}:{}", e.class())),
                            }
                        }
                    }
                    Err(e) if e.is_panic() => return Err(panic_failure(P, "verif_commit_unchecked", &e)),
                    Err(e) => ev.class(&format!("unchecked_creator_failed:{}", e.class())),
                }
                return Ok(());
            }
            (true, Ok(x)) => x,
        };
        if new_group.current_epoch() != 1 || new_group.group_id() != &new_gid[..] || new_group.cipher_suite() != CipherSuite::from(new_suite) {
            return Err(fail("successor_has_wrong_parameters", format!("epoch {} suite {:?}", new_group.current_epoch(), new_group.cipher_suite())));
        }
        let welcome = welcomes.first().ok_or_else(|| fail("no_welcome", String::new()))?.to_bytes().expect("enc");
        let tree = (!w.parties[leader].commit_opts.ratchet_tree_extension).then(|| new_group.export_tree().to_bytes().expect("tree"));
        // wrong joiners first
        {
            // same identity, no old state: a plain join must fail
            let p = others[0];
            let party = &w.parties[p];
            let tr = tree.clone();
            let r = guard(|| {
                let tr = match &tr {
                    Some(t) => Some(ExportedTree::from_bytes(t)?),
                    None => None,
                };
                party.client.join_group(tr, &MlsMessage::from_bytes(&welcome)?, Some(t)).map(|_| ())
            });
            if r.is_ok() {
                return Err(fail("successor_joined_without_old_group_state", format!("party {p}")));
            }
            // a copy that never saw the re-init commit cannot produce a ReinitClient
            let lag = stale_group.clone();
            if guard(|| lag.get_reinit_client(None, None)).is_ok() {
                return Err(fail("reinit_client_from_group_without_pending_reinit", String::new()));
            }
        }
        // mismatched Welcomes: (a) the re-init Welcome is not a branch of the old group, (b) a branch of the old group that
        // borrows the announced group id is not the re-init successor
        {
            let full_tree = new_group.export_tree().to_bytes().expect("tree");
            for p in &included {
                let old = w.parties[*p].g().clone();
                let r = guard(|| old.join_subgroup(&MlsMessage::from_bytes(&welcome)?, Some(ExportedTree::from_bytes(&full_tree)?), Some(t)).map(|_| ()));
                match r {
                    Ok(()) => return Err(fail("reinit_welcome_accepted_as_branch", format!("party {p}: join_subgroup accepted the Welcome of the re-init successor"))),
                    Err(e) if e.is_panic() => return Err(panic_failure(P, "join_subgroup(re-init welcome)", &e)),
                    Err(e) => ev.class(&format!("reinit_welcome_refused_as_branch:{}", e.class())),
                }
            }
            // a successor that is right in every respect but does not carry the announced group id
            {
                let mut okps = vec![];
                let mut orcs = vec![];
                for p in &included {
                    let rc = mk_client(&w, *p).map_err(|e| fail(&format!("get_reinit_client_failed|{}", e.class()), e.text().into()))?;
                    okps.push(guard(|| rc.generate_key_package(Some(t))).map_err(|e| setup_failure(P, "reinit key package", &e))?);
                    orcs.push((*p, rc));
                }
                let lead3 = mk_client(&w, leader).map_err(|e| fail(&format!("get_reinit_client_failed|{}", e.class()), e.text().into()))?;
                match guard(|| lead3.verif_commit_unchecked_with_group_id(b"not-the-announced-id".to_vec(), okps, ExtensionList::new(), Some(t))) {
                    Ok((og, ow)) => {
                        if let Some(ow) = ow.first() {
                            let owb = ow.to_bytes().expect("enc");
                            let otree = og.export_tree().to_bytes().expect("tree");
                            for (p, rc) in orcs {
                                match guard(|| rc.join(&MlsMessage::from_bytes(&owb)?, Some(ExportedTree::from_bytes(&otree)?), Some(t)).map(|_| ())) {
                                    Ok(()) => return Err(fail("joiner_accepts_successor_with_another_group_id", format!("party {p}: announced id {:?} ({} bytes)", String::from_utf8_lossy(&new_gid), new_gid.len()))),
                                    Err(e) if e.is_panic() => return Err(panic_failure(P, "ReinitClient::join(other group id)", &e)),
                                    Err(e) => ev.class(&format!("successor_with_another_group_id_refused:{}", e.class())),
                                }
                            }
                        }
                    }
                    Err(e) if e.is_panic() => return Err(panic_failure(P, "verif_commit_unchecked_with_group_id", &e)),
                    Err(e) => ev.class(&format!("unchecked_creator_failed:{}", e.class())),
                }
            }
            // a successor that is right in every respect but whose group context extensions are not the announced ones
            {
                let mut okps = vec![];
                let mut orcs = vec![];
                for p in &included {
                    let rc = mk_client(&w, *p).map_err(|e| fail(&format!("get_reinit_client_failed|{}", e.class()), e.text().into()))?;
                    okps.push(guard(|| rc.generate_key_package(Some(t))).map_err(|e| setup_failure(P, "reinit key package", &e))?);
                    orcs.push((*p, rc));
                }
                let mut other = ext.clone();
                other.set(mls_rs::Extension::new(EXT_TYPE2.into(), vec![0x17, case.c(3) as u8]));
                let lead4 = mk_client(&w, leader).map_err(|e| fail(&format!("get_reinit_client_failed|{}", e.class()), e.text().into()))?;
                match guard(|| lead4.verif_commit_unchecked_with_context_extensions(other, okps, ExtensionList::new(), Some(t))) {
                    Ok((og, ow)) => {
                        if let Some(ow) = ow.first() {
                            let owb = ow.to_bytes().expect("enc");
                            let otree = og.export_tree().to_bytes().expect("tree");
                            for (p, rc) in orcs {
                                match guard(|| rc.join(&MlsMessage::from_bytes(&owb)?, Some(ExportedTree::from_bytes(&otree)?), Some(t)).map(|_| ())) {
                                    Ok(()) => return Err(fail("joiner_accepts_successor_with_other_extensions", format!("party {p}: the successor carries an extension that the ReInit proposal did not announce"))),
                                    Err(e) if e.is_panic() => return Err(panic_failure(P, "ReinitClient::join(other extensions)", &e)),
                                    Err(e) => ev.class(&format!("successor_with_other_extensions_refused:{}", e.class())),
                                }
                            }
                        }
                    }
                    Err(e) if e.is_panic() => return Err(panic_failure(P, "verif_commit_unchecked_with_context_extensions", &e)),
                    Err(e) => ev.class(&format!("unchecked_creator_failed:{}", e.class())),
                }
            }
            if new_suite == old_suite && sig_compatible {
                let mut bkps = vec![];
                let mut brcs = vec![];
                for p in &included {
                    let rc = mk_client(&w, *p).map_err(|e| fail(&format!("get_reinit_client_failed|{}", e.class()), e.text().into()))?;
                    bkps.push(guard(|| rc.generate_key_package(Some(t))).map_err(|e| setup_failure(P, "reinit key package", &e))?);
                    brcs.push((*p, rc));
                }
                let old_leader = w.parties[leader].g().clone();
                let gid = new_gid.clone();
                match guard(|| old_leader.branch(gid, bkps, Some(t))) {
                    Ok((bg, bw)) => {
                        if let Some(bw) = bw.first() {
                            let bwb = bw.to_bytes().expect("enc");
                            let btree = bg.export_tree().to_bytes().expect("tree");
                            for (p, rc) in brcs {
                                let r = guard(|| rc.join(&MlsMessage::from_bytes(&bwb)?, Some(ExportedTree::from_bytes(&btree)?), Some(t)).map(|_| ()));
                                match r {
                                    Ok(()) => return Err(fail("branch_welcome_accepted_as_reinit_successor", format!("party {p}: ReinitClient::join accepted a branch of the old group"))),
                                    Err(e) if e.is_panic() => return Err(panic_failure(P, "ReinitClient::join(branch welcome)", &e)),
                                    Err(e) => ev.class(&format!("branch_welcome_refused_as_reinit:{}", e.class())),
                                }
                            }
                        }
                    }
                    Err(e) if e.is_panic() => return Err(panic_failure(P, "Group::branch(after re-init)", &e)),
                    Err(e) => ev.class(&format!("branch_after_reinit_not_possible:{}", e.class())),
                }
            }
        }
        let mut joined: Vec<(usize, VGroup)> = vec![];
        for (p, rc) in clients {
            let tr = tree.clone();
            let r = guard(|| {
                let tr = match &tr {
                    Some(t) => Some(ExportedTree::from_bytes(t)?),
                    None => None,
                };
                rc.join(&MlsMessage::from_bytes(&welcome)?, tr, Some(t)).map(|(g, _)| g)
            });
            match r {
                Ok(g) => joined.push((p, g)),
                Err(e) if e.is_panic() => return Err(panic_failure(P, "ReinitClient::join", &e)),
                Err(e) => return Err(fail(&format!("old_member_cannot_join_successor|{}", e.class()), format!("party {p}: {}", e.text()))),
            }
        }
        let mut all: Vec<(usize, &VGroup)> = vec![(leader, &new_group)];
        all.extend(joined.iter().map(|(p, g)| (*p, g)));
        groups_agree(&all)?;
        ev.class("reinit_successors_created");
        if new_suite != old_suite {
            ev.class("reinit_with_cipher_suite_change");
        }
    } else {
        // ---- Branch -------------------------------------------------------------------------------
        let mut included: Vec<usize> = others.clone();
        let mut kps: Vec<MlsMessage> = vec![];
        match variant {
            Variant::Equal => {}
            Variant::StrictSubset => {
                if included.len() > 1 {
                    included.remove(pick(rng.next() as u16, included.len()));
                }
            }
            Variant::Superset | Variant::Replaced => {
                if variant == Variant::Replaced && included.len() > 1 {
                    included.remove(pick(rng.next() as u16, included.len()));
                }
                let p = w.new_party();
                kps.push(w.key_package(p).map_err(|e| setup_failure(P, "key_package", &e))?);
            }
        }
        for p in &included {
            kps.push(w.key_package(*p).map_err(|e| setup_failure(P, "key_package", &e))?);
        }
        let order = permutation(kps.len(), rng.next() | 1);
        let kps: Vec<MlsMessage> = order.iter().map(|i| kps[*i].clone()).collect();
        let party = &w.parties[leader];
        let kps_again = kps.clone();
        let r = guard(|| party.g().branch(b"sub-group".to_vec(), kps, Some(t)));
        let expect_ok = matches!(variant, Variant::Equal | Variant::StrictSubset);
        let (sub, welcomes) = match (expect_ok, r) {
            (_, Err(e)) if e.is_panic() => return Err(panic_failure(P, "Group::branch", &e)),
            (true, Err(e)) => {
                return Err(fail(
                    &format!("legitimate_branch_refused|{}", e.class()),
                    format!("branch members are a subset of the old members ({variant:?}, blank interior leaf: {blank_interior}): {}", e.text()),
                ))
            }
            (false, Ok(_)) => return Err(fail(&format!("branch_with_{variant:?}_member_set_accepted"), String::new())),
            (false, Err(e)) => {
                ev.class(&format!("branch_{variant:?}_refused:{}", e.class()));
                ev.nontrivial(&(case, "refused"));
                // joiner side: a creator without the create-side check
                match guard(|| party.g().verif_branch_unchecked(b"sub-group".to_vec(), kps_again, Some(t))) {
                    Ok((bad, welcomes)) => {
                        if let Some(wm) = welcomes.first() {
                            let welcome = wm.to_bytes().expect("enc");
                            let tree = bad.export_tree().to_bytes().expect("tree");
                            for p in &included {
                                let r = guard(|| w.parties[*p].g().join_subgroup(&MlsMessage::from_bytes(&welcome)?, Some(ExportedTree::from_bytes(&tree)?), Some(t)).map(|_| ()));
                                match r {
                                    Ok(()) => return Err(fail(&format!("joiner_accepts_branch_with_{variant:?}_member_set"), format!("party {p}"))),
                                    Err(e) if e.is_panic() => return Err(panic_failure(P, "join_subgroup", &e)),
                                    Err(e) => ev.class(&format!("joiner_refuses_branch_{variant:?}:{}", e.class())),
                                }
                            }
                        }
                    }
                    Err(e) if e.is_panic() => return Err(panic_failure(P, "verif_branch_unchecked", &e)),
                    Err(e) => ev.class(&format!("unchecked_creator_failed:{}", e.class())),
                }
                return Ok(());
            }
            (true, Ok(x)) => x,
        };
        let tree = (!w.parties[leader].commit_opts.ratchet_tree_extension).then(|| sub.export_tree().to_bytes().expect("tree"));
        // a sub-group that is right in every respect (members a subset, branch PSK of this epoch) but whose group context
        // extensions are not the old group's
        {
            let mut fkps = vec![];
            for p in &included {
                fkps.push(w.key_package(*p).map_err(|e| setup_failure(P, "key_package", &e))?);
            }
            let old_ext = w.parties[leader].g().context().extensions.clone();
            let mut other = old_ext.clone();
            other.set(mls_rs::Extension::new(EXT_TYPE2.into(), vec![0x17, case.c(3) as u8]));
            match guard(|| w.parties[leader].g().verif_branch_unchecked_with_context_extensions(b"sub-group-x".to_vec(), other, fkps, Some(t))) {
                Ok((bad, ws)) => {
                    if let Some(wm) = ws.first() {
                        let welcome = wm.to_bytes().expect("enc");
                        let btree = bad.export_tree().to_bytes().expect("tree");
                        for p in &included {
                            let r = guard(|| w.parties[*p].g().join_subgroup(&MlsMessage::from_bytes(&welcome)?, Some(ExportedTree::from_bytes(&btree)?), Some(t)).map(|_| ()));
                            match r {
                                Ok(()) => return Err(fail("joiner_accepts_branch_with_other_extensions", format!("party {p}: the sub-group carries a group context extension the old group does not have"))),
                                Err(e) if e.is_panic() => return Err(panic_failure(P, "join_subgroup(other extensions)", &e)),
                                Err(e) => ev.class(&format!("branch_with_other_extensions_refused:{}", e.class())),
                            }
                        }
                    }
                }
                Err(e) if e.is_panic() => return Err(panic_failure(P, "verif_branch_unchecked_with_context_extensions", &e)),
                Err(e) => ev.class(&format!("unchecked_creator_failed:{}", e.class())),
            }
        }
        let mut joined: Vec<(usize, VGroup)> = vec![];
        if let Some(wm) = welcomes.first() {
            let welcome = wm.to_bytes().expect("enc");
            for p in &included {
                let party = &w.parties[*p];
                let tr = tree.clone();
                let r = guard(|| {
                    let tr = match &tr {
                        Some(t) => Some(ExportedTree::from_bytes(t)?),
                        None => None,
                    };
                    party.g().join_subgroup(&MlsMessage::from_bytes(&welcome)?, tr, Some(t)).map(|(g, _)| g)
                });
                match r {
                    Ok(g) => joined.push((*p, g)),
                    Err(e) if e.is_panic() => return Err(panic_failure(P, "join_subgroup", &e)),
                    Err(e) => return Err(fail(&format!("old_member_cannot_join_branch|{}", e.class()), format!("party {p}: {}", e.text()))),
                }
                // without the old group (plain join) it must not work
                let tr = tree.clone();
                let r2 = guard(|| {
                    let tr = match &tr {
                        Some(t) => Some(ExportedTree::from_bytes(t)?),
                        None => None,
                    };
                    party.client.join_group(tr, &MlsMessage::from_bytes(&welcome)?, Some(t)).map(|_| ())
                });
                if r2.is_ok() {
                    return Err(fail("branch_joined_without_old_group_state", format!("party {p}")));
                }
                // with the old group of another epoch it must not work either
                if *p == stale_member && stale_group.current_epoch() != w.epoch {
                    let tr = tree.clone();
                    let r3 = guard(|| {
                        let tr = match &tr {
                            Some(t) => Some(ExportedTree::from_bytes(t)?),
                            None => None,
                        };
                        stale_group.join_subgroup(&MlsMessage::from_bytes(&welcome)?, tr, Some(t)).map(|_| ())
                    });
                    if r3.is_ok() {
                        return Err(fail("branch_joined_with_old_group_of_another_epoch", format!("party {p}")));
                    }
                    ev.class("branch_join_with_other_epoch_refused");
                }
            }
        }
        let mut all: Vec<(usize, &VGroup)> = vec![(leader, &sub)];
        all.extend(joined.iter().map(|(p, g)| (*p, g)));
        groups_agree(&all)?;
        if sub.current_epoch() != 1 {
            return Err(fail("branch_epoch_not_one", format!("{}", sub.current_epoch())));
        }
        ev.class("branches_created");
    }
    ev.class(&format!("variant_{variant:?}"));
    if blank_interior {
        ev.class("old_tree_with_blank_interior_leaf");
    }
    if identity_changed {
        ev.class("old_group_with_identity_change");
    }
    if blank_interior || identity_changed || variant != Variant::Equal {
        ev.nontrivial(case);
        ev.sample(&format!("nt{}{}", do_branch as u8, variant as u8), || json!({"branch": do_branch, "variant": format!("{variant:?}"), "old_members": members.len(), "blank_interior_leaf": blank_interior, "identity_changed": identity_changed, "old_suite": old_suite, "new_suite": new_suite, "case": case.to_json()}));
    }
    Ok(())
}

pub fn run(ctx: &Ctx) -> ! {
    let ev = Evidence::new(P, ctx.tier, ctx.seed, "exploration");
    ev.set_rule(
        "old group of 3-7 members shaped by generated interior removals (blank leaves), identity changes and extra epochs; then either a ReInit commit (new group id, extensions, optionally another \
         cipher suite with new signing identities) followed by ReinitClient::commit / join, or Group::branch / join_subgroup; successor member set in {equal, strict subset, superset, one identity replaced}, \
         key packages in shuffled order. Oracle: after the ReInit commit every member refuses to commit and further commits are rejected; ReinitClient::commit succeeds iff the identity sets are equal \
         (whatever the old tree shape or order), branch iff subset; every included old member joins and all successor members agree (context, authenticator, tree), epoch 1, announced group id / suite; \
         joining without the old group (plain join_group), from a copy that never saw the ReInit, or from the old group at another epoch fails; the freeze survives write + load; successors and sub-groups with a wrong member set, another group id or other group context extensions (made by the library's own creator minus its check, hooks) and cross-fed Welcomes are refused by every joiner. A commit by a member that ignores the freeze (hook verif_forget_pending_reinit on a copy), with or without a Remove of the receiver, is refused by every frozen member. Non-trivial = old tree with a blank interior leaf or a changed \
         identity, or a member-set variant other than equal.",
    );
    let run = |c: &Case| run_case(c, &ev);
    if let Some(path) = &ctx.replay {
        let v: serde_json::Value = serde_json::from_str(&std::fs::read_to_string(path).unwrap_or_default()).unwrap_or_default();
        let case = Case::from_json(&v["case"]).unwrap_or_else(|| inconclusive(&ev, "no case"));
        return match run(&case) {
            Ok(()) => finish_ok(&ev),
            Err(f) => finish_violation(&ev, Violation { failure: f, case: Some(case.clone()) }, case.to_json()),
        };
    }
    for (_, v) in load_replays(P) {
        if let Some(case) = Case::from_json(&v["case"]) {
            if let Err(f) = run(&case) {
                finish_violation(&ev, Violation { failure: f, case: Some(case.clone()) }, case.to_json());
            }
        }
    }
    let spec = RunSpec { shards: 16, cases_per_shard: ctx.tier.pick(150, 6000), cfg_len: CFG_LEN, min_ops: 0, max_ops: 4, max_shrink_iters: 500 };
    match run_sharded(&ev, &spec, 17, &run) {
        Ok(()) => finish_ok(&ev),
        Err(v) => {
            let payload = v.case.as_ref().map(|c| c.to_json()).unwrap_or_default();
            finish_violation(&ev, v, payload)
        }
    }
}
