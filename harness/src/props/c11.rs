//! C11 — pending commits do not change the group until applied; one successor per epoch.
//! Model-based: an explicit pending-commit state machine per member predicts every outcome.
use crate::engine::*;
use crate::history::{setup_failure, CFG_LEN};
use crate::props::c04::{diff_components, snap};
use crate::providers::ProviderKind;
use crate::world::*;
use crate::Ctx;
use mls_rs::group::proposal::{CustomProposal, ProposalType};
use mls_rs::group::{CommitSecrets, ReceivedMessage};
use mls_rs::MlsMessage;
use serde_json::json;

const P: &str = "C11";

#[derive(Clone)]
struct BuiltCommit {
    author: usize,
    epoch: u64,
    bytes: Vec<u8>,
    /// Some = detached (secrets kept by the application), None = stored as the pending commit
    secrets: Option<Vec<u8>>,
}

struct Model {
    /// per member: the commit it holds as pending (index into `built`)
    pending: Vec<Option<usize>>,
    built: Vec<BuiltCommit>,
}

fn fail(what: &str, detail: String) -> Failure {
    Failure::new(format!("{P}|{what}"), detail)
}

fn expect_err(prop_site: &str, r: Result<(), OpErr>, want_class: Option<&str>) -> CaseResult {
    match r {
        Ok(()) => Err(fail(&format!("{prop_site}_accepted"), "the model predicts an error".into())),
        Err(e) if e.is_panic() => Err(panic_failure(P, prop_site, &e)),
        Err(e) => {
            if let Some(c) = want_class {
                if e.class() != c {
                    return Err(fail(&format!("{prop_site}_wrong_error"), format!("got {} want {c}", e.class())));
                }
            }
            Ok(())
        }
    }
}

fn run_case(case: &Case, ev: &Evidence) -> CaseResult {
    ev.eval(1);
    let suites = [1u16, 1, 3, 2, 7];
    let mut cfg = WorldCfg::default_for(suites[pick(case.c(0), suites.len())]);
    cfg.providers = vec![ProviderKind::ALL[pick(case.c(1), 3)]];
    if !cfg.providers[0].suites().contains(&cfg.suite) {
        cfg.providers = vec![ProviderKind::OpenSsl];
    }
    cfg.encrypt_handshake = case.c(2) & 1 == 1;
    cfg.path_required = case.c(2) & 2 != 0;
    let mut w = World::new(P, cfg);
    let n = 2 + pick(case.c(3), 3);
    let creator = w.new_party();
    w.create_group(creator).map_err(|e| setup_failure(P, "create_group", &e))?;
    let mut spec = CommitSpec::default();
    for _ in 1..n {
        let p = w.new_party();
        spec.add.push(p);
    }
    match w.commit_round(creator, &spec)? {
        Ok(_) => {}
        Err(e) => return Err(setup_failure(P, "initial_commit", &e)),
    }
    w.agree(&[])?;

    let members = w.members();
    let mut model = Model { pending: vec![None; w.parties.len()], built: vec![] };
    let mut races = 0u64;
    let mut stale_detached_attempts = 0u64;
    let mut resolves = 0u64;
    let enc = w.cfg.encrypt_handshake;

    for op in &case.ops {
        let a = members[pick(op[1], members.len())];
        let kind = pick_weighted(op[0], &[22, 10, 8, 20, 8, 8, 8, 6, 10]);
        let t = w.tick();
        match kind {
            // ---- build a commit (stored as pending) --------------------------------------------
            0 => {
                let before = snap(&w, a)?;
                let custom = (op[2] % 3 == 0).then(|| CustomProposal::new(ProposalType::new(CUSTOM_PROPOSAL), vec![op[3] as u8; 3]));
                let party = &mut w.parties[a];
                let r = guard(|| {
                    let mut b = party.gm().commit_builder().authenticated_data(vec![op[4] as u8]).commit_time(t);
                    if let Some(c) = custom {
                        b = b.custom_proposal(c);
                    }
                    b.build()
                });
                if model.pending[a].is_some() {
                    expect_err("second_commit_while_pending", r.map(|_| ()), Some("ExistingPendingCommit"))?;
                    let after = snap(&w, a)?;
                    if !before.canonical_eq(&after) {
                        return Err(fail("refused_second_commit_changed_state", format!("{:?}", before.diff(&after))));
                    }
                    ev.class("second_commit_refused");
                } else {
                    let out = match r {
                        Ok(o) => o,
                        Err(e) if e.is_panic() => return Err(panic_failure(P, "commit_builder.build", &e)),
                        Err(e) => return Err(fail(&format!("commit_refused|{}", e.class()), e.text().into())),
                    };
                    let after = snap(&w, a)?;
                    let d = before.diff(&after);
                    let comps = diff_components(&d);
                    let allowed = if enc { ["pending_commit", "epoch_secrets.secret_tree.handshake,pending_commit"].contains(&comps.as_str()) } else { comps == "pending_commit" };
                    if !allowed {
                        return Err(fail(&format!("building_a_commit_changed_state|diff={comps}"), format!("party {a}: {d:?}")));
                    }
                    let g = w.parties[a].g();
                    if g.current_epoch() != w.epoch || !g.has_pending_commit() {
                        return Err(fail("building_a_commit_moved_epoch", format!("epoch {} pending {}", g.current_epoch(), g.has_pending_commit())));
                    }
                    if model.built.iter().any(|b| b.epoch == w.epoch && b.author != a) {
                        races += 1;
                    }
                    model.built.push(BuiltCommit { author: a, epoch: w.epoch, bytes: out.commit_message.to_bytes().expect("enc"), secrets: None });
                    model.pending[a] = Some(model.built.len() - 1);
                    ev.class("commits_built");
                }
            }
            // ---- build a detached commit ---------------------------------------------------------
            1 => {
                let before = snap(&w, a)?;
                let party = &mut w.parties[a];
                let r = guard(|| party.gm().commit_builder().authenticated_data(vec![0xd, op[4] as u8]).commit_time(t).build_detached());
                if model.pending[a].is_some() {
                    // a detached build is also refused while a commit is pending
                    match r {
                        Ok(_) => ev.class("detached_build_allowed_while_pending"),
                        Err(e) if e.is_panic() => return Err(panic_failure(P, "build_detached", &e)),
                        Err(_) => ev.class("detached_build_refused_while_pending"),
                    }
                    // in both cases the member must still hold exactly its one pending commit
                    if !w.parties[a].g().has_pending_commit() {
                        return Err(fail("pending_commit_lost_by_detached_build", String::new()));
                    }
                    if let Ok((out, secrets)) = r {
                        model.built.push(BuiltCommit { author: a, epoch: w.epoch, bytes: out.commit_message.to_bytes().expect("enc"), secrets: Some(secrets.to_bytes().expect("secrets")) });
                    }
                } else {
                    let (out, secrets) = match r {
                        Ok(x) => x,
                        Err(e) if e.is_panic() => return Err(panic_failure(P, "build_detached", &e)),
                        Err(e) => return Err(fail(&format!("detached_commit_refused|{}", e.class()), e.text().into())),
                    };
                    let after = snap(&w, a)?;
                    let d = before.diff(&after);
                    let comps = diff_components(&d);
                    let allowed = comps.is_empty() || (enc && comps == "epoch_secrets.secret_tree.handshake");
                    if !allowed {
                        return Err(fail(&format!("detached_build_changed_state|diff={comps}"), format!("party {a}: {d:?}")));
                    }
                    if model.built.iter().any(|b| b.epoch == w.epoch && b.author != a) {
                        races += 1;
                    }
                    model.built.push(BuiltCommit { author: a, epoch: w.epoch, bytes: out.commit_message.to_bytes().expect("enc"), secrets: Some(secrets.to_bytes().expect("secrets")) });
                    ev.class("detached_commits_built");
                }
            }
            // ---- clear --------------------------------------------------------------------------
            2 => {
                w.parties[a].gm().clear_pending_commit();
                if w.parties[a].g().has_pending_commit() {
                    return Err(fail("clear_left_pending_commit", String::new()));
                }
                if model.pending[a].take().is_some() {
                    ev.class("pending_cleared");
                }
            }
            // ---- the delivery service resolves the epoch: one winner ------------------------------
            3 => {
                let candidates: Vec<usize> = model
                    .built
                    .iter()
                    .enumerate()
                    .filter(|(i, b)| b.epoch == w.epoch && (b.secrets.is_some() || model.pending[b.author] == Some(*i)))
                    .map(|(i, _)| i)
                    .collect();
                if candidates.is_empty() {
                    // nothing to apply: apply_pending_commit must fail and change nothing
                    if model.pending[a].is_none() {
                        let before = snap(&w, a)?;
                        let party = &mut w.parties[a];
                        expect_err("apply_without_pending_commit", guard(|| party.gm().apply_pending_commit().map(|_| ())), Some("PendingCommitNotFound"))?;
                        let after = snap(&w, a)?;
                        if !before.canonical_eq(&after) {
                            return Err(fail("failed_apply_changed_state", format!("{:?}", before.diff(&after))));
                        }
                        ev.class("apply_without_pending_refused");
                    }
                    continue;
                }
                let wi = candidates[pick(op[2], candidates.len())];
                let win = model.built[wi].clone();
                let author = win.author;
                // the author: directly, by echo, or (detached) with its secrets -- and a twin taking another route
                let how = op[3] % 3;
                let twin_before = w.parties[author].g().clone();
                // now and then the first attempt meets a storage that fails once: the pending commit must still be there for
                // the second attempt (it is only spent once it has been applied)
                if win.secrets.is_none() && op[4] % 4 == 0 {
                    let bytes = win.bytes.clone();
                    let party = &mut w.parties[author];
                    party.ctl.arm(0, -1);
                    let r = if how == 0 {
                        guard(|| party.gm().apply_pending_commit().map(|_| ()))
                    } else {
                        guard(|| party.gm().process_incoming_message_with_time(MlsMessage::from_bytes(&bytes)?, t).map(|_| ()))
                    };
                    let fired = party.ctl.fired.load(std::sync::atomic::Ordering::SeqCst);
                    party.ctl.reset();
                    match r {
                        Err(e) if e.is_panic() => return Err(panic_failure(P, "apply_own_commit(storage fault)", &e)),
                        Err(_) if fired > 0 => {
                            if !w.parties[author].g().has_pending_commit() {
                                return Err(fail("pending_commit_lost_by_failed_apply", format!("party {author}: the storage failed once while its own commit was applied (route {how}); the pending commit is gone")));
                            }
                            ev.class("own_commit_applied_after_a_failed_first_attempt");
                        }
                        Err(e) => return Err(fail(&format!("author_cannot_apply_own_commit|{}", e.class()), format!("party {author} how {how}: {}", e.text()))),
                        Ok(()) if fired > 0 => return Err(fail("storage_error_swallowed_by_apply", format!("party {author} route {how}"))),
                        Ok(()) => {}
                    }
                }
                if w.parties[author].g().current_epoch() == win.epoch {
                    let bytes = win.bytes.clone();
                    let party = &mut w.parties[author];
                    let r = match (&win.secrets, how) {
                        (Some(s), _) => guard(|| party.gm().apply_detached_commit(CommitSecrets::from_bytes(s)?).map(|_| ())),
                        (None, 0) => guard(|| party.gm().apply_pending_commit().map(|_| ())),
                        (None, _) => guard(|| {
                            let m = MlsMessage::from_bytes(&bytes)?;
                            match party.gm().process_incoming_message_with_time(m, t)? {
                                ReceivedMessage::Commit(_) => Ok(()),
                                _ => Err(mls_rs::error::MlsError::UnexpectedMessageType),
                            }
                        }),
                    };
                    match r {
                        Ok(()) => {}
                        Err(e) if e.is_panic() => return Err(panic_failure(P, "apply_own_commit", &e)),
                        Err(e) => return Err(fail(&format!("author_cannot_apply_own_commit|{}", e.class()), format!("party {author} how {how} detached {}: {}", win.secrets.is_some(), e.text()))),
                    }
                }
                // the other route on a twin must give the same state (directly vs echo)
                if win.secrets.is_none() {
                    let mut twin = twin_before;
                    let bytes = win.bytes.clone();
                    let r = if how == 0 {
                        guard(|| {
                            let m = MlsMessage::from_bytes(&bytes)?;
                            twin.process_incoming_message_with_time(m, t).map(|_| ())
                        })
                    } else {
                        guard(|| twin.apply_pending_commit().map(|_| ()))
                    };
                    if let Err(e) = r {
                        return Err(fail(&format!("twin_cannot_apply_own_commit|{}", e.class()), e.text().into()));
                    }
                    let sa = snap(&w, author)?;
                    let sb = crate::props::c04::snap_group(&w.parties[author], &twin)?;
                    let d = sa.diff(&sb);
                    if !d.is_empty() {
                        return Err(fail(&format!("apply_and_echo_differ|diff={}", diff_components(&d)), format!("party {author}: {d:?}")));
                    }
                }
                if w.parties[author].g().has_pending_commit() && model.pending[author] == Some(wi) {
                    return Err(fail("pending_commit_survives_its_application", format!("party {author}")));
                }
                // everybody else processes the winner; a loser's pending commit is discarded
                for m in &members {
                    if *m == author {
                        continue;
                    }
                    let had_pending = model.pending[*m].is_some();
                    match w.process(*m, &win.bytes) {
                        Ok(ReceivedMessage::Commit(_)) => {}
                        Ok(o) => return Err(fail("commit_wrong_kind", format!("{o:?}").chars().take(100).collect())),
                        Err(e) if e.is_panic() => return Err(panic_failure(P, "process_incoming_message(commit)", &e)),
                        Err(e) => return Err(fail(&format!("receiver_rejects_winning_commit|{}", e.class()), format!("party {m} (had pending commit: {had_pending}): {}", e.text()))),
                    }
                    if w.parties[*m].g().has_pending_commit() {
                        return Err(fail("foreign_commit_did_not_discard_pending_commit", format!("party {m}")));
                    }
                    if had_pending {
                        ev.class("race_losers_discarding_their_pending_commit");
                    }
                }
                // a stale pending commit of the author itself (winner was its detached commit)
                if win.secrets.is_some() && model.pending[author].is_some() && w.parties[author].g().has_pending_commit() {
                    // the author still holds a pending commit built for the previous epoch: applying it now must fail
                    let party = &mut w.parties[author];
                    let r = guard(|| party.gm().apply_pending_commit().map(|_| ()));
                    let sig = format!("{P}|stale_pending_commit_applied_over_newer_epoch");
                    if r.is_ok() {
                        ev.known_or_fail(&sig, || format!("party {author} applied its pending commit of epoch {} after moving to epoch {} through a detached commit", win.epoch, win.epoch + 1))?;
                        return Ok(());
                    }
                }
                for m in &members {
                    model.pending[*m] = None;
                }
                w.epoch += 1;
                w.commits += 1;
                resolves += 1;
                w.agree(&[(b"c11".to_vec(), vec![], 16)])?;
                w.cross_decrypt(w.epoch)?;
                ev.class("epochs_resolved");
            }
            // ---- a commit of an earlier epoch is delivered (again) ---------------------------------
            4 => {
                let old: Vec<&BuiltCommit> = model.built.iter().filter(|b| b.epoch < w.epoch && b.author != a).collect();
                if old.is_empty() {
                    continue;
                }
                let b = old[pick(op[2], old.len())].clone();
                let before = snap(&w, a)?;
                expect_err("old_epoch_commit", w.process(a, &b.bytes).map(|_| ()), None)?;
                let after = snap(&w, a)?;
                if !before.canonical_eq(&after) {
                    return Err(fail("rejected_old_commit_changed_state", format!("{:?}", before.diff(&after))));
                }
                ev.class("old_epoch_commits_rejected");
            }
            // ---- a stale detached commit is applied on top of a newer epoch -------------------------
            5 => {
                let stale: Vec<&BuiltCommit> = model.built.iter().filter(|b| b.epoch < w.epoch && b.author == a && b.secrets.is_some()).collect();
                if stale.is_empty() {
                    continue;
                }
                stale_detached_attempts += 1;
                let b = stale[pick(op[2], stale.len())].clone();
                let before = snap(&w, a)?;
                // on a clone first: a known finding must not derail the history
                let mut clone = w.parties[a].g().clone();
                let s = b.secrets.clone().unwrap();
                let r = guard(|| clone.apply_detached_commit(CommitSecrets::from_bytes(&s)?).map(|_| ()));
                match r {
                    Ok(()) => {
                        let sig = format!("{P}|stale_detached_commit_applied_over_newer_epoch");
                        ev.known_or_fail(&sig, || {
                            format!("party {a} in epoch {} applied a detached commit built in epoch {}: it is now in epoch {}", w.epoch, b.epoch, clone.current_epoch())
                        })?;
                    }
                    Err(e) if e.is_panic() => return Err(panic_failure(P, "apply_detached_commit", &e)),
                    Err(_) => {
                        let party = &mut w.parties[a];
                        expect_err("stale_detached_commit", guard(|| party.gm().apply_detached_commit(CommitSecrets::from_bytes(&s)?).map(|_| ())), None)?;
                        let after = snap(&w, a)?;
                        if !before.canonical_eq(&after) {
                            return Err(fail("rejected_stale_detached_commit_changed_state", format!("{:?}", before.diff(&after))));
                        }
                        ev.class("stale_detached_commits_rejected");
                    }
                }
            }
            // ---- current-epoch traffic is still readable by a member holding a pending commit --------
            6 | 7 => {
                let others: Vec<usize> = members.iter().copied().filter(|m| *m != a).collect();
                let s = others[pick(op[2], others.len())];
                if w.parties[s].g().commit_required() {
                    continue;
                }
                if let Err(e) = w.send_app(s, vec![op[3] as u8; 9], vec![]) {
                    return Err(fail(&format!("member_cannot_send|{}", e.class()), e.text().into()));
                }
                if model.pending[a].is_some() {
                    ev.class("traffic_read_while_commit_pending");
                }
                w.flush(op[4])?;
            }
            // ---- by-reference proposals so that commits have something to reference -------------------
            _ => {
                if model.pending.iter().any(|p| p.is_some()) || model.built.iter().any(|b| b.epoch == w.epoch) {
                    // proposals after a commit was built would make the built commits incomplete for receivers
                    continue;
                }
                let cp = CustomProposal::new(ProposalType::new(CUSTOM_PROPOSAL), vec![op[2] as u8; 4]);
                // every other time an Update: its author keeps the new leaf key until somebody else's commit covers it,
                // whatever the author builds, clears or loses in between
                let update = op[3] % 2 == 0;
                let party = &mut w.parties[a];
                match guard(|| if update { party.gm().propose_update(vec![]) } else { party.gm().propose_custom(cp, vec![]) }) {
                    Ok(m) => {
                        w.push_proposal(a, m, vec![]).map_err(|e| setup_failure(P, "encode", &e))?;
                        w.flush(op[4])?;
                        if update {
                            ev.class("update_proposals_sent");
                        }
                    }
                    Err(e) if e.is_panic() => return Err(panic_failure(P, "propose", &e)),
                    Err(e) => return Err(fail(&format!("valid_proposal_refused|{}", e.class()), e.text().into())),
                }
            }
        }
    }
    if races > 0 || stale_detached_attempts > 0 {
        ev.nontrivial(case);
        ev.sample(&format!("nt{}", resolves % 4), || json!({"members": n, "encrypt_handshake": enc, "races": races, "stale_detached_attempts": stale_detached_attempts, "epochs_resolved": resolves, "ops": case.ops.len(), "case": case.to_json()}));
    }
    ev.class_n("races", races);
    ev.class_n("stale_detached_attempts", stale_detached_attempts);
    Ok(())
}

pub fn run(ctx: &Ctx) -> ! {
    let ev = Evidence::new(P, ctx.tier, ctx.seed, "exploration");
    ev.set_rule(
        "2-4 members; op sequences over {commit (stored as pending), detached commit, clear, resolve-epoch (the delivery service picks one winner among all commits built in this epoch; \
         its author applies it directly / by echo / from detached secrets while a twin takes the other route; all others process it), delivery of commits of earlier epochs, \
         applying a stale detached commit, application traffic and by-reference proposals}. An explicit model (who holds which pending commit, which commits exist per epoch) predicts \
         Ok / error class of every call. Checked: building a commit changes only pending_commit (+ the consumed handshake key when handshake messages are encrypted), the epoch stays, \
         traffic stays readable; a second commit => ExistingPendingCommit and no change; clear restores the ability to commit; apply vs echo give canonically equal states; \
         receivers agree N-way and cross-decrypt; a loser's pending commit is discarded; old commits are rejected without change; stale detached commits are rejected. \
         Racing members also send Update proposals (the author's pending leaf key may only go when a commit covering it is accepted), and the first attempt to apply one's own commit sometimes meets a storage that fails once (the pending commit must survive). \
         Non-trivial = sequence with a race (>= 2 members building commits in one epoch) or a stale-detached attempt; distinct by case value.",
    );
    ev.assume("membership is fixed after set-up in this check; membership-changing commits are covered by C01/C07");
    let spec = RunSpec { shards: 16, cases_per_shard: ctx.tier.pick(150, 6000), cfg_len: CFG_LEN, min_ops: 3, max_ops: ctx.tier.pick(25, 40), max_shrink_iters: 400 };
    if let Some(path) = &ctx.replay {
        let v: serde_json::Value = serde_json::from_str(&std::fs::read_to_string(path).unwrap_or_default()).unwrap_or_default();
        let case = Case::from_json(&v["case"]).unwrap_or_else(|| inconclusive(&ev, "no case"));
        return match run_case(&case, &ev) {
            Ok(()) => finish_ok(&ev),
            Err(f) => finish_violation(&ev, Violation { failure: f, case: Some(case.clone()) }, case.to_json()),
        };
    }
    for (_, v) in load_replays(P) {
        if let Some(case) = Case::from_json(&v["case"]) {
            if let Err(f) = run_case(&case, &ev) {
                finish_violation(&ev, Violation { failure: f, case: Some(case.clone()) }, case.to_json());
            }
        }
    }
    match run_sharded(&ev, &spec, 11, &|c| run_case(c, &ev)) {
        Ok(()) => finish_ok(&ev),
        Err(v) => {
            let payload = v.case.as_ref().map(|c| c.to_json()).unwrap_or_default();
            finish_violation(&ev, v, payload)
        }
    }
}
