//! C16 — an external observer tracks exactly the members' public state.
use crate::engine::*;
use crate::history::*;
use crate::mutate::mutate_message;
use crate::providers::{VCrypto, VIdentity};
use crate::world::*;
use crate::Ctx;
use mls_rs::external_client::builder::{ExternalBaseConfig, WithCryptoProvider, WithIdentityProvider};
use mls_rs::external_client::{ExternalClient, ExternalGroup, ExternalReceivedMessage, ExternalSnapshot};
use mls_rs::group::proposal::{CustomProposal, ProposalType};
use mls_rs::group::{ContentType, ExportedTree};
use mls_rs::{Extension, ExtensionList, MlsMessage};

const P: &str = "C16";

type XConfig = WithCryptoProvider<VCrypto, WithIdentityProvider<VIdentity, ExternalBaseConfig>>;

fn fail(what: &str, detail: String) -> Failure {
    Failure::new(format!("{P}|{what}"), detail)
}

pub struct Obs {
    ev: &'static Evidence,
    rng: SplitMix,
    client: Option<ExternalClient<XConfig>>,
    group: Option<ExternalGroup<XConfig>>,
    jitter: Option<u64>,
    jitter_mode: u16,
    start_epoch: u64,
    wire_seen: usize,
    /// application ciphertexts per epoch
    apps: Vec<(u64, Vec<u8>)>,
    pub commits_tracked: u64,
    pub external_proposals: u64,
    pub snapshots: u64,
    /// A second observer run the "stateless server" way (examples/basic_server_usage.rs): it exists only as snapshot bytes
    /// between messages; proposals are kept outside as `cached_proposal()` bytes and re-inserted before each commit.
    stateless: Option<Vec<u8>>,
    stateless_cached: Vec<Vec<u8>>,
    /// the stateless observer's client: built with cache_proposals(false), as the documentation of that flow suggests
    stateless_client: Option<ExternalClient<XConfig>>,
    /// the stateless observer calls `process_incoming_message` (no time given: nothing that depends on a clock is checked)
    /// instead of `process_incoming_message_with_time`
    stateless_without_time: bool,
}

impl Obs {
    fn make_client(&self, w: &World) -> ExternalClient<XConfig> {
        self.make_client_with(w, true)
    }

    fn make_client_with(&self, w: &World, cache_proposals: bool) -> ExternalClient<XConfig> {
        let p = &w.parties[0];
        let mut b = ExternalClient::builder()
            .cache_proposals(cache_proposals)
            .crypto_provider(VCrypto::new(p.provider))
            .identity_provider(VIdentity::new())
            .extension_types([EXT_TYPE.into(), EXT_TYPE2.into()])
            .custom_proposal_types([ProposalType::new(CUSTOM_PROPOSAL)]);
        if let Some(j) = self.jitter {
            b = b.max_epoch_jitter(j);
        }
        if let Some((sk, id)) = &w.external_sender {
            b = b.signer(sk.clone(), id.clone());
        }
        b.build()
    }

    /// Start observing from the GroupInfo (+ tree) of a current member.
    fn start(&mut self, w: &mut World) -> CaseResult {
        let members = w.members();
        let m = members[self.rng.below(members.len() as u64) as usize];
        let in_ext = self.rng.below(2) == 0;
        let party = &w.parties[m];
        let gi = guard(|| party.g().group_info_message(in_ext)).map_err(|e| fail(&format!("group_info_failed|{}", e.class()), e.text().into()))?;
        let gi_bytes = gi.to_bytes().expect("enc");
        let tree = (!in_ext).then(|| party.g().export_tree().to_bytes().expect("tree"));
        // jitter relative to the epoch at which observation starts
        self.jitter = match self.jitter_mode % 7 {
            0 => None,
            1 => Some(0),
            2 => Some(1),
            3 => Some(3),
            4 => Some(w.epoch),
            5 => Some(w.epoch + 1),
            _ => Some(u64::MAX),
        };
        let client = self.make_client(w);
        let t = w.now();
        let g = guard(|| {
            let tr = match &tree {
                Some(t) => Some(ExportedTree::from_bytes(t)?),
                None => None,
            };
            client.observe_group(MlsMessage::from_bytes(&gi_bytes)?, tr, Some(t))
        });
        match g {
            Ok(g) => {
                self.stateless = g.snapshot().to_bytes().ok();
                self.stateless_cached.clear();
                self.stateless_client = Some(self.make_client_with(w, false));
                self.group = Some(g);
                self.client = Some(client);
                self.start_epoch = w.epoch;
                self.wire_seen = w.wire_log.len();
                self.ev.class(&format!("observer_jitter_mode_{}", self.jitter_mode % 7));
                self.compare(w)
            }
            Err(e) if e.is_panic() => Err(panic_failure(P, "observe_group", &e)),
            Err(e) => Err(fail(&format!("observer_rejects_group_info|{}", e.class()), e.text().into())),
        }
    }

    /// One message through the stateless observer.
    fn stateless_step(&mut self, w: &World, kind: &str, bytes: &[u8]) -> CaseResult {
        let (Some(snap), Some(client)) = (self.stateless.clone(), self.stateless_client.as_ref()) else { return Ok(()) };
        let t = w.now();
        let mut g = match guard(|| client.load_group(ExternalSnapshot::from_bytes(&snap)?)) {
            Ok(g) => g,
            Err(e) if e.is_panic() => return Err(panic_failure(P, "ExternalClient::load_group(stateless)", &e)),
            Err(e) => return Err(fail(&format!("observer_cannot_restore_snapshot|{}", e.class()), e.text().into())),
        };
        let plain = self.stateless_without_time;
        if plain {
            self.ev.class("stateless_observer_messages_processed_without_time");
        }
        if kind == "proposal" {
            match guard(|| if plain { g.process_incoming_message(MlsMessage::from_bytes(bytes)?) } else { g.process_incoming_message_with_time(MlsMessage::from_bytes(bytes)?, t) }) {
                Ok(ExternalReceivedMessage::Proposal(d)) => {
                    let c = d.cached_proposal().to_bytes().map_err(|e| fail("cached_proposal_encode", format!("{e:?}")))?;
                    self.stateless_cached.push(c);
                    self.ev.class("stateless_observer_proposals_cached_outside");
                    Ok(())
                }
                Ok(_) => Err(fail("observer_misreports_message", "proposal (stateless)".into())),
                Err(e) if e.is_panic() => Err(panic_failure(P, "observer.process_incoming_message(proposal, stateless)", &e)),
                Err(e) => Err(fail(&format!("observer_rejects_genuine_proposal|{}", e.class()), format!("stateless observer: {}", e.text()))),
            }
        } else {
            for c in &self.stateless_cached {
                match mls_rs::group::CachedProposal::from_bytes(c) {
                    Ok(cp) => g.insert_proposal(cp),
                    Err(e) => return Err(fail("cached_proposal_does_not_decode", format!("{e:?}"))),
                }
            }
            // every other time the server is reduced to bytes once more between the insertion and the commit
            if self.rng.below(2) == 0 {
                let b = g.snapshot().to_bytes().map_err(|e| fail("observer_snapshot_failed", format!("{e:?}")))?;
                g = match guard(|| client.load_group(ExternalSnapshot::from_bytes(&b)?)) {
                    Ok(g) => g,
                    Err(e) if e.is_panic() => return Err(panic_failure(P, "ExternalClient::load_group(stateless)", &e)),
                    Err(e) => return Err(fail(&format!("observer_cannot_restore_snapshot|{}", e.class()), e.text().into())),
                };
                self.ev.class("stateless_observer_snapshots_with_inserted_proposals");
            }
            match guard(|| if plain { g.process_incoming_message(MlsMessage::from_bytes(bytes)?) } else { g.process_incoming_message_with_time(MlsMessage::from_bytes(bytes)?, t) }) {
                Ok(ExternalReceivedMessage::Commit(_)) => {
                    self.stateless_cached.clear();
                    self.stateless = Some(g.snapshot().to_bytes().map_err(|e| fail("observer_snapshot_failed", format!("{e:?}")))?);
                    self.ev.class("stateless_observer_commits");
                    Ok(())
                }
                Ok(_) => Err(fail("observer_misreports_message", format!("{kind} (stateless)"))),
                Err(e) if e.is_panic() => Err(panic_failure(P, &format!("observer.process_incoming_message({kind}, stateless)"), &e)),
                Err(e) => Err(fail(
                    &format!("observer_rejects_genuine_{kind}|{}", e.class()),
                    format!("stateless observer (snapshot + {} proposals cached outside the group): {}", self.stateless_cached.len(), e.text()),
                )),
            }
        }
    }

    /// The history ends with a ReInit commit. The observers follow it like any commit; afterwards the old group is frozen
    /// for them as it is for the members: a commit by a member that ignores the freeze (hook: a copy of a member that
    /// forgot the pending re-initialisation) is refused by members and observers alike.
    fn reinit_epilogue(&mut self, w: &mut World) -> CaseResult {
        let members = w.members();
        if members.len() < 2 {
            return Ok(());
        }
        w.flush(1)?;
        self.catch_up(w)?;
        if members.iter().any(|m| w.parties[*m].g().has_pending_commit()) {
            return Ok(());
        }
        let a = members[self.rng.below(members.len() as u64) as usize];
        let t = w.tick();
        let suite = w.cfg.suite;
        let built = {
            let party = &mut w.parties[a];
            party.gm().clear_proposal_cache();
            guard(|| party.gm().commit_builder().reinit(Some(b"next".to_vec()), mls_rs::ProtocolVersion::MLS_10, mls_rs::CipherSuite::from(suite), ExtensionList::new())?.commit_time(t).build())
        };
        let out = match built {
            Ok(o) => o,
            Err(e) if e.is_panic() => return Err(panic_failure(P, "commit_builder.reinit.build", &e)),
            Err(e) => {
                self.ev.class(&format!("reinit_commit_not_built:{}", e.class()));
                return Ok(());
            }
        };
        let bytes = out.commit_message.to_bytes().expect("enc");
        for m in &members {
            if *m == a {
                continue;
            }
            w.parties[*m].gm().clear_proposal_cache();
            match w.process(*m, &bytes) {
                Ok(_) => {}
                Err(e) if e.is_panic() => return Err(panic_failure(P, "process_incoming_message(reinit commit)", &e)),
                Err(e) => return Err(setup_failure(P, "members process the ReInit commit", &e)),
            }
        }
        {
            let party = &mut w.parties[a];
            guard(|| party.gm().apply_pending_commit()).map_err(|e| setup_failure(P, "apply ReInit commit", &e))?;
        }
        w.epoch += 1;
        w.commits += 1;
        w.log_wire("commit", &bytes);
        // the observers follow, and agree with the members on the epoch they are all stuck in
        self.stateless_cached.clear();
        self.catch_up(w)?;
        self.compare(w)?;
        self.ev.class("reinit_commits_followed_by_observer");
        // a member that ignores the freeze
        let b = members[self.rng.below(members.len() as u64) as usize];
        let mut rogue = w.parties[b].g().clone();
        rogue.verif_forget_pending_reinit();
        let t = w.tick();
        let rogue_commit = match guard(|| rogue.commit_builder().commit_time(t).build()) {
            Ok(o) => o.commit_message.to_bytes().expect("enc"),
            Err(e) if e.is_panic() => return Err(panic_failure(P, "commit_builder.build(rogue)", &e)),
            Err(e) => {
                self.ev.class(&format!("rogue_commit_not_built:{}", e.class()));
                return Ok(());
            }
        };
        for m in &members {
            if *m == b {
                continue;
            }
            let mut clone = w.parties[*m].g().clone();
            match guard(|| clone.process_incoming_message_with_time(MlsMessage::from_bytes(&rogue_commit)?, t)) {
                Ok(_) => self.ev.class("member_accepts_commit_after_reinit(decided by C17)"),
                Err(e) if e.is_panic() => return Err(panic_failure(P, "process_incoming_message(commit after reinit)", &e)),
                Err(e) => self.ev.class(&format!("member_refuses_commit_after_reinit:{}", e.class())),
            }
        }
        if let Some(g) = self.group.as_ref() {
            let mut clone = g.clone();
            match guard(|| clone.process_incoming_message_with_time(MlsMessage::from_bytes(&rogue_commit)?, t)) {
                Ok(_) => {
                    return Err(fail(
                        "observer_accepts_commit_after_reinit",
                        format!("the group was re-initialised in epoch {}; the observer accepts a further commit for it and moves to epoch {} (the members refuse it)", w.epoch - 1, clone.group_context().epoch),
                    ))
                }
                Err(e) if e.is_panic() => return Err(panic_failure(P, "observer.process_incoming_message(commit after reinit)", &e)),
                Err(e) => self.ev.class(&format!("observer_refuses_commit_after_reinit:{}", e.class())),
            }
        }
        if let (Some(snap), Some(client)) = (self.stateless.clone(), self.stateless_client.as_ref()) {
            match guard(|| client.load_group(ExternalSnapshot::from_bytes(&snap)?)?.process_incoming_message_with_time(MlsMessage::from_bytes(&rogue_commit)?, t)) {
                Ok(_) => return Err(fail("observer_accepts_commit_after_reinit|stateless", "restored from its snapshot, the observer accepts a commit for the re-initialised group".into())),
                Err(e) if e.is_panic() => return Err(panic_failure(P, "observer.process_incoming_message(commit after reinit, stateless)", &e)),
                Err(e) => self.ev.class(&format!("stateless_observer_refuses_commit_after_reinit:{}", e.class())),
            }
        }
        self.ev.nontrivial(&("reinit", w.epoch, a, b));
        Ok(())
    }

    fn compare_stateless(&mut self, w: &World) -> CaseResult {
        let (Some(snap), Some(client)) = (self.stateless.clone(), self.stateless_client.as_ref()) else { return Ok(()) };
        let g = guard(|| client.load_group(ExternalSnapshot::from_bytes(&snap)?)).map_err(|e| fail(&format!("observer_cannot_restore_snapshot|{}", e.class()), e.text().into()))?;
        let mg = w.parties[w.members()[0]].g();
        if g.group_context() != mg.context() {
            return Err(fail("observer_context_differs|stateless", format!("stateless observer epoch {} members' epoch {}", g.group_context().epoch, mg.context().epoch)));
        }
        let ot = g.export_tree().map_err(|e| fail("observer_export_tree", format!("{e:?}")))?;
        if ot != mg.export_tree().to_bytes().expect("tree") {
            return Err(fail("observer_tree_differs", "stateless observer".into()));
        }
        Ok(())
    }

    fn compare(&mut self, w: &World) -> CaseResult {
        self.compare_stateless(w)?;
        let Some(g) = &self.group else { return Ok(()) };
        let members = w.members();
        let m = members[0];
        let mg = w.parties[m].g();
        if g.group_context() != mg.context() {
            let what = if g.group_context().epoch != mg.context().epoch { "epoch" } else if g.group_context().tree_hash != mg.context().tree_hash { "tree_hash" } else { "other" };
            return Err(fail(&format!("observer_context_differs|{what}"), format!("observer epoch {} members' epoch {}", g.group_context().epoch, mg.context().epoch)));
        }
        let ot = g.export_tree().map_err(|e| fail("observer_export_tree", format!("{e:?}")))?;
        let mt = mg.export_tree().to_bytes().expect("tree");
        if ot != mt {
            return Err(fail("observer_tree_differs", format!("{} vs {} bytes", ot.len(), mt.len())));
        }
        let or: Vec<_> = g.roster().members().into_iter().map(|x| (x.index, x.signing_identity)).collect();
        let mr: Vec<_> = mg.roster().members().into_iter().map(|x| (x.index, x.signing_identity)).collect();
        if or != mr {
            return Err(fail("observer_roster_differs", String::new()));
        }
        Ok(())
    }

    /// Feed the observer everything the members exchanged publicly since the last call.
    fn catch_up(&mut self, w: &mut World) -> CaseResult {
        let new: Vec<(&'static str, Vec<u8>)> = w.wire_log[self.wire_seen..].to_vec();
        self.wire_seen = w.wire_log.len();
        let t = w.now();
        for (kind, bytes) in new {
            if kind == "application" {
                if let Some(e) = MlsMessage::from_bytes(&bytes).ok().and_then(|m| m.epoch()) {
                    self.apps.push((e, bytes.clone()));
                }
            }
            if !matches!(kind, "proposal" | "commit" | "external_commit" | "application") {
                continue;
            }
            let Some(g) = self.group.as_mut() else { return Ok(()) };
            // corrupted copies of handshake messages first, on a clone: everything the observer can check must be rejected
            if matches!(kind, "proposal" | "commit" | "external_commit") && self.rng.below(3) == 0 {
                if let Some(mu) = mutate_message(&bytes, self.rng.next() as u16, self.rng.next() as u16, self.rng.next() as u16) {
                    let uncheckable = matches!(mu.field.as_str(), "membership_tag" | "confirmation_tag" | "trailing");
                    let mut clone = g.clone();
                    let r = guard(|| clone.process_incoming_message_with_time(MlsMessage::from_bytes(&mu.bytes)?, t).map(|_| ()));
                    match r {
                        Err(e) if e.is_panic() => return Err(panic_failure(P, &format!("observer.process_incoming_message(corrupt {kind})"), &e)),
                        Err(e) => self.ev.class(&format!("observer_rejects_corrupt:{}", e.class())),
                        Ok(()) if uncheckable => self.ev.class("observer_accepts_corruption_it_cannot_check"),
                        Ok(()) => {
                            return Err(fail(
                                &format!("observer_accepts_corrupted_{kind}|{}", mu.field),
                                format!("mutation {} of a {kind} message was accepted by the observer", mu.label),
                            ))
                        }
                    }
                }
            }
            let g = self.group.as_mut().unwrap();
            let r = guard(|| g.process_incoming_message_with_time(MlsMessage::from_bytes(&bytes)?, t));
            match (kind, r) {
                (_, Err(e)) if e.is_panic() => return Err(panic_failure(P, &format!("observer.process_incoming_message({kind})"), &e)),
                ("application", Ok(ExternalReceivedMessage::Ciphertext(ContentType::Application))) => {}
                ("application", Ok(_)) => return Err(fail("observer_misreports_ciphertext", String::new())),
                ("application", Err(e)) => {
                    return Err(fail(&format!("observer_rejects_current_epoch_ciphertext|{}", e.class()), format!("jitter {:?}: {}", self.jitter, e.text())));
                }
                ("proposal", Ok(ExternalReceivedMessage::Proposal(_))) => self.stateless_step(w, kind, &bytes)?,
                ("commit" | "external_commit", Ok(ExternalReceivedMessage::Commit(_))) => {
                    self.commits_tracked += 1;
                    self.stateless_step(w, kind, &bytes)?;
                }
                (k, Ok(_)) => return Err(fail("observer_misreports_message", k.to_string())),
                (k, Err(e)) => {
                    return Err(fail(
                        &format!("observer_rejects_genuine_{k}|{}", e.class()),
                        format!("observer at epoch {} (started at {}): {}", self.group.as_ref().unwrap().group_context().epoch, self.start_epoch, e.text()),
                    ))
                }
            }
        }
        Ok(())
    }

    /// Application ciphertexts of earlier epochs against the configured window; old commits must be refused.
    fn window_probe(&mut self, w: &World) -> CaseResult {
        let Some(g) = &self.group else { return Ok(()) };
        let t = w.now();
        let epoch = g.group_context().epoch;
        let apps = self.apps.clone();
        for (e, bytes) in apps.iter().rev().take(12) {
            let mut clone = g.clone();
            let r = guard(|| clone.process_incoming_message_with_time(MlsMessage::from_bytes(bytes)?, t));
            let inside = match self.jitter {
                None => true,
                Some(j) => *e >= epoch.saturating_sub(j),
            };
            match r {
                Err(x) if x.is_panic() => {
                    let sig = format!("{P}|panic|observer.process_incoming_message(old ciphertext)|{}", panic_signature(x.text()));
                    return self.ev.known_or_fail(&sig, || format!("observer at epoch {epoch} with max_epoch_jitter {:?} panicked on an application ciphertext of epoch {e}: {}", self.jitter, x.text()));
                }
                Ok(ExternalReceivedMessage::Ciphertext(ContentType::Application)) => {
                    if !inside {
                        return Err(fail("ciphertext_outside_window_let_through", format!("epoch {e}, observer at {epoch}, jitter {:?}", self.jitter)));
                    }
                    self.ev.class("ciphertexts_inside_window_let_through");
                }
                Ok(_) => return Err(fail("observer_misreports_ciphertext", String::new())),
                Err(x) => {
                    if inside {
                        return Err(fail(
                            &format!("ciphertext_inside_window_rejected|{}", x.class()),
                            format!("application ciphertext of epoch {e}, observer at epoch {epoch}, max_epoch_jitter {:?}: {}", self.jitter, x.text()),
                        ));
                    }
                    self.ev.class("ciphertexts_outside_window_rejected");
                }
            }
            if *e != epoch {
                self.ev.nontrivial(&(epoch, *e, self.jitter));
            }
        }
        Ok(())
    }
}

impl Observer for Obs {
    fn on_start(&mut self, w: &mut World) {
        w.keep_wire_log = true;
    }

    fn after_commit(&mut self, w: &mut World, _info: &CommitInfo, st: &HistoryStats) -> CaseResult {
        if self.group.is_none() {
            // the observer starts at a generated epoch
            if st.commits >= 1 + (self.jitter_mode as u64 / 7) % 3 {
                self.start(w)?;
            } else {
                self.wire_seen = w.wire_log.len();
            }
            return Ok(());
        }
        self.catch_up(w)?;
        self.compare(w)?;
        // What is still cached decides which later commits are accepted. Members drop every cached proposal when the epoch
        // changes (whatever kind of commit changed it); right after a commit the observer's cache must be empty too.
        if let Some(g) = &self.group {
            let n = g.get_cached_proposals().len();
            if n != 0 {
                return Err(fail(
                    "observer_keeps_proposals_of_the_previous_epoch",
                    format!("observer at epoch {} still caches {n} proposal(s) right after the {} that started this epoch", g.group_context().epoch, if _info.external { "external commit" } else { "commit" }),
                ));
            }
        }
        self.window_probe(w)?;
        Ok(())
    }

    fn before_commit(&mut self, w: &mut World, _committer: usize) -> CaseResult {
        // proposals and application messages sent so far reach the observer before the commit does
        if self.group.is_some() {
            self.catch_up(w)?;
        }
        Ok(())
    }

    fn extra_op(&mut self, w: &mut World, op: &[u16; 5], notes: &mut EpochNotes) -> CaseResult {
        if self.group.is_none() {
            return Ok(());
        }
        self.catch_up(w)?;
        match pick(op[2], 10) {
            9 => {
                // A listed external sender that ignores the sender rules: a member's Update proposal body, re-framed as coming
                // from the external sender and signed with its key. Members may refuse it outright; if they cache it, the next
                // committer has to drop it like any other invalid by-reference proposal (never a panic).
                let Some((ext_sk, ext_id)) = w.external_sender.clone() else { return Ok(()) };
                use mls_rs::extension::built_in::ExternalSendersExt;
                let members = w.members();
                let m = members[pick(op[3], members.len())];
                let Some(es) = w.parties[m].g().context().extensions.get_as::<ExternalSendersExt>().ok().flatten() else { return Ok(()) };
                let Some(idx) = es.allowed_senders.iter().position(|x| *x == ext_id) else { return Ok(()) };
                let mut clone = w.parties[m].g().clone();
                let Ok(genuine) = guard(|| clone.propose_update(vec![])) else { return Ok(()) };
                let gb = genuine.to_bytes().expect("enc");
                let csp = w.parties[m].suite_provider(w.cfg.suite);
                let Some(bytes) = crate::forge::reframe_proposal_as_external(&csp, &gb, idx as u32, &ext_sk) else { return Ok(()) };
                let t = w.now();
                let mut cached_by = 0;
                for r in members.iter().copied() {
                    let party = &mut w.parties[r];
                    match guard(|| party.gm().process_incoming_message_with_time(MlsMessage::from_bytes(&bytes)?, t)) {
                        Ok(_) => cached_by += 1,
                        Err(e) if e.is_panic() => return Err(panic_failure(P, "process_incoming_message(update proposal from an external sender)", &e)),
                        Err(e) => self.ev.class(&format!("external_update_proposal_refused_at_receipt:{}", e.class())),
                    }
                }
                if cached_by > 0 {
                    self.ev.class("external_update_proposal_cached_by_members");
                }
                // the observer sees it too
                if let Some(g) = self.group.as_mut() {
                    match guard(|| g.process_incoming_message_with_time(MlsMessage::from_bytes(&bytes)?, t)) {
                        Err(e) if e.is_panic() => return Err(panic_failure(P, "observer.process_incoming_message(update proposal from an external sender)", &e)),
                        _ => {}
                    }
                }
                self.ev.nontrivial(&(w.epoch, "external update proposal"));
            }
            7 | 8 => {
                // a prospective member asks to be added (sender type new_member_proposal)
                let members = w.members();
                if members.len() >= 10 || notes.resumption_psk_pending {
                    return Ok(());
                }
                let m = members[pick(op[3], members.len())];
                let gi = guard(|| w.parties[m].g().group_info_message(true)).map_err(|e| fail(&format!("group_info_failed|{}", e.class()), e.text().into()))?;
                let p = w.new_party();
                for i in 0..3u8 {
                    w.parties[p].pstore.put(&[b'p', b's', b'k', i], &[i + 1; 32]);
                }
                let t = w.now();
                let joiner = &w.parties[p];
                let r = guard(|| joiner.client.external_add_proposal(&gi, None, vec![op[4] as u8], Default::default(), Default::default(), Some(t)));
                match r {
                    Ok(msg) => {
                        let bytes = msg.to_bytes().expect("enc");
                        w.log_wire("proposal", &bytes);
                        w.inflight.push(Flight { bytes, sender: usize::MAX, sender_leaf: u32::MAX, kind: FlightKind::Proposal, payload: vec![], aad: vec![op[4] as u8], epoch: w.epoch });
                        notes.pending_adds.push(p);
                        w.flush(op[4])?;
                        self.catch_up(w)?;
                        self.ev.class("new_member_add_proposals");
                        self.ev.nontrivial(&(w.epoch, "new member proposal"));
                    }
                    Err(e) if e.is_panic() => return Err(panic_failure(P, "Client::external_add_proposal", &e)),
                    Err(e) => return Err(fail(&format!("external_add_proposal_failed|{}", e.class()), e.text().into())),
                }
            }
            0 | 1 => {
                // snapshot -> bytes -> load
                let g = self.group.as_ref().unwrap();
                let with_tree = op[3] % 2 == 0;
                let (bytes, tree) = if with_tree {
                    (g.snapshot().to_bytes(), None)
                } else {
                    let mut g2 = g.clone();
                    let tree = g.export_tree().ok();
                    (g2.snapshot_without_ratchet_tree().to_bytes(), tree)
                };
                let bytes = bytes.map_err(|e| fail("observer_snapshot_failed", format!("{e:?}")))?;
                let client = self.client.as_ref().unwrap();
                let r = guard(|| {
                    let s = ExternalSnapshot::from_bytes(&bytes)?;
                    match &tree {
                        Some(t) => client.load_group_with_ratchet_tree(s, ExportedTree::from_bytes(t)?),
                        None => client.load_group(s),
                    }
                });
                match r {
                    Ok(g) => {
                        self.group = Some(g);
                        self.snapshots += 1;
                        self.ev.class("observer_snapshot_restores");
                        self.compare(w)?;
                    }
                    Err(e) if e.is_panic() => return Err(panic_failure(P, "ExternalClient::load_group", &e)),
                    Err(e) => return Err(fail(&format!("observer_cannot_restore_snapshot|{}", e.class()), e.text().into())),
                }
            }
            _ => {
                // proposals issued by the observer as a listed external sender
                if w.external_sender.is_none() || notes.resumption_psk_pending {
                    return Ok(());
                }
                use mls_rs::extension::built_in::ExternalSendersExt;
                let listed = w.parties[w.members()[0]].g().context().extensions.get_as::<ExternalSendersExt>().ok().flatten().is_some();
                if !listed {
                    return Ok(());
                }
                let members = w.members();
                let g = self.group.as_mut().unwrap();
                let kind = op[3] % 4;
                let mut add_candidate = None;
                let r = match kind {
                    0 if members.len() < 10 => {
                        let p = w.new_party();
                        for i in 0..3u8 {
                            w.parties[p].pstore.put(&[b'p', b's', b'k', i], &[i + 1; 32]);
                        }
                        let kp = w.key_package(p).map_err(|e| setup_failure(P, "key_package", &e))?;
                        add_candidate = Some(p);
                        let g = self.group.as_mut().unwrap();
                        guard(|| g.propose_add(kp, vec![]))
                    }
                    1 if members.len() > 3 => {
                        let target = members[pick(op[4], members.len())];
                        let leaf = w.parties[target].leaf();
                        guard(|| g.propose_remove(leaf, vec![]))
                    }
                    2 => guard(|| g.propose_custom(CustomProposal::new(ProposalType::new(CUSTOM_PROPOSAL), vec![1, 2]), vec![])),
                    _ => guard(|| g.propose_external_psk(mls_rs::psk::ExternalPskId::new(vec![b'p', b's', b'k', 1]), vec![])),
                };
                match r {
                    Ok(m) => {
                        let bytes = m.to_bytes().expect("enc");
                        // what the observer sends must be something members can commit: a PreSharedKeyID nonce is Nh bytes
                        // (RFC 9420 §8.4); members drop PSK proposals with any other nonce length when they commit
                        if let Some((_, spans)) = crate::refmodel::wire::message_spans(&bytes) {
                            if let Some(sp) = spans.iter().find(|x| x.name.ends_with("psk_nonce")) {
                                let n = crate::refmodel::tls::Reader::new(&bytes[sp.start..sp.end]).opaque().map(|x| x.len()).unwrap_or(0);
                                let nh = crate::refmodel::keysched::Suite::new(w.cfg.suite).nh();
                                if n != nh {
                                    return Err(fail("observer_psk_proposal_with_wrong_nonce_length", format!("nonce of {n} bytes, KDF.Nh = {nh}")));
                                }
                                self.ev.class("observer_psk_proposals_checked");
                            }
                        }
                        self.external_proposals += 1;
                        self.ev.class(&format!("external_proposals_kind_{kind}"));
                        self.stateless_step(w, "proposal", &bytes)?;
                        // broadcast: the members must accept it (checked when the traffic is flushed)
                        w.inflight.push(Flight { bytes: bytes.clone(), sender: usize::MAX, sender_leaf: u32::MAX, kind: FlightKind::Proposal, payload: vec![], aad: vec![], epoch: w.epoch });
                        if let Some(p) = add_candidate {
                            notes.pending_adds.push(p);
                        }
                        w.flush(op[4])?;
                        self.ev.nontrivial(&(w.epoch, kind, "external proposal"));
                    }
                    Err(e) if e.is_panic() => return Err(panic_failure(P, "ExternalGroup::propose", &e)),
                    Err(e) => return Err(fail(&format!("listed_external_sender_cannot_propose|{}", e.class()), e.text().into())),
                }
            }
        }
        Ok(())
    }

    fn end(&mut self, w: &mut World, _st: &HistoryStats) -> CaseResult {
        if self.group.is_some() {
            self.catch_up(w)?;
            self.compare(w)?;
            self.window_probe(w)?;
            if self.rng.below(2) == 0 {
                self.reinit_epilogue(w)?;
            }
        }
        Ok(())
    }
}

pub fn run(ctx: &Ctx) -> ! {
    let mut hp = HistoryParams::standard(ctx.tier);
    // public handshake messages only: the observer cannot follow encrypted ones
    hp.weights = [10, 8, 9, 2, 0, 1, 2, 28, 5, 12, 2, 16];
    hp.external_sender = true;
    hp.force_public_handshake = true;
    hp.short_key_package_lifetimes = true;
    hp.cross_decrypt_every = 2;
    hp.max_initial = ctx.tier.pick(6, 12);
    let spec = RunSpec {
        shards: 16,
        cases_per_shard: ctx.tier.pick(60, 400),
        cfg_len: CFG_LEN,
        min_ops: 5,
        max_ops: ctx.tier.pick(30, 60),
        max_shrink_iters: 300,
    };
    let _ = (Extension::new(EXT_TYPE.into(), vec![]), ExtensionList::new());
    run_property(
        ctx,
        P,
        "exploration",
        "C01-style histories with public handshake messages in a group created with an ExternalSendersExt; an ExternalClient observer starts from the GroupInfo (+ tree, inside or outside the extension) of a \
         generated epoch with max_epoch_jitter in {unset, 0, 1, 3, epoch, epoch+1, u64::MAX}; it is fed every proposal, commit, external commit and application ciphertext in order, snapshot -> bytes -> \
         load_group (with and without tree) at generated points, and issues add / remove / custom / PSK proposals as the listed external sender. Oracle: after every commit its group context, roster and exported \
         tree equal the members'; it accepts every genuine message; field-addressed corruptions of handshake messages are rejected unless they only touch what needs group secrets (membership / confirmation tag); \
         its proposals are accepted by all members and committed; half of the histories end with a ReInit commit, after which the observers refuse the commit of a member that ignores the freeze; half of the worlds use key packages that are valid on the fake clock only and half of the stateless observers process without a time; application ciphertexts of epoch e are reported as Ciphertext iff epoch - jitter <= e (saturating), for every jitter, and nothing panics. \
         Non-trivial = window probes on ciphertexts of earlier epochs and external proposals; distinct by (epoch, message epoch, jitter) / (epoch, kind).",
        &hp,
        spec,
        &|case, ev| Obs {
            ev,
            rng: SplitMix::new(((case.c(7) as u64) << 16) | case.c(8) as u64, 16),
            client: None,
            group: None,
            jitter: None,
            jitter_mode: case.c(9),
            start_epoch: 0,
            wire_seen: 0,
            apps: vec![],
            commits_tracked: 0,
            external_proposals: 0,
            snapshots: 0,
            stateless: None,
            stateless_cached: vec![],
            stateless_client: None,
            stateless_without_time: case.c(9) % 2 == 0,
        },
        &|_, o| {
            o.ev.class_n("commits_tracked_by_observer", o.commits_tracked);
            o.ev.class_n("external_proposals", o.external_proposals);
            false
        },
    )
}
