//! C02 — only current members can follow the group; secrets go only to entitled keys.
use crate::engine::*;
use crate::history::*;
use crate::refmodel::tls::Reader;
use crate::refmodel::tree::{RefNode, RefTreeNodes};
use crate::world::*;
use crate::Ctx;
use std::collections::{BTreeMap, BTreeSet};

const P: &str = "C02";

pub struct Obs {
    ev: &'static Evidence,
    pre_tree: Option<Vec<u8>>,
    wire_seen: usize,
    /// removed party -> (epoch it is stuck in, authenticator there)
    stuck: BTreeMap<usize, (u64, Vec<u8>)>,
    pub fed: u64,
    pub removal_commits_nontrivial: u64,
    /// init secret of the epoch that is about to end, as every member (also the ones about to be removed) holds it
    pre_init_secret: Option<Vec<u8>>,
}

fn fail(what: &str, detail: String) -> Failure {
    Failure::new(format!("{P}|{what}"), detail)
}

fn node_pk(n: &RefNode) -> Option<&Vec<u8>> {
    match n {
        RefNode::Blank => None,
        RefNode::Leaf(l) => Some(&l.encryption_key),
        RefNode::Parent(p) => Some(&p.encryption_key),
    }
}

fn contains(hay: &[u8], needle: &[u8]) -> bool {
    hay.windows(needle.len()).any(|w| w == needle)
}

/// init_key of an encoded key-package MLSMessage.
fn init_key_of(kp_msg: &[u8]) -> Option<Vec<u8>> {
    let mut r = Reader::new(kp_msg);
    r.u16()?; // version
    if r.u16()? != 5 {
        return None;
    }
    r.u16()?; // kp version
    r.u16()?; // suite
    Some(r.opaque()?.to_vec())
}

impl Obs {
    fn check_recipients(&mut self, w: &mut World, info: &CommitInfo) -> CaseResult {
        let post_bytes = w.parties[info.committer].g().export_tree().to_bytes().unwrap_or_default();
        let post = RefTreeNodes::parse(&post_bytes).ok_or_else(|| fail("exported_tree_unparsable", String::new()))?;
        let pre = self.pre_tree.take().and_then(|b| RefTreeNodes::parse(&b));
        let committer_leaf = w.parties[info.committer].leaf();

        let path_seals: Vec<_> = w.last_commit_hpke.iter().filter(|s| contains(&s.info, b"UpdatePathNode")).cloned().collect();
        let welcome_seals: Vec<_> = w.last_commit_hpke.iter().filter(|s| contains(&s.info, b"Welcome")).cloned().collect();
        let other: usize = w.last_commit_hpke.len() - path_seals.len() - welcome_seals.len();
        if other > 0 {
            return Err(fail("unexpected_hpke_seal", format!("{other} HPKE encryptions with an unknown label while building a commit")));
        }
        if !info.had_path && !path_seals.is_empty() {
            return Err(fail("path_secret_sealed_without_path", format!("{} UpdatePathNode seals in a path-less commit", path_seals.len())));
        }

        // identities added by this commit (leaves new in `post`)
        let pre_ids: BTreeSet<(u32, Vec<u8>)> = pre
            .as_ref()
            .map(|p| p.occupied_leaves().into_iter().map(|l| (l, p.leaf(l).unwrap().identity.clone())).collect())
            .unwrap_or_default();
        let new_leaves: Vec<u32> = post
            .occupied_leaves()
            .into_iter()
            .filter(|l| *l != committer_leaf && !pre_ids.contains(&(*l, post.leaf(*l).unwrap().identity.clone())))
            .collect();

        if info.had_path {
            // expected: one recipient set per node of the committer's filtered direct path
            let mut expected: Vec<BTreeSet<Vec<u8>>> = vec![];
            for (_, copath) in post.filtered_direct_path(committer_leaf) {
                let set: BTreeSet<Vec<u8>> = post
                    .resolution(copath)
                    .into_iter()
                    .filter(|n| !(n % 2 == 0 && new_leaves.contains(&(n / 2))))
                    .filter_map(|n| node_pk(&post.nodes[n as usize]).cloned())
                    .collect();
                if !set.is_empty() {
                    expected.push(set);
                }
            }
            let mut by_secret: BTreeMap<Vec<u8>, BTreeSet<Vec<u8>>> = BTreeMap::new();
            for s in &path_seals {
                if !by_secret.entry(s.pt.clone()).or_default().insert(s.remote.clone()) {
                    return Err(fail("path_secret_sealed_twice_to_one_key", String::new()));
                }
            }
            let mut got: Vec<BTreeSet<Vec<u8>>> = by_secret.into_values().collect();
            got.sort();
            expected.sort();
            if got != expected {
                let gl: Vec<usize> = got.iter().map(|s| s.len()).collect();
                let el: Vec<usize> = expected.iter().map(|s| s.len()).collect();
                return Err(fail(
                    "path_secret_recipients_differ_from_copath_resolutions",
                    format!("epoch {}: committer leaf {committer_leaf}: recipient set sizes per path secret {gl:?}, expected from the new tree {el:?} (leaves added by this commit: {new_leaves:?})", w.epoch),
                ));
            }
            // never to a key a removed party held, never to a leaf added by this commit
            if let Some(pre) = &pre {
                let mut forbidden: BTreeSet<Vec<u8>> = BTreeSet::new();
                for r in &info.removed {
                    // the removed party's old leaf: find by identity in the previous tree
                    let name = &w.parties[*r].name;
                    for l in pre.occupied_leaves() {
                        if &pre.leaf(l).unwrap().identity == name {
                            forbidden.insert(pre.leaf(l).unwrap().encryption_key.clone());
                            for (p, _) in pre.math.direct_copath(2 * l) {
                                if let Some(pk) = node_pk(&pre.nodes[p as usize]) {
                                    // only nodes the removed member had been merged into can be known to it
                                    let unmerged = matches!(&pre.nodes[p as usize], RefNode::Parent(pp) if pp.unmerged.contains(&l));
                                    if !unmerged {
                                        forbidden.insert(pk.clone());
                                    }
                                }
                            }
                        }
                    }
                }
                for l in &new_leaves {
                    forbidden.insert(post.leaf(*l).unwrap().encryption_key.clone());
                }
                for s in &path_seals {
                    if forbidden.contains(&s.remote) {
                        return Err(fail(
                            "path_secret_sealed_to_removed_or_new_member_key",
                            format!("epoch {}: a path secret was encrypted to a key of a removed member's path or of a leaf added by the same commit", w.epoch),
                        ));
                    }
                }
                if !info.removed.is_empty() && (pre.has_interior_blank_leaf() || pre.has_unmerged()) {
                    self.removal_commits_nontrivial += 1;
                    self.ev.nontrivial(&(w.epoch, &post_bytes[..post_bytes.len().min(96)]));
                }
                // removed leaf and committer under the same parent
                for r in &info.removed {
                    let name = &w.parties[*r].name;
                    for l in pre.occupied_leaves() {
                        if &pre.leaf(l).unwrap().identity == name && l / 2 == committer_leaf / 2 {
                            self.ev.class("removed_is_sibling_of_committer");
                            self.ev.nontrivial(&(w.epoch, l, committer_leaf));
                        }
                    }
                }
            }
        }

        // Welcome: exactly the init keys of the joiners of this commit
        if !info.external {
            // one seal per joiner, to the init key of one of the key packages that joiner published
            let got: Vec<Vec<u8>> = welcome_seals.iter().map(|s| s.remote.clone()).collect();
            let per_joiner_ok = info.joined.iter().all(|j| {
                let mine: Vec<Vec<u8>> = w.all_kps.get(j).map(|v| v.iter().filter_map(|b| init_key_of(b)).collect()).unwrap_or_default();
                got.iter().filter(|g| mine.contains(g)).count() == 1
            });
            let want = &info.joined;
            if got.len() != info.joined.len() || !per_joiner_ok {
                return Err(fail(
                    "joiner_secret_recipients_differ_from_added_key_packages",
                    format!("epoch {}: {} Welcome seals, {} members joined through this commit", w.epoch, got.len(), want.len()),
                ));
            }
        } else if !welcome_seals.is_empty() {
            return Err(fail("welcome_seal_in_external_commit", String::new()));
        }
        self.ev.class_n("update_path_seals_checked", path_seals.len() as u64);
        self.ev.class_n("welcome_seals_checked", welcome_seals.len() as u64);
        Ok(())
    }

    /// Feed everything that crossed the wire since the last call to every removed party.
    fn feed_removed(&mut self, w: &mut World) -> CaseResult {
        let mut new: Vec<(&'static str, Vec<u8>)> = w.wire_log[self.wire_seen..].to_vec();
        self.wire_seen = w.wire_log.len();
        let removed: Vec<usize> = w.parties.iter().filter(|p| p.status == Status::Removed).map(|p| p.id).collect();
        // a proposal of the current epoch that needs no group key at all: an outsider's request to be added (signed with its
        // own key, no membership tag). The members accept it (control); for a removed party it is later traffic like the rest.
        if !removed.is_empty() && !new.is_empty() {
            if let Some(m) = w.members().first().copied() {
                if let Ok(gi) = guard(|| w.parties[m].g().group_info_message(true)) {
                    let y = w.new_party();
                    let t = w.now();
                    let r = {
                        let joiner = &w.parties[y];
                        guard(|| joiner.client.external_add_proposal(&gi, None, vec![], Default::default(), Default::default(), Some(t)))
                    };
                    match r {
                        Ok(msg) => {
                            let bytes = msg.to_bytes().expect("enc");
                            let mut clone = w.parties[m].g().clone();
                            match guard(|| clone.process_incoming_message_with_time(mls_rs::MlsMessage::from_bytes(&bytes)?, t)) {
                                Ok(mls_rs::group::ReceivedMessage::Proposal(_)) => {
                                    new.push(("proposal", bytes));
                                    self.ev.class("new_member_proposals_of_a_later_epoch_fed_to_removed_parties");
                                }
                                Ok(_) => return Err(fail("new_member_proposal_misreported", String::new())),
                                Err(e) if e.is_panic() => return Err(panic_failure(P, "process_incoming_message(new member proposal)", &e)),
                                Err(e) => self.ev.class(&format!("new_member_proposal_refused_by_member:{}", e.class())),
                            }
                        }
                        Err(e) if e.is_panic() => return Err(panic_failure(P, "Client::external_add_proposal", &e)),
                        Err(e) => self.ev.class(&format!("new_member_proposal_not_built:{}", e.class())),
                    }
                }
            }
        }
        let member_auth: Option<Vec<u8>> = w.members().first().and_then(|m| w.parties[*m].g().epoch_authenticator().ok().map(|s| s.as_bytes().to_vec()));
        for r in removed {
            let (stuck_epoch, stuck_auth) = match self.stuck.get(&r) {
                Some(s) => s.clone(),
                None => {
                    let g = w.parties[r].g();
                    let s = (g.current_epoch(), g.epoch_authenticator().map(|s| s.as_bytes().to_vec()).unwrap_or_default());
                    self.stuck.insert(r, s.clone());
                    s
                }
            };
            for (kind, bytes) in &new {
                if !matches!(*kind, "proposal" | "application" | "commit" | "external_commit") {
                    continue;
                }
                // only traffic of epochs after the removal is "later traffic"
                let msg_epoch = mls_rs::MlsMessage::from_bytes(bytes).ok().and_then(|m| m.epoch());
                if msg_epoch.map(|e| e <= stuck_epoch).unwrap_or(true) {
                    continue;
                }
                self.fed += 1;
                match w.process(r, bytes) {
                    Err(e) if e.is_panic() => return Err(panic_failure(P, "process_incoming_message(removed member)", &e)),
                    Err(_) => {}
                    Ok(res) => {
                        return Err(fail(
                            &format!("removed_member_processed_{kind}"),
                            format!("party {r}, removed and stuck in epoch {stuck_epoch}, processed a {kind} message of epoch {msg_epoch:?}: {}", &format!("{res:?}").chars().take(160).collect::<String>()),
                        ))
                    }
                }
            }
            let g = w.parties[r].g();
            let auth = g.epoch_authenticator().map(|s| s.as_bytes().to_vec()).unwrap_or_default();
            if g.current_epoch() != stuck_epoch || auth != stuck_auth {
                return Err(fail("removed_member_state_moved", format!("party {r}: epoch {} -> {}", stuck_epoch, g.current_epoch())));
            }
            if member_auth.as_ref() == Some(&auth) {
                return Err(fail("removed_member_has_current_authenticator", format!("party {r}")));
            }
        }
        self.ev.class_n("messages_fed_to_removed_parties", new.len() as u64);
        Ok(())
    }
}

impl Observer for Obs {
    fn on_start(&mut self, w: &mut World) {
        w.record_crypto = true;
        w.keep_wire_log = true;
    }

    fn before_commit(&mut self, w: &mut World, _committer: usize) -> CaseResult {
        self.pre_tree = w.members().first().map(|m| w.parties[*m].g().export_tree().to_bytes().unwrap_or_default());
        self.pre_init_secret = w.members().first().map(|m| w.parties[*m].g().verif_epoch_keys().key_schedule.init_secret);
        Ok(())
    }

    fn after_commit(&mut self, w: &mut World, info: &CommitInfo, _st: &HistoryStats) -> CaseResult {
        self.check_recipients(w, info)?;
        // What a removed member still knows is the old epoch's init secret and everything public. With no fresh commit secret
        // (and no PSK) that is all the new epoch is made of: the reference key schedule with commit_secret = 0 must NOT
        // arrive at the members' new epoch authenticator when somebody was removed.
        if let Some((leaf, with_path)) = info.kick {
            self.ev.class(if info.had_path { "kick_commits_with_path" } else { "kick_commits_without_path" });
            if with_path && !info.had_path {
                return Err(fail("custom_proposal_declared_to_need_a_path_committed_without", format!("epoch {}: kick of leaf {leaf}", w.epoch)));
            }
            if info.removed.is_empty() {
                return Err(fail("kick_removed_nobody", format!("epoch {}: kick of leaf {leaf}", w.epoch)));
            }
        }
        // (a removal that the application's rules declare path-free is the application's choice: no fresh secret is demanded there)
        if !info.removed.is_empty() && !(matches!(info.kick, Some((_, false))) && !info.had_path) {
            if let (Some(init), Some(m)) = (self.pre_init_secret.clone(), w.members().first().copied()) {
                use mls_rs::mls_rs_codec::MlsEncode;
                let s = crate::refmodel::keysched::Suite::new(w.cfg.suite);
                let ctx = w.parties[m].g().context().mls_encode_to_vec().expect("ctx");
                let zero = vec![0u8; s.nh()];
                let guess = crate::refmodel::keysched::key_schedule(&s, &init, &zero, &ctx, &zero);
                let auth = w.parties[m].g().epoch_authenticator().map(|a| a.as_bytes().to_vec()).unwrap_or_default();
                self.ev.class("removal_commits_checked_for_fresh_commit_secret");
                if guess.epoch_authenticator == auth {
                    return Err(fail(
                        "removed_member_can_derive_the_new_epoch",
                        format!("epoch {}: the commit removed {:?} but the new epoch follows from the old init secret and public data alone (all-zero commit secret, path sent: {})", w.epoch, info.removed, info.had_path),
                    ));
                }
            }
        }
        // a rejoining party is a member again
        for j in &info.joined {
            self.stuck.remove(j);
        }
        // some application traffic of the new epoch for the removed parties to choke on
        let members = w.members();
        if let Some(m) = members.first() {
            let _ = w.send_app(*m, b"after removal".to_vec(), vec![]);
            w.flush(3)?;
        }
        self.feed_removed(w)
    }

    fn end(&mut self, w: &mut World, _st: &HistoryStats) -> CaseResult {
        self.feed_removed(w)
    }
}

pub fn run(ctx: &Ctx) -> ! {
    let mut hp = HistoryParams::standard(ctx.tier);
    hp.kicks = true;
    hp.weights = [8, 8, 18, 2, 1, 1, 1, 30, 7, 4, 1, 0];
    hp.cross_decrypt_every = 0;
    let spec = RunSpec {
        shards: 16,
        cases_per_shard: ctx.tier.pick(70, 350),
        cfg_len: CFG_LEN,
        min_ops: 4,
        max_ops: ctx.tier.pick(30, 80),
        max_shrink_iters: 300,
    };
    run_property(
        ctx,
        P,
        "exploration",
        "histories biased to membership loss (by-value and by-reference removes, external commits with removal, rejoin). (a) Every HPKE seal the committer's provider performs while \
         building a commit is recorded: seals labelled UpdatePathNode, grouped by plaintext (= path secret), must equal, as a set of recipient-key sets, the resolutions of the copath \
         nodes of the committer's filtered direct path in the NEW exported tree (independent tree model) minus leaves added by this commit; none may be a key of a removed member's \
         leaf/merged path or of a new leaf; seals labelled Welcome must go to exactly the init keys of the key packages of the parties that joined; no other seals. \
         (b) Every removed party keeps its last Group and is fed every later proposal, application message, commit and external commit: each must fail without panic, its epoch and \
         authenticator stay put and differ from the members'. All clients run application rules that expand a 'kick' custom proposal into a local Remove (one kind declared path-free, one declared to need a path): a member whose leaf a commit removes, by value or through a kick, must be told so; removed parties are also fed current-epoch new-member Add proposals (no membership tag; accepted by a member as control). Non-trivial = a removing commit while the tree has a blank or unmerged leaf, or removed leaf sibling of the committer.",
        &hp,
        spec,
        &|_, ev| Obs { ev, pre_tree: None, wire_seen: 0, stuck: BTreeMap::new(), fed: 0, removal_commits_nontrivial: 0, pre_init_secret: None },
        &|_, o| {
            o.ev.class_n("later_messages_rejected_by_removed_parties", o.fed);
            false
        },
    )
}
