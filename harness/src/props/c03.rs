//! C03 — any modification or forgery of protocol traffic is rejected.
use crate::engine::*;
use crate::history::*;
use crate::mutate::{leaf_spans, mutate_message, strip_indices, Mutation};
use crate::providers::{VCrypto, VIdentity};
use crate::refmodel::keysched as rk;
use crate::refmodel::tls::put_opaque;
use crate::refmodel::wire;
use crate::world::*;
use crate::Ctx;
use mls_rs::external_client::ExternalClient;
use mls_rs::group::proposal::{CustomProposal, ProposalType};
use mls_rs::group::ExportedTree;
use mls_rs::mls_rs_codec::MlsEncode;
use mls_rs::{Extension, ExtensionList, MlsMessage};

const P: &str = "C03";

fn fail(what: &str, detail: String) -> Failure {
    Failure::new(format!("{P}|{what}"), detail)
}

pub struct Obs {
    ev: &'static Evidence,
    rng: SplitMix,
    per_message: u64,
    pub attempts: u64,
    pre_tree: Option<Vec<u8>>,
    lite_receiver_removed: bool,
    /// (epoch, encryption secret = root of the secret tree, leaf count), recorded while the new epoch's tree is untouched
    enc_secret: Option<(u64, Vec<u8>, u32)>,
    /// last genuine public message of each kind, for field splicing: (kind, bytes)
    last_public: Vec<(&'static str, Vec<u8>)>,
    /// genuine handshake messages of earlier epochs that were never delivered to anyone (made by a discarded clone of a
    /// member): (epoch, sender, kind, bytes). Replayed into later epochs they must be rejected by everyone.
    withheld: Vec<(u64, usize, &'static str, Vec<u8>)>,
}

/// Mutations without the "append a trailing byte" kind (not a modification of what the sender produced).
fn outsider_mutation(rng: &mut SplitMix, orig: &[u8]) -> Option<Mutation> {
    for _ in 0..4 {
        let a = (rng.next() % 58_000) as u16; // kinds 0..8 of mutate_message
        if let Some(m) = mutate_message(orig, a, rng.next() as u16, rng.next() as u16) {
            return Some(m);
        }
    }
    None
}

/// Replace the bytes of one leaf field of `a` by the same field of `b` (two valid messages of one kind).
/// A modified exported ratchet tree (`optional<Node> ratchet_tree<V>`): a flipped bit, a cut, blank nodes appended
/// (with the vector length corrected), or the last node dropped.
fn tree_mutation(rng: &mut SplitMix, tree: &[u8]) -> (Vec<u8>, &'static str) {
    use crate::refmodel::tls::Reader;
    let mut mt = tree.to_vec();
    let content = Reader::new(tree).opaque().map(|c| c.to_vec());
    match (rng.below(6), content) {
        (0, Some(c)) => {
            let k = [1usize, 2, 3, c.len().min(64)][rng.below(4) as usize];
            let mut c = c;
            c.extend(std::iter::repeat(0u8).take(k));
            let mut out = vec![];
            put_opaque(&mut out, &c);
            (out, "blank_nodes_appended")
        }
        (1, _) if mt.len() > 2 => {
            let cut = 1 + rng.below(mt.len() as u64 - 1) as usize;
            mt.truncate(cut);
            (mt, "truncated")
        }
        _ => {
            let pos = rng.below(mt.len() as u64) as usize;
            mt[pos] ^= 1 << rng.below(8);
            (mt, "bit_flipped")
        }
    }
}

fn splice(rng: &mut SplitMix, a: &[u8], b: &[u8]) -> Option<Mutation> {
    let sa = wire::message_spans(a)?.1;
    let sb = wire::message_spans(b)?.1;
    let la = leaf_spans(&sa);
    let cand: Vec<_> = la.iter().filter(|s| sb.iter().any(|t| t.name == s.name)).collect();
    if cand.is_empty() {
        return None;
    }
    let s = cand[rng.below(cand.len() as u64) as usize];
    let t = sb.iter().find(|t| t.name == s.name)?;
    if a[s.start..s.end] == b[t.start..t.end] {
        return None;
    }
    let mut out = a[..s.start].to_vec();
    out.extend_from_slice(&b[t.start..t.end]);
    out.extend_from_slice(&a[s.end..]);
    let field = strip_indices(&s.name);
    Some(Mutation { bytes: out, label: format!("splice:{field}"), field })
}

impl Obs {
    /// `bytes` must be rejected by a clone of member `m`.
    fn must_reject(&mut self, w: &World, m: usize, bytes: &[u8], kind: &str, mu: &Mutation) -> CaseResult {
        let t = w.now();
        let mut clone = w.parties[m].g().clone();
        self.attempts += 1;
        self.ev.eval(1);
        let r = guard(|| clone.process_incoming_message_with_time(MlsMessage::from_bytes(bytes)?, t));
        // a member that the commit removes cannot compute the new epoch's confirmation key: it has no way
        // to notice a wrong confirmation tag (inherent to the protocol), so that forgery is exempt for it
        if mu.field.ends_with("confirmation_tag") {
            if let Ok(mls_rs::group::ReceivedMessage::Commit(d)) = &r {
                if matches!(d.effect, mls_rs::group::CommitEffect::Removed { .. }) {
                    self.ev.class("removed_member_cannot_check_confirmation_tag");
                    return Ok(());
                }
            }
        }
        match r.map(|_| ()) {
            Err(e) if e.is_panic() => {
                let sig = format!("{P}|panic|process_incoming_message({kind})|{}", panic_signature(e.text()));
                self.ev.known_or_fail(&sig, || format!("member {m} panicked on a {} of a {kind} message: {}; message {}", mu.label, e.text(), hex::encode(&bytes[..bytes.len().min(120)])))
            }
            Err(e) => {
                let class = e.class();
                self.ev.class(&format!("rejected:{kind}:{}:{class}", mu.field));
                if !matches!(class.as_str(), "SerializationError" | "GroupIdMismatch" | "ProtocolVersionMismatch" | "InvalidEpoch" | "UnexpectedMessageType") {
                    self.ev.nontrivial(&(kind, &mu.label, bytes.len(), m, w.epoch));
                }
                Ok(())
            }
            Ok(()) => Err(fail(
                &format!("modified_{kind}_accepted|{}", mu.field),
                format!("member {m} (epoch {}) accepted a {kind} message after {}: {}", w.epoch, mu.label, hex::encode(&bytes[..bytes.len().min(160)])),
            )),
        }
    }

    /// Insider, private messages: the padding of a PrivateMessage is neither signed nor structured, so a member can put
    /// anything there; the receiver must insist on zeros. Control: the same message with more zero padding is accepted.
    fn repadded(&mut self, w: &World, receivers: &[usize], genuine: &[u8], kind: &'static str) -> CaseResult {
        let Some((epoch, enc, n_leaves)) = self.enc_secret.clone() else { return Ok(()) };
        let Some(r0) = receivers.first().copied() else { return Ok(()) };
        if MlsMessage::from_bytes(genuine).ok().and_then(|m| m.epoch()) != Some(epoch) || w.parties[r0].g().current_epoch() != epoch {
            return Ok(());
        }
        let keys = w.parties[r0].g().verif_epoch_keys();
        let csp = w.parties[r0].suite_provider(w.cfg.suite);
        let t = w.now();
        let k = 1 + self.rng.below(40) as usize;
        let Some(control) = crate::forge::repad_private_message(w.cfg.suite, &csp, genuine, &keys.sender_data_secret, &enc, n_leaves, &vec![0u8; k]) else {
            self.ev.class("repadding_not_possible");
            return Ok(());
        };
        let mut clone = w.parties[r0].g().clone();
        match guard(|| clone.process_incoming_message_with_time(MlsMessage::from_bytes(&control)?, t).map(|_| ())) {
            Ok(()) => self.ev.class("repadded_control_accepted"),
            Err(e) if e.is_panic() => return Err(panic_failure(P, "process_incoming_message(re-padded message)", &e)),
            Err(e) => {
                // the forger does not reproduce this message (e.g. the receiver has consumed the key already)
                self.ev.class(&format!("repadded_control_failed:{}", e.class()));
                return Ok(());
            }
        }
        for variant in 0..3 {
            let mut pad = vec![0u8; k];
            let (name, pos) = match variant {
                0 => ("last_byte", k - 1),
                1 => ("first_byte", 0),
                _ => ("random_byte", self.rng.below(k as u64) as usize),
            };
            pad[pos] = 1 + self.rng.below(255) as u8;
            let Some(bytes) = crate::forge::repad_private_message(w.cfg.suite, &csp, genuine, &keys.sender_data_secret, &enc, n_leaves, &pad) else { continue };
            let mu = Mutation { bytes: bytes.clone(), label: format!("insider: {k} bytes of padding appended, byte {pos} of them non-zero ({name}), sealed again under the message key"), field: format!("insider_nonzero_padding_{name}") };
            self.must_reject(w, r0, &bytes, kind, &mu)?;
            self.ev.class(&format!("insider_forgeries:nonzero_padding:{name}"));
        }
        Ok(())
    }

    fn battery(&mut self, w: &World, receivers: &[usize], genuine: &[u8], kind: &'static str) -> CaseResult {
        if receivers.is_empty() {
            return Ok(());
        }
        if MlsMessage::from_bytes(genuine).map(|x| x.wire_format() == mls_rs::WireFormat::PrivateMessage).unwrap_or(false) {
            self.repadded(w, receivers, genuine, kind)?;
        }
        for i in 0..self.per_message {
            let mu = if i % 5 == 4 {
                // splice with an earlier valid message of the same kind
                let other = self.last_public.iter().rev().find(|(k, b)| *k == kind && b != genuine).map(|(_, b)| b.clone());
                match other.and_then(|o| splice(&mut self.rng, genuine, &o)) {
                    Some(m) => m,
                    None => continue,
                }
            } else {
                match outsider_mutation(&mut self.rng, genuine) {
                    Some(m) => m,
                    None => continue,
                }
            };
            let r = receivers[self.rng.below(receivers.len() as u64) as usize];
            self.must_reject(w, r, &mu.bytes, kind, &mu)?;
        }
        self.last_public.push((kind, genuine.to_vec()));
        if self.last_public.len() > 12 {
            self.last_public.remove(0);
        }
        Ok(())
    }

    /// Insider: a member who knows the membership key re-MACs a public message after changing what the
    /// signature or the confirmation tag protect.
    fn insider(&mut self, w: &World, sender: usize, receivers: &[usize], genuine: &[u8], kind: &'static str) -> CaseResult {
        let Some(pm) = wire::parse_public_message(genuine) else { return Ok(()) };
        if pm.membership_tag.is_none() || receivers.is_empty() {
            return Ok(());
        }
        let s = rk::Suite::new(w.cfg.suite);
        let keys = w.parties[sender].g().verif_epoch_keys();
        let ctx = w.parties[sender].g().context().mls_encode_to_vec().expect("ctx");
        let sender_leaf = w.parties[sender].leaf();
        let rebuild = |framed: &[u8], auth: &[u8]| -> Vec<u8> {
            let mut out = vec![];
            out.extend_from_slice(&pm.version.to_be_bytes());
            out.extend_from_slice(&1u16.to_be_bytes());
            out.extend_from_slice(framed);
            out.extend_from_slice(auth);
            let tag = rk::membership_tag(&s, &keys.key_schedule.membership_key, pm.version, 1, framed, &ctx, auth);
            put_opaque(&mut out, &tag);
            out
        };
        // sanity: rebuilding the unmodified message reproduces it (the reference MAC is right)
        let same = rebuild(pm.framed_content, pm.auth_data);
        if same != genuine {
            // the sender may already be in the next epoch (keys of the wrong epoch): nothing to forge with
            return Ok(());
        }
        let mut forged: Vec<(String, Vec<u8>)> = vec![];
        // (1) re-attribution to another member's leaf
        if let Some(sp) = pm.spans.iter().find(|x| x.name == "sender_index") {
            let other: Vec<u32> = w.members().iter().map(|m| w.parties[*m].leaf()).filter(|l| *l != sender_leaf).collect();
            if !other.is_empty() {
                let l = other[self.rng.below(other.len() as u64) as usize];
                let mut f = genuine[pm.framed.start..pm.framed.end].to_vec();
                let off = sp.start - pm.framed.start;
                f[off..off + 4].copy_from_slice(&l.to_be_bytes());
                forged.push(("reattributed_sender".into(), rebuild(&f, pm.auth_data)));
            }
        }
        // (2) wrong / stale confirmation tag
        if let Some(tag) = pm.confirmation_tag {
            let mut auth = vec![];
            put_opaque(&mut auth, pm.signature);
            let mut t2 = tag.to_vec();
            let i = self.rng.below(t2.len().max(1) as u64) as usize;
            if !t2.is_empty() {
                t2[i] ^= 0x01;
            }
            put_opaque(&mut auth, &t2);
            forged.push(("wrong_confirmation_tag".into(), rebuild(pm.framed_content, &auth)));
            // the previous epoch's confirmation tag
            let mut auth = vec![];
            put_opaque(&mut auth, pm.signature);
            put_opaque(&mut auth, &keys.confirmation_tag);
            if keys.confirmation_tag != tag {
                forged.push(("stale_confirmation_tag".into(), rebuild(pm.framed_content, &auth)));
            }
        }
        // (3) content changed, MAC recomputed, signature left alone
        {
            let mut f = pm.framed_content.to_vec();
            let i = f.len() - 1 - self.rng.below(f.len().min(40) as u64) as usize;
            f[i] ^= 0x04;
            forged.push(("content_changed_and_remaced".into(), rebuild(&f, pm.auth_data)));
        }
        // (4) authenticated_data changed, MAC recomputed
        if let Some(sp) = pm.spans.iter().find(|x| x.name == "authenticated_data") {
            if sp.end - sp.start > 1 {
                let mut f = genuine[pm.framed.start..pm.framed.end].to_vec();
                f[sp.end - 1 - pm.framed.start] ^= 0x10;
                forged.push(("authenticated_data_changed_and_remaced".into(), rebuild(&f, pm.auth_data)));
            }
        }
        for (name, bytes) in forged {
            let r = receivers[self.rng.below(receivers.len() as u64) as usize];
            let mu = Mutation { bytes: bytes.clone(), label: format!("insider:{name}"), field: format!("insider_{name}") };
            self.must_reject(w, r, &bytes, kind, &mu)?;
            self.ev.class(&format!("insider_forgeries:{name}"));
        }
        Ok(())
    }

    /// Insider, structural: the committer itself (it owns the signing key, the membership key and the tree) signs a commit
    /// whose update path is structurally wrong, with everything that can be made consistent made consistent: the leaf's
    /// parent hash is recomputed over the modified path by the independent tree model, the leaf and the content are
    /// re-signed, the membership tag is recomputed. The re-signed but otherwise unmodified commit is the positive control:
    /// it must be ACCEPTED, which proves that rejections below are due to the structure and not to a bad signature.
    fn structural(&mut self, w: &World, sender: usize, receiver: usize, genuine: &[u8]) -> CaseResult {
        use crate::refmodel::tree::{HashAlg, RefNode, RefParent, RefTreeNodes};
        let Some(pm) = wire::parse_public_message(genuine) else { return Ok(()) };
        let (Some(_), Some(pre_tree)) = (pm.membership_tag, self.pre_tree.clone()) else { return Ok(()) };
        let span = |n: &str| pm.spans.iter().find(|x| x.name == n).cloned();
        // only commits whose proposals cannot touch the tree: the provisional tree is then the old tree
        let Some(props) = span("commit.proposals") else { return Ok(()) };
        let n_props = pm.spans.iter().filter(|x| x.name.starts_with("commit.proposals[") && x.name.ends_with("].kind")).count();
        let tree_neutral = pm.spans.iter().filter(|x| x.name.starts_with("commit.proposals[")).all(|x| {
            // by-value PSK (4), GroupContextExtensions (7) and custom proposals leave the tree alone; references are opaque
            !x.name.ends_with("].reference") && (!x.name.ends_with("].proposal_type") || matches!(u16::from_be_bytes([genuine[x.start], genuine[x.start + 1]]), 4 | 8..=u16::MAX))
        });
        let _ = props;
        let (Some(leaf_sp), Some(nodes_sp)) = (span("commit.path.leaf_node"), span("commit.path.nodes")) else { return Ok(()) };
        if !tree_neutral {
            self.ev.class("structural_forgery_skipped:commit_changes_tree");
            return Ok(());
        }
        let _ = n_props;
        let alg = HashAlg::for_suite(w.cfg.suite);
        let s = rk::Suite::new(w.cfg.suite);
        let Some(mut tree) = RefTreeNodes::parse(&pre_tree) else { return Ok(()) };
        let keys = w.parties[sender].g().verif_epoch_keys();
        let ctx = w.parties[sender].g().context().mls_encode_to_vec().expect("ctx");
        let leaf = w.parties[sender].leaf();
        let group_id = w.parties[sender].g().group_id().to_vec();
        let csp = w.parties[sender].suite_provider(w.cfg.suite);
        // the new signer when the commit changes the committer's identity
        // the committer's signer, or the new one when this commit carries its identity change: the positive control decides
        let mut signers = vec![w.parties[sender].signer.clone()];
        if let Some(p) = &w.parties[sender].pending_identity {
            signers.insert(0, p.0.clone());
        }
        let signer_ix = std::cell::Cell::new(0usize);
        let sign = |label: &str, content: &[u8]| -> Option<Vec<u8>> {
            // the content is signed with the key of the committer's current leaf, the new leaf with its (possibly new) own key
            let signer = if label == "LeafNodeTBS" { &signers[signer_ix.get()] } else { &w.parties[sender].signer };
            let mut sc = vec![];
            put_opaque(&mut sc, format!("MLS 1.0 {label}").as_bytes());
            put_opaque(&mut sc, content);
            mls_rs::CipherSuiteProvider::sign(&csp, signer, &sc).ok()
        };
        // path nodes as raw byte ranges
        let mut node_raw: Vec<(Vec<u8>, Vec<u8>)> = vec![]; // (encryption key, whole encoded node)
        for i in 0.. {
            let (Some(k), Some(c)) = (span(&format!("commit.path.nodes[{i}].encryption_key")), span(&format!("commit.path.nodes[{i}].ciphertexts"))) else { break };
            let mut r = crate::refmodel::tls::Reader::new(&genuine[k.start..k.end]);
            let key = r.opaque().unwrap_or_default().to_vec();
            node_raw.push((key, genuine[k.start..c.end].to_vec()));
        }
        let fdp = tree.filtered_direct_path(leaf);
        if fdp.len() != node_raw.len() || node_raw.is_empty() {
            self.ev.class("structural_forgery_skipped:path_shape");
            return Ok(());
        }
        let lf = |n: &str| span(&format!("commit.path.leaf_node.{n}"));
        let (Some(l_ph), Some(l_ext), Some(l_sig), Some(l_enc), Some(l_sigkey)) = (lf("parent_hash"), lf("extensions"), lf("signature"), lf("encryption_key"), lf("signature_key")) else { return Ok(()) };
        let _ = &l_sig;

        #[derive(Clone)]
        struct Plan {
            name: &'static str,
            /// encoded path nodes to send
            nodes: Vec<(Vec<u8>, Vec<u8>)>,
            /// corrupt the (consistent) parent hash afterwards
            break_parent_hash: bool,
            /// keep only this many bytes of the (consistent) parent hash: 0 = the empty hash, which only a leaf without a
            /// path above it may carry
            truncate_parent_hash: Option<usize>,
            /// replace the leaf's HPKE key / signature key
            leaf_enc: Option<Vec<u8>>,
            leaf_sigkey: Option<Vec<u8>>,
            /// leaf index put into the LeafNodeTBS
            tbs_leaf: u32,
            expect_accept: bool,
        }
        let base = Plan { name: "resigned_unmodified", nodes: node_raw.clone(), break_parent_hash: false, truncate_parent_hash: None, leaf_enc: None, leaf_sigkey: None, tbs_leaf: leaf, expect_accept: true };
        // two positive controls: content re-signed around the genuine leaf (must get to the confirmation tag, which covers the
        // new signature), then leaf and content re-signed (accepted outright with deterministic signatures; with randomised
        // ones the HPKE context of the genuine path secrets no longer matches the new leaf bytes, so decapsulation fails)
        let mut plans = vec![Plan { name: "resigned_content_only", ..base.clone() }, base.clone()];
        // (1) every shorter path
        for k in 0..node_raw.len() {
            plans.push(Plan { name: "short_update_path", nodes: node_raw[..k].to_vec(), expect_accept: false, ..base.clone() });
        }
        // (2) a longer path
        {
            let mut n = node_raw.clone();
            n.push(node_raw[node_raw.len() - 1].clone());
            plans.push(Plan { name: "long_update_path", nodes: n, expect_accept: false, ..base.clone() });
        }
        // (3) wrong parent hash, properly signed
        plans.push(Plan { name: "wrong_parent_hash", break_parent_hash: true, expect_accept: false, ..base.clone() });
        plans.push(Plan { name: "empty_parent_hash", truncate_parent_hash: Some(0), expect_accept: false, ..base.clone() });
        plans.push(Plan { name: "truncated_parent_hash", truncate_parent_hash: Some(1 + self.rng.below(31) as usize), expect_accept: false, ..base.clone() });
        // (4) foreign keys: another member's HPKE key / signature key in the committer's new leaf; the committer's old HPKE key
        let others: Vec<u32> = tree.occupied_leaves().into_iter().filter(|l| *l != leaf).collect();
        if let Some(o) = others.get(self.rng.below(others.len().max(1) as u64) as usize).and_then(|o| tree.leaf(*o)).cloned() {
            plans.push(Plan { name: "foreign_hpke_key_in_leaf", leaf_enc: Some(o.encryption_key.clone()), expect_accept: false, ..base.clone() });
            plans.push(Plan { name: "foreign_signature_key_in_leaf", leaf_sigkey: Some(o.signature_key.clone()), expect_accept: false, ..base.clone() });
        }
        if let Some(me) = tree.leaf(leaf).cloned() {
            plans.push(Plan { name: "unchanged_hpke_key_in_leaf", leaf_enc: Some(me.encryption_key.clone()), expect_accept: false, ..base.clone() });
        }
        // (5) leaf signed for another position
        if let Some(o) = others.first() {
            plans.push(Plan { name: "leaf_signed_for_other_index", tbs_leaf: *o, expect_accept: false, ..base.clone() });
        }

        let orig_nodes = tree.nodes.clone();
        let mut queue: std::collections::VecDeque<Plan> = plans.into();
        while let Some(plan) = queue.pop_front() {
            tree.nodes = orig_nodes.clone();
            // install the sent keys on the filtered direct path, bottom-up; the rest keeps its old nodes
            for (i, (p, _)) in fdp.iter().enumerate() {
                if let Some((key, _)) = plan.nodes.get(i) {
                    tree.nodes[*p as usize] = RefNode::Parent(RefParent { encryption_key: key.clone(), parent_hash: vec![], unmerged: vec![], raw: vec![] });
                }
            }
            // the library derives the chain top-down over the filtered direct path and overwrites every stored parent hash on it
            let mut hash: Vec<u8> = vec![];
            let mut consistent = true;
            for (p, c) in fdp.iter().rev() {
                let sib = tree.tree_hash_of(alg, *c);
                let RefNode::Parent(pn) = &mut tree.nodes[*p as usize] else {
                    consistent = false;
                    break;
                };
                pn.parent_hash = hash.clone();
                let mut input = vec![];
                put_opaque(&mut input, &pn.encryption_key);
                put_opaque(&mut input, &pn.parent_hash);
                put_opaque(&mut input, &sib);
                hash = alg.hash(&input);
            }
            if !consistent {
                self.ev.class("structural_forgery_skipped:blank_above_short_path");
                continue;
            }
            if plan.name == "resigned_unmodified" {
                // calibration of the forger: the recomputed parent hash is the one the library put into the genuine leaf
                let mut r = crate::refmodel::tls::Reader::new(&genuine[l_ph.start..l_ph.end]);
                if r.opaque().map(|x| x.to_vec()) != Some(hash.clone()) {
                    self.ev.class("structural_forgery_skipped:parent_hash_model_differs");
                    return Ok(());
                }
            }
            if plan.break_parent_hash {
                let i = self.rng.below(hash.len() as u64) as usize;
                hash[i] ^= 0x20;
            }
            if let Some(k) = plan.truncate_parent_hash {
                hash.truncate(k.min(hash.len().saturating_sub(1)));
            }
            // leaf: [encryption_key][signature_key][credential .. source][parent_hash][extensions] + signature
            let mut lbody = vec![];
            match &plan.leaf_enc {
                Some(k) => put_opaque(&mut lbody, k),
                None => lbody.extend_from_slice(&genuine[l_enc.start..l_enc.end]),
            }
            match &plan.leaf_sigkey {
                Some(k) => put_opaque(&mut lbody, k),
                None => lbody.extend_from_slice(&genuine[l_sigkey.start..l_sigkey.end]),
            }
            lbody.extend_from_slice(&genuine[l_sigkey.end..l_ph.start]);
            put_opaque(&mut lbody, &hash);
            lbody.extend_from_slice(&genuine[l_ext.start..l_ext.end]);
            let mut tbs = lbody.clone();
            put_opaque(&mut tbs, &group_id);
            tbs.extend_from_slice(&plan.tbs_leaf.to_be_bytes());
            let Some(lsig) = sign("LeafNodeTBS", &tbs) else { return Ok(()) };
            // pick the leaf signer whose signature verifies under the signature key the leaf declares (identity changes)
            let lsig = {
                let mut sc = vec![];
                put_opaque(&mut sc, b"MLS 1.0 LeafNodeTBS");
                put_opaque(&mut sc, &tbs);
                let declared = {
                    let mut r = crate::refmodel::tls::Reader::new(&genuine[l_sigkey.start..l_sigkey.end]);
                    mls_rs::crypto::SignaturePublicKey::from(r.opaque().unwrap_or_default().to_vec())
                };
                if plan.name == "resigned_unmodified" && mls_rs::CipherSuiteProvider::verify(&csp, &declared, &lsig, &sc).is_err() && signer_ix.get() + 1 < signers.len() {
                    signer_ix.set(signer_ix.get() + 1);
                    match sign("LeafNodeTBS", &tbs) {
                        Some(x) => x,
                        None => return Ok(()),
                    }
                } else {
                    lsig
                }
            };
            let mut new_leaf = lbody;
            put_opaque(&mut new_leaf, &lsig);
            if plan.name == "resigned_content_only" {
                new_leaf = genuine[leaf_sp.start..leaf_sp.end].to_vec();
            }
            // framed content with the new path
            let mut framed = genuine[pm.framed.start..leaf_sp.start].to_vec();
            framed.extend_from_slice(&new_leaf);
            let mut nodes = vec![];
            for (_, raw) in &plan.nodes {
                nodes.extend_from_slice(raw);
            }
            put_opaque(&mut framed, &nodes);
            debug_assert!(nodes_sp.end == pm.framed.end);
            // FramedContentTBS = version, wire_format, FramedContent, GroupContext
            let mut ftbs = vec![];
            ftbs.extend_from_slice(&pm.version.to_be_bytes());
            ftbs.extend_from_slice(&1u16.to_be_bytes());
            ftbs.extend_from_slice(&framed);
            ftbs.extend_from_slice(&ctx);
            let Some(fsig) = sign("FramedContentTBS", &ftbs) else { return Ok(()) };
            let mut auth = vec![];
            put_opaque(&mut auth, &fsig);
            put_opaque(&mut auth, pm.confirmation_tag.unwrap_or_default());
            let mut out = vec![];
            out.extend_from_slice(&pm.version.to_be_bytes());
            out.extend_from_slice(&1u16.to_be_bytes());
            out.extend_from_slice(&framed);
            out.extend_from_slice(&auth);
            let tag = rk::membership_tag(&s, &keys.key_schedule.membership_key, pm.version, 1, &framed, &ctx, &auth);
            put_opaque(&mut out, &tag);

            if plan.expect_accept {
                // positive control. The confirmation tag covers the signature, which changed: the control is good when the
                // message gets as far as the confirmation tag (or is accepted, with deterministic signatures).
                let t = w.now();
                let mut clone = w.parties[receiver].g().clone();
                let r = guard(|| clone.process_incoming_message_with_time(MlsMessage::from_bytes(&out)?, t)).map(|_| ());
                let deterministic = matches!(w.cfg.suite, 1 | 3) || w.parties[sender].provider == crate::providers::ProviderKind::RustCrypto;
                match r {
                    Ok(()) => self.ev.class(&format!("structural_forger_control:{}:accepted", plan.name)),
                    Err(e) if e.is_panic() => return Err(panic_failure(P, "process_incoming_message(re-signed commit)", &e)),
                    Err(e) if e.class() == "InvalidConfirmationTag" => self.ev.class(&format!("structural_forger_control:{}:reached_confirmation_tag", plan.name)),
                    Err(e) if plan.name == "resigned_unmodified" && !deterministic && e.class() == "CryptoProviderError" => {
                        self.ev.class("structural_forger_control:resigned_unmodified:reached_decapsulation(randomised signature)")
                    }
                    Err(e) => {
                        // the forger does not reproduce this commit: no structural forgeries from it
                        self.ev.class(&format!("structural_forger_control_failed:{}:{}", plan.name, e.class()));
                        self.ev.sample("structural_forger_control_failed", || serde_json::json!({"kind": "control failed", "control": plan.name, "error": e.text(), "provider": w.parties[sender].provider.name(), "suite": w.cfg.suite}));
                        return Ok(());
                    }
                }
                continue;
            }
            let mu = Mutation { bytes: out.clone(), label: format!("insider:{} ({} of {} path nodes)", plan.name, plan.nodes.len(), node_raw.len()), field: format!("insider_{}", plan.name) };
            self.must_reject(w, receiver, &out, "public_commit", &mu)?;
            self.ev.class(&format!("insider_forgeries:{}", plan.name));
        }
        Ok(())
    }

    /// Insider, structural, for ANY commit (also one that changes the tree, and for a receiver the commit removes): the
    /// committer re-signs the content around an update path that is wrong in a way no tree model is needed for: one node too
    /// many, one too few, a leaf with a broken signature, or its own current leaf from the tree (validly signed, but not a
    /// commit leaf / not a fresh HPKE key). Control: the re-signed, otherwise unmodified commit gets to the confirmation tag
    /// (or is accepted by a receiver that the commit removes, which cannot check the tag).
    fn structural_lite(&mut self, w: &World, sender: usize, receiver: usize, genuine: &[u8]) -> CaseResult {
        use crate::refmodel::tree::RefTreeNodes;
        let Some(pm) = wire::parse_public_message(genuine) else { return Ok(()) };
        let (Some(_), Some(pre_tree)) = (pm.membership_tag, self.pre_tree.clone()) else { return Ok(()) };
        let span = |n: &str| pm.spans.iter().find(|x| x.name == n).cloned();
        let (Some(leaf_sp), Some(nodes_sp), Some(l_sig)) = (span("commit.path.leaf_node"), span("commit.path.nodes"), span("commit.path.leaf_node.signature")) else { return Ok(()) };
        if nodes_sp.end != pm.framed.end {
            return Ok(());
        }
        let s = rk::Suite::new(w.cfg.suite);
        let keys = w.parties[sender].g().verif_epoch_keys();
        let ctx = w.parties[sender].g().context().mls_encode_to_vec().expect("ctx");
        let leaf = w.parties[sender].leaf();
        let csp = w.parties[sender].suite_provider(w.cfg.suite);
        let mut node_raw: Vec<Vec<u8>> = vec![];
        for i in 0.. {
            let (Some(k), Some(c)) = (span(&format!("commit.path.nodes[{i}].encryption_key")), span(&format!("commit.path.nodes[{i}].ciphertexts"))) else { break };
            node_raw.push(genuine[k.start..c.end].to_vec());
        }
        let genuine_leaf = genuine[leaf_sp.start..leaf_sp.end].to_vec();
        let mut plans: Vec<(&'static str, Vec<u8>, Vec<Vec<u8>>, bool)> = vec![("resigned_content_only", genuine_leaf.clone(), node_raw.clone(), true)];
        if let Some(last) = node_raw.last() {
            let mut n = node_raw.clone();
            n.push(last.clone());
            plans.push(("long_update_path", genuine_leaf.clone(), n, false));
            plans.push(("short_update_path", genuine_leaf.clone(), node_raw[..node_raw.len() - 1].to_vec(), false));
        }
        {
            let mut l = genuine_leaf.clone();
            let i = l_sig.end - 1 - leaf_sp.start - self.rng.below(8) as usize;
            l[i] ^= 1 << self.rng.below(8);
            plans.push(("leaf_signature_broken", l, node_raw.clone(), false));
        }
        if let Some(old) = RefTreeNodes::parse(&pre_tree).and_then(|t| t.leaf(leaf).cloned()) {
            let name = match old.source {
                1 => "own_key_package_leaf_as_path_leaf",
                2 => "own_update_leaf_as_path_leaf",
                _ => "own_previous_commit_leaf_as_path_leaf",
            };
            plans.push((name, old.raw.clone(), node_raw.clone(), false));
        }
        let removed_here = |r: &Result<mls_rs::group::ReceivedMessage, OpErr>| matches!(r, Ok(mls_rs::group::ReceivedMessage::Commit(d)) if matches!(d.effect, mls_rs::group::CommitEffect::Removed { .. }));
        for (name, new_leaf, nodes_v, control) in plans {
            let mut framed = genuine[pm.framed.start..leaf_sp.start].to_vec();
            framed.extend_from_slice(&new_leaf);
            let mut nodes = vec![];
            for raw in &nodes_v {
                nodes.extend_from_slice(raw);
            }
            put_opaque(&mut framed, &nodes);
            let mut ftbs = vec![];
            ftbs.extend_from_slice(&pm.version.to_be_bytes());
            ftbs.extend_from_slice(&1u16.to_be_bytes());
            ftbs.extend_from_slice(&framed);
            ftbs.extend_from_slice(&ctx);
            let mut sc = vec![];
            put_opaque(&mut sc, b"MLS 1.0 FramedContentTBS");
            put_opaque(&mut sc, &ftbs);
            let Ok(fsig) = mls_rs::CipherSuiteProvider::sign(&csp, &w.parties[sender].signer, &sc) else { return Ok(()) };
            let mut auth = vec![];
            put_opaque(&mut auth, &fsig);
            put_opaque(&mut auth, pm.confirmation_tag.unwrap_or_default());
            let mut out = vec![];
            out.extend_from_slice(&pm.version.to_be_bytes());
            out.extend_from_slice(&1u16.to_be_bytes());
            out.extend_from_slice(&framed);
            out.extend_from_slice(&auth);
            let tag = rk::membership_tag(&s, &keys.key_schedule.membership_key, pm.version, 1, &framed, &ctx, &auth);
            put_opaque(&mut out, &tag);
            if control {
                let t = w.now();
                let mut clone = w.parties[receiver].g().clone();
                let r = guard(|| clone.process_incoming_message_with_time(MlsMessage::from_bytes(&out)?, t));
                if removed_here(&r) {
                    self.lite_receiver_removed = true;
                    self.ev.class("structural_lite_control:accepted_by_removed_receiver");
                    continue;
                }
                self.lite_receiver_removed = false;
                match r.map(|_| ()) {
                    Ok(()) => self.ev.class("structural_lite_control:accepted"),
                    Err(e) if e.is_panic() => return Err(panic_failure(P, "process_incoming_message(re-signed commit)", &e)),
                    Err(e) if e.class() == "InvalidConfirmationTag" => self.ev.class("structural_lite_control:reached_confirmation_tag"),
                    Err(e) => {
                        self.ev.class(&format!("structural_lite_control_failed:{}", e.class()));
                        return Ok(());
                    }
                }
                continue;
            }
            let mu = Mutation { bytes: out.clone(), label: format!("insider:{name} (lite, {} of {} path nodes)", nodes_v.len(), node_raw.len()), field: format!("insider_lite_{name}") };
            self.must_reject(w, receiver, &out, "public_commit", &mu)?;
            self.ev.class(&format!("insider_forgeries_lite:{name}:{}", if self.lite_receiver_removed { "receiver_removed_by_the_commit" } else { "receiver_stays" }));
        }
        Ok(())
    }

    /// Insider, complete: the committer builds whole commits by hand with the reference model (see `forge.rs`). The honest
    /// one must be accepted and lead to the predicted epoch authenticator; each tampered one differs in exactly one respect.
    fn full_forgeries(&mut self, w: &World, sender: usize, receiver: usize, genuine: &[u8]) -> CaseResult {
        use crate::forge::{forge, lca_position, ForgeInput, Tamper};
        use crate::refmodel::tree::RefTreeNodes;
        let Some(pm) = wire::parse_public_message(genuine) else { return Ok(()) };
        let (Some(_), Some(pre_tree)) = (pm.membership_tag, self.pre_tree.clone()) else { return Ok(()) };
        if pm.spans.iter().all(|x| x.name != "commit.path.leaf_node") {
            return Ok(());
        }
        // only commits without proposals that touch the tree, the PSK secret or the context: none, or custom ones by value
        let plain = pm.spans.iter().filter(|x| x.name.starts_with("commit.proposals[")).all(|x| {
            !x.name.ends_with("].reference") && (!x.name.ends_with("].proposal_type") || u16::from_be_bytes([genuine[x.start], genuine[x.start + 1]]) >= 8)
        });
        if !plain || w.parties[sender].pending_identity.is_some() {
            return Ok(());
        }
        let keys = w.parties[sender].g().verif_epoch_keys();
        let ctx = w.parties[sender].g().context().mls_encode_to_vec().expect("ctx");
        let leaf = w.parties[sender].leaf();
        let csp = w.parties[sender].suite_provider(w.cfg.suite);
        let seed = self.rng.bytes(32);
        let input = ForgeInput {
            suite: w.cfg.suite,
            csp: &csp,
            genuine,
            tree: &pre_tree,
            group_context: &ctx,
            init_secret: &keys.key_schedule.init_secret,
            membership_key: &keys.key_schedule.membership_key,
            interim_transcript_hash: &keys.interim_transcript_hash,
            leaf_index: leaf,
            leaf_signer: &w.parties[sender].signer,
            content_signer: &w.parties[sender].signer,
            seed: &seed,
        };
        let Some(honest) = forge(&input, &Tamper::default()) else {
            self.ev.class("full_forger:not_applicable");
            return Ok(());
        };
        let t = w.now();
        // positive control
        {
            let mut clone = w.parties[receiver].g().clone();
            let before = clone.current_epoch();
            let r = guard(|| clone.process_incoming_message_with_time(MlsMessage::from_bytes(&honest.bytes)?, t)).map(|_| ());
            match r {
                Err(e) if e.is_panic() => return Err(panic_failure(P, "process_incoming_message(hand-built commit)", &e)),
                Err(e) => {
                    // the model does not reproduce this commit shape: say so in the evidence, forge nothing from it
                    self.ev.class(&format!("full_forger_control_failed:{}", e.class()));
                    self.ev.sample("full_forger_control_failed", || serde_json::json!({"kind": "hand-built commit rejected", "error": e.text(), "suite": w.cfg.suite, "provider": w.parties[sender].provider.name()}));
                    return Ok(());
                }
                Ok(()) => {
                    let auth = clone.epoch_authenticator().map(|a| a.to_vec()).unwrap_or_default();
                    if clone.current_epoch() != before + 1 || auth != honest.epoch_authenticator {
                        return Err(fail(
                            "hand_built_commit_accepted_with_unexpected_result",
                            format!("receiver {receiver}: epoch {} -> {}, authenticator matches the reference key schedule: {}", before, clone.current_epoch(), auth == honest.epoch_authenticator),
                        ));
                    }
                    self.ev.class("full_forger_control:accepted_and_authenticator_predicted");
                }
            }
        }
        let Some(tree) = RefTreeNodes::parse(&pre_tree) else { return Ok(()) };
        let rleaf = w.parties[receiver].leaf();
        let Some(pos) = lca_position(&tree, &honest.fdp, rleaf) else { return Ok(()) };
        // which resolution entry this receiver decrypts from: itself if listed, otherwise its lowest listed ancestor
        let reso = &honest.resolution[pos];
        let my_k = reso.iter().position(|x| *x == 2 * rleaf).or_else(|| {
            reso.iter().position(|x| {
                let (lo, hi) = tree.math.range[*x as usize];
                rleaf >= lo && rleaf < hi
            })
        });
        let n = honest.fdp.len();
        let mut plans: Vec<(String, Tamper, bool)> = vec![]; // (name, tamper, must be rejected by this receiver)
        for j in 0..n {
            plans.push((format!("foreign_path_key:{}:position {j}", if pos <= j { "at_or_above_own_entry" } else { "below_own_entry" }), Tamper { foreign_key_at: Some(j), ..Default::default() }, pos <= j));
        }
        if let Some(k) = my_k {
            plans.push(("unrelated_path_secret_for_this_receiver".into(), Tamper { wrong_secret_for: Some((pos, k)), ..Default::default() }, true));
            plans.push((
                format!("ciphertext_list_one_short:{}", if k + 1 == reso.len() { "own_missing" } else { "other_missing" }),
                Tamper { drop_ciphertext_at: Some(pos), ..Default::default() },
                k + 1 == reso.len(),
            ));
        }
        plans.push(("ciphertext_list_one_too_long".into(), Tamper { extra_ciphertext_at: Some(pos), ..Default::default() }, false));
        // a consistent commit whose path stops early: nobody may accept it, wherever it sits relative to the cut
        for k in 1..n {
            plans.push((format!("consistent_short_update_path:position {k}"), Tamper { truncate_to: Some(k), ..Default::default() }, true));
        }
        plans.push(("consistent_commit_wrong_confirmation_tag".into(), Tamper { wrong_confirmation_tag: true, ..Default::default() }, true));
        // the committer's leaf without a parent hash / with a prefix of it: the new path nodes hang in the air
        plans.push(("consistent_commit_leaf_without_parent_hash".into(), Tamper { leaf_parent_hash_prefix: Some(0), ..Default::default() }, true));
        plans.push(("consistent_commit_leaf_with_parent_hash_prefix".into(), Tamper { leaf_parent_hash_prefix: Some(1 + self.rng.below(31) as usize), ..Default::default() }, true));
        // Proposal lists that break the set rules of RFC 9420 12.2 while everything else is consistent. Two
        // GroupContextExtensions proposals in one commit: both by value, or one by reference (a proposal of the committer
        // that the receiver has cached) and one by value. Controls: each of the two alone is accepted and leads to the
        // predicted epoch.
        let mut gce_receiver: Option<VGroup> = None;
        {
            use mls_rs::extension::ExtensionType;
            let mk = |d: u8| {
                let mut e = ExtensionList::new();
                e.set(Extension::new(ExtensionType::from(EXT_TYPE), vec![d, 0x5e]));
                e
            };
            let (ext_a, ext_b) = (mk(0xA1), mk(0xB2));
            let enc = |e: &ExtensionList| e.mls_encode_to_vec().expect("ext");
            let by_value = |e: &ExtensionList| {
                let mut v = vec![1u8, 0, 7];
                v.extend_from_slice(&enc(e));
                v
            };
            // the committer's by-reference proposal of B, cached by (a copy of) the receiver
            let mut sender_copy = w.parties[sender].g().clone();
            sender_copy.clear_pending_commit();
            let mut recv = w.parties[receiver].g().clone();
            let by_ref: Option<Vec<u8>> = guard(|| sender_copy.propose_group_context_extensions(ext_b.clone(), vec![])).ok().and_then(|m| {
                match guard(|| recv.process_incoming_message_with_time(m, t)) {
                    Ok(mls_rs::group::ReceivedMessage::Proposal(d)) => {
                        let mut v = vec![2u8];
                        v.extend_from_slice(&d.proposal_ref.mls_encode_to_vec().ok()?);
                        Some(v)
                    }
                    _ => None,
                }
            });
            let mut control_ok = true;
            let mut controls: Vec<(&str, Vec<u8>, &ExtensionList)> = vec![("gce_by_value_alone", by_value(&ext_a), &ext_a)];
            if let Some(r) = &by_ref {
                controls.push(("gce_by_reference_alone", r.clone(), &ext_b));
            }
            for (name, props, ext) in controls {
                let tamper = Tamper { proposals: Some(props), context_extensions: Some(enc(ext)), ..Default::default() };
                let Some(f) = forge(&input, &tamper) else {
                    control_ok = false;
                    break;
                };
                let mut c = recv.clone();
                match guard(|| c.process_incoming_message_with_time(MlsMessage::from_bytes(&f.bytes)?, t)).map(|_| ()) {
                    Ok(()) if c.epoch_authenticator().map(|a| a.to_vec()).unwrap_or_default() == f.epoch_authenticator && c.context().extensions == *ext => {
                        self.ev.class(&format!("full_forger_control:{name}:accepted_and_predicted"))
                    }
                    Ok(()) => return Err(fail("hand_built_commit_accepted_with_unexpected_result", format!("receiver {receiver}: {name}"))),
                    Err(e) if e.is_panic() => return Err(panic_failure(P, "process_incoming_message(hand-built commit with GroupContextExtensions)", &e)),
                    Err(e) => {
                        self.ev.class(&format!("full_forger_control_failed:{name}:{}", e.class()));
                        control_ok = false;
                    }
                }
            }
            if control_ok {
                let mut two = by_value(&ext_a);
                two.extend_from_slice(&by_value(&ext_b));
                plans.push(("two_group_context_extensions_by_value".into(), Tamper { proposals: Some(two), context_extensions: Some(enc(&ext_b)), ..Default::default() }, true));
                if let Some(r) = &by_ref {
                    for (which, ext) in [("value_wins", &ext_a), ("reference_wins", &ext_b)] {
                        let mut l = r.clone();
                        l.extend_from_slice(&by_value(&ext_a));
                        plans.push((format!("group_context_extensions_by_reference_and_by_value:{which}"), Tamper { proposals: Some(l), context_extensions: Some(enc(ext)), ..Default::default() }, true));
                    }
                    gce_receiver = Some(recv);
                }
            }
        }
        for (name, tamper, must) in plans {
            let Some(f) = forge(&input, &tamper) else { continue };
            self.ev.class(&format!("insider_forgeries:full:{}", name.split(":position").next().unwrap_or(&name)));
            if name.starts_with("group_context_extensions_by_reference") {
                // delivered to the copy of the receiver that holds the referenced proposal
                if let Some(recv) = &gce_receiver {
                    let mut c = recv.clone();
                    self.attempts += 1;
                    self.ev.eval(1);
                    match guard(|| c.process_incoming_message_with_time(MlsMessage::from_bytes(&f.bytes)?, t)).map(|_| ()) {
                        Err(e) if e.is_panic() => return Err(panic_failure(P, "process_incoming_message(hand-built commit, two GroupContextExtensions)", &e)),
                        Err(e) => {
                            self.ev.class(&format!("rejected:public_commit:insider_full_{}:{}", name.split(':').next().unwrap_or(&name), e.class()));
                            self.ev.nontrivial(&("gce", &name, receiver, w.epoch));
                        }
                        Ok(()) => {
                            return Err(fail(
                                &format!("modified_public_commit_accepted|insider_full_{}", name.split(':').next().unwrap_or(&name)),
                                format!("member {receiver} accepted a hand-built commit that covers one GroupContextExtensions proposal by reference and carries another by value ({name}); its context now has {:?}", c.context().extensions),
                            ))
                        }
                    }
                }
                continue;
            }
            let mu = Mutation { bytes: f.bytes.clone(), label: format!("insider (hand-built commit): {name}, receiver leaf {rleaf} entry {pos} of {n}, sender leaf {leaf}, filtered direct path {:?}", honest.fdp), field: format!("insider_full_{}", name.split(':').next().unwrap_or(&name)) };
            if must {
                self.must_reject(w, receiver, &f.bytes, "public_commit", &mu)?;
            } else {
                // not detectable by this receiver (or not demanded): no panic, verdict recorded
                let mut clone = w.parties[receiver].g().clone();
                self.attempts += 1;
                self.ev.eval(1);
                match guard(|| clone.process_incoming_message_with_time(MlsMessage::from_bytes(&f.bytes)?, t)).map(|_| ()) {
                    Err(e) if e.is_panic() => return Err(panic_failure(P, &format!("process_incoming_message(hand-built commit, {name})"), &e)),
                    Err(e) => self.ev.class(&format!("not_demanded:{}:rejected:{}", name.split(":position").next().unwrap_or(&name), e.class())),
                    Ok(()) => self.ev.class(&format!("not_demanded:{}:accepted", name.split(":position").next().unwrap_or(&name))),
                }
            }
        }
        Ok(())
    }

    fn welcome_battery(&mut self, w: &World, info: &CommitInfo) -> CaseResult {
        let t = w.now();
        let single_joiner = info.joined.len() == 1;
        for j in &info.joined {
            for wb in &info.welcome_bytes {
                // only the welcome this joiner can use
                let party = &w.parties[*j];
                let tree = info.tree_oob.clone();
                let usable = guard(|| {
                    let tr = match &tree {
                        Some(t) => Some(ExportedTree::from_bytes(t)?),
                        None => None,
                    };
                    party.client.join_group(tr, &MlsMessage::from_bytes(wb)?, Some(t)).map(|_| ())
                })
                .is_ok();
                if !usable {
                    continue;
                }
                // Insider forgeries of the Welcome: the GroupInfo is opened with the joiner secret, changed and sealed again
                // (what any member of the new epoch can do). The unchanged re-sealed Welcome is the positive control.
                if !info.external {
                    use crate::forge::{reseal_welcome, GroupInfoEdit};
                    let suite = w.cfg.suite;
                    let csp = party.suite_provider(suite);
                    let kstore = party.kstore.clone();
                    let lookup = |id: &[u8]| -> Option<(Vec<u8>, Vec<u8>)> {
                        let _g = kstore.ctl.suspend();
                        let d = mls_rs::KeyPackageStorage::get(&kstore, id).ok()??;
                        let mut r = crate::refmodel::tls::Reader::new(&d.key_package_bytes);
                        r.u16()?;
                        r.u16()?;
                        Some((d.init_key.as_ref().to_vec(), r.opaque()?.to_vec()))
                    };
                    let committer_signer = w.parties[info.committer].signer.clone();
                    let other_leaf = w.members().iter().map(|m| w.parties[*m].leaf()).find(|l| *l != w.parties[info.committer].leaf()).unwrap_or(0);
                    // another key package of the same joiner, published now: the commit did not add it
                    let other_kp = guard(|| party.client.generate_key_package_message(Default::default(), Default::default(), Some(t))).ok().and_then(|m| m.to_bytes().ok()).and_then(|b| {
                        let mut r = crate::refmodel::tls::Reader::new(&b);
                        r.u16()?;
                        r.u16()?;
                        let kp = b[r.pos..].to_vec();
                        r.u16()?;
                        r.u16()?;
                        let init = r.opaque()?.to_vec();
                        Some((kp, init))
                    });
                    let mut edits = vec![
                        ("control", GroupInfoEdit::None, false),
                        ("group_info_signature_bit", GroupInfoEdit::SignatureBit(self.rng.below(512) as usize), true),
                        ("group_info_signer_index", GroupInfoEdit::SignerIndex(other_leaf), true),
                        ("group_info_confirmation_tag_resigned", GroupInfoEdit::ConfirmationTagResigned(committer_signer.clone()), true),
                        ("group_info_epoch_resigned", GroupInfoEdit::EpochResigned(committer_signer.clone()), true),
                        ("unrelated_path_secret_in_group_secrets", GroupInfoEdit::UnrelatedPathSecret, true),
                    ];
                    if let Some((kp, init)) = other_kp {
                        edits.push(("addressed_to_another_key_package_of_the_joiner", GroupInfoEdit::AddressedToOtherKeyPackage(kp, init), true));
                    }
                    let mut control_ok = false;
                    for (name, edit, must_reject) in edits {
                        if must_reject && !control_ok {
                            break;
                        }
                        let Some(f) = reseal_welcome(suite, &csp, wb, &lookup, &edit) else {
                            self.ev.class("welcome_reseal:not_applicable");
                            break;
                        };
                        let tree = info.tree_oob.clone();
                        self.attempts += 1;
                        self.ev.eval(1);
                        let r = guard(|| {
                            let tr = match &tree {
                                Some(t) => Some(ExportedTree::from_bytes(t)?),
                                None => None,
                            };
                            party.client.join_group(tr, &MlsMessage::from_bytes(&f.bytes)?, Some(t)).map(|_| ())
                        });
                        match (must_reject, r) {
                            (_, Err(e)) if e.is_panic() => return Err(panic_failure(P, &format!("join_group(re-sealed welcome, {name})"), &e)),
                            (false, Ok(())) => {
                                control_ok = true;
                                self.ev.class("welcome_reseal_control:accepted");
                            }
                            (false, Err(e)) => {
                                self.ev.class(&format!("welcome_reseal_control_failed:{}", e.class()));
                                break;
                            }
                            (true, Ok(())) => return Err(fail(&format!("modified_welcome_accepted|insider_{name}"), format!("joiner {j} joined with a Welcome whose GroupInfo was re-sealed after: {name}"))),
                            (true, Err(e)) => {
                                self.ev.class(&format!("rejected:welcome:insider_{name}:{}", e.class()));
                                self.ev.class(&format!("insider_forgeries:welcome:{name}"));
                                self.ev.nontrivial(&("welcome-insider", name, j, w.epoch));
                            }
                        }
                    }
                }
                let secrets_entries = wire::message_spans(wb).map(|(_, s)| s.iter().filter(|x| x.name.ends_with("].new_member")).count()).unwrap_or(0);
                for _ in 0..self.per_message {
                    let Some(mu) = outsider_mutation(&mut self.rng, wb) else { continue };
                    // parts addressed to other joiners need not be noticed by this one
                    let foreign_ok = mu.field.starts_with("welcome.secrets") && !(single_joiner || secrets_entries <= 1);
                    let tree = info.tree_oob.clone();
                    self.attempts += 1;
                    self.ev.eval(1);
                    let r = guard(|| {
                        let tr = match &tree {
                            Some(t) => Some(ExportedTree::from_bytes(t)?),
                            None => None,
                        };
                        party.client.join_group(tr, &MlsMessage::from_bytes(&mu.bytes)?, Some(t)).map(|_| ())
                    });
                    match r {
                        Err(e) if e.is_panic() => return Err(panic_failure(P, "join_group(modified welcome)", &e)),
                        Err(e) => {
                            self.ev.class(&format!("rejected:welcome:{}:{}", mu.field, e.class()));
                            self.ev.nontrivial(&("welcome", &mu.label, j, w.epoch));
                        }
                        Ok(()) if foreign_ok => self.ev.class("welcome_part_for_another_joiner_modified"),
                        Ok(()) => return Err(fail(&format!("modified_welcome_accepted|{}", mu.field), format!("joiner {j}: {}", mu.label))),
                    }
                }
                // a modified out-of-band tree
                if let Some(tb) = &info.tree_oob {
                    for _ in 0..self.per_message / 2 {
                        let (mt, how) = tree_mutation(&mut self.rng, tb);
                        let pos = mt.len();
                        self.attempts += 1;
                        self.ev.eval(1);
                        let r = guard(|| party.client.join_group(Some(ExportedTree::from_bytes(&mt)?), &MlsMessage::from_bytes(wb)?, Some(t)).map(|_| ()));
                        match r {
                            Err(e) if e.is_panic() => return Err(panic_failure(P, "join_group(modified tree)", &e)),
                            Err(e) => {
                                self.ev.class(&format!("rejected:ratchet_tree:{how}:{}", e.class()));
                                self.ev.nontrivial(&("tree", pos, j, w.epoch));
                            }
                            Ok(()) => return Err(fail(&format!("modified_ratchet_tree_accepted|{how}"), format!("joiner {j}: tree {how} ({} -> {pos} bytes): {}", tb.len(), hex::encode(&mt[..mt.len().min(200)])))),
                        }
                    }
                }
                break;
            }
        }
        Ok(())
    }

    fn group_info_battery(&mut self, w: &mut World) -> CaseResult {
        let members = w.members();
        let m = members[self.rng.below(members.len() as u64) as usize];
        let in_ext = self.rng.below(2) == 0;
        let party = &w.parties[m];
        let Ok(gi) = guard(|| party.g().group_info_message_allowing_ext_commit(in_ext)) else { return Ok(()) };
        let gib = gi.to_bytes().expect("enc");
        let tree = (!in_ext).then(|| party.g().export_tree().to_bytes().expect("tree"));
        let t = w.now();
        let provider = party.provider;
        let y = w.new_party();
        let ext = ExternalClient::builder()
            .crypto_provider(VCrypto::new(provider))
            .identity_provider(VIdentity::new())
            .extension_types([EXT_TYPE.into(), EXT_TYPE2.into()])
            .custom_proposal_types([ProposalType::new(CUSTOM_PROPOSAL)])
            .build();
        for i in 0..self.per_message {
            let Some(mu) = outsider_mutation(&mut self.rng, &gib) else { continue };
            self.attempts += 1;
            self.ev.eval(1);
            let party = &w.parties[y];
            let r = if i % 2 == 0 {
                guard(|| {
                    let mut b = party.client.external_commit_builder()?.commit_time(t);
                    if let Some(tb) = &tree {
                        b = b.with_tree_data(ExportedTree::from_bytes(tb)?.into_owned());
                    }
                    b.build(MlsMessage::from_bytes(&mu.bytes)?).map(|_| ())
                })
            } else {
                guard(|| {
                    let tr = match &tree {
                        Some(t) => Some(ExportedTree::from_bytes(t)?),
                        None => None,
                    };
                    ext.observe_group(MlsMessage::from_bytes(&mu.bytes)?, tr, Some(t)).map(|_| ())
                })
            };
            // ... and the genuine GroupInfo with a modified out-of-band tree
            if let Some(tb) = &tree {
                let (mt, how) = tree_mutation(&mut self.rng, tb);
                self.attempts += 1;
                self.ev.eval(1);
                let r2 = if i % 2 == 0 {
                    guard(|| party.client.external_commit_builder()?.commit_time(t).with_tree_data(ExportedTree::from_bytes(&mt)?.into_owned()).build(MlsMessage::from_bytes(&gib)?).map(|_| ()))
                } else {
                    guard(|| ext.observe_group(MlsMessage::from_bytes(&gib)?, Some(ExportedTree::from_bytes(&mt)?), Some(t)).map(|_| ()))
                };
                match r2 {
                    Err(e) if e.is_panic() => return Err(panic_failure(P, "commit_external/observe_group(modified tree)", &e)),
                    Err(e) => {
                        self.ev.class(&format!("rejected:ratchet_tree_for_group_info:{how}:{}", e.class()));
                        self.ev.nontrivial(&("tree_gi", mt.len(), how, w.epoch));
                    }
                    Ok(()) => {
                        return Err(fail(
                            &format!("modified_ratchet_tree_accepted|{how}"),
                            format!("{}: tree {how} ({} -> {} bytes): {}", if i % 2 == 0 { "commit_external" } else { "observe_group" }, tb.len(), mt.len(), hex::encode(&mt[..mt.len().min(200)])),
                        ))
                    }
                }
            }
            match r {
                Err(e) if e.is_panic() => return Err(panic_failure(P, "commit_external/observe_group(modified GroupInfo)", &e)),
                Err(e) => {
                    self.ev.class(&format!("rejected:group_info:{}:{}", mu.field, e.class()));
                    self.ev.nontrivial(&("group_info", &mu.label, w.epoch));
                }
                Ok(()) => return Err(fail(&format!("modified_group_info_accepted|{}", mu.field), format!("{} ({})", mu.label, if i % 2 == 0 { "commit_external" } else { "observe_group" }))),
            }
        }
        Ok(())
    }
}

impl Obs {
    /// A clone of a member produces a proposal and a commit for the current epoch; the clone is dropped and the messages are
    /// withheld (a delivery service delaying traffic). They are genuine for this epoch only.
    fn withhold(&mut self, w: &World) {
        let members = w.members();
        if members.len() < 2 {
            return;
        }
        let s = members[self.rng.below(members.len() as u64) as usize];
        let epoch = w.parties[s].g().current_epoch();
        // GroupInfo messages of this epoch, with and without the ratchet tree: stale in every later epoch
        for with_tree in [false, true] {
            if let Ok(m) = guard(|| w.parties[s].g().group_info_message(with_tree)) {
                if let Ok(b) = m.to_bytes() {
                    self.withheld.push((epoch, s, if with_tree { "group_info_with_tree" } else { "group_info_without_tree" }, b));
                }
            }
        }
        let public = !w.parties[s].enc_opts.encrypt_control_messages;
        let mut clone = w.parties[s].g().clone();
        let cp = CustomProposal::new(ProposalType::new(CUSTOM_PROPOSAL), vec![0x77; 5]);
        if let Ok(m) = guard(|| clone.propose_custom(cp, vec![9])) {
            if let Ok(b) = m.to_bytes() {
                self.withheld.push((epoch, s, if public { "withheld_public_proposal" } else { "withheld_private_proposal" }, b));
            }
        }
        let mut clone = w.parties[s].g().clone();
        let t = w.now();
        if let Ok(o) = guard(|| clone.commit_builder().commit_time(t).build()) {
            if let Ok(b) = o.commit_message.to_bytes() {
                self.withheld.push((epoch, s, if public { "withheld_public_commit" } else { "withheld_private_commit" }, b));
            }
        }
        while self.withheld.len() > 16 {
            self.withheld.remove(0);
        }
    }

    /// Cross-epoch replay: handshake messages of earlier epochs, never seen by the receivers, delivered now.
    fn replay_withheld(&mut self, w: &World) -> CaseResult {
        let members = w.members();
        let now = match members.first() {
            Some(m) => w.parties[*m].g().current_epoch(),
            None => return Ok(()),
        };
        let old: Vec<_> = self.withheld.iter().filter(|x| x.0 < now).cloned().collect();
        for (epoch, s, kind, bytes) in old {
            for m in members.iter().copied().filter(|m| *m != s) {
                if w.parties[m].g().current_epoch() != now {
                    continue;
                }
                let mu = Mutation { bytes: bytes.clone(), label: format!("cross-epoch replay of a {kind} of epoch {epoch} into epoch {now}"), field: format!("cross_epoch_replay:{}", now - epoch) };
                self.must_reject(w, m, &bytes, kind, &mu)?;
            }
        }
        self.withheld.retain(|x| x.0 + 3 > now);
        Ok(())
    }
}

impl Observer for Obs {
    fn before_commit(&mut self, w: &mut World, _committer: usize) -> CaseResult {
        if self.rng.below(2) == 0 {
            self.withhold(w);
        }
        self.pre_tree = w.members().first().map(|m| w.parties[*m].g().export_tree().to_bytes().unwrap_or_default());
        if self.rng.below(3) == 0 {
            self.group_info_battery(w)?;
        }
        Ok(())
    }

    fn before_receive_commit(&mut self, w: &mut World, m: usize, bytes: &[u8]) -> CaseResult {
        // receivers at every position relative to the committer see modified copies first
        let is_public = MlsMessage::from_bytes(bytes).map(|x| x.wire_format() == mls_rs::WireFormat::PublicMessage).unwrap_or(false);
        let kind = if is_public { "public_commit" } else { "private_commit" };
        let per = self.per_message;
        self.per_message = (per / 3).max(2);
        let r = self.battery(w, &[m], bytes, kind);
        self.per_message = per;
        r?;
        if is_public {
            // the committer is still in the old epoch here: its keys forge for this epoch
            let committer = w.members().into_iter().find(|c| w.parties[*c].g().has_pending_commit());
            if let Some(c) = committer {
                self.insider(w, c, &[m], bytes, kind)?;
                self.structural(w, c, m, bytes)?;
                self.structural_lite(w, c, m, bytes)?;
                self.full_forgeries(w, c, m, bytes)?;
            }
        }
        Ok(())
    }

    fn after_commit(&mut self, w: &mut World, info: &CommitInfo, _st: &HistoryStats) -> CaseResult {
        // the new epoch's secret tree, while some member still has its root
        self.enc_secret = None;
        for m in w.members() {
            let k = w.parties[m].g().verif_epoch_keys();
            let root = k.secret_tree_leaf_count.saturating_sub(1);
            if let Some((_, v)) = k.secret_tree_nodes.iter().find(|(n, _)| *n == root) {
                self.enc_secret = Some((w.epoch, v.clone(), k.secret_tree_leaf_count));
                break;
            }
        }
        if !info.joined.is_empty() && !info.external {
            self.welcome_battery(w, info)?;
        }
        self.replay_withheld(w)
    }

    fn extra_op(&mut self, w: &mut World, op: &[u16; 5], _notes: &mut EpochNotes) -> CaseResult {
        let members = w.members();
        if members.len() < 2 {
            return Ok(());
        }
        let s = members[pick(op[1], members.len())];
        let receivers: Vec<usize> = members.iter().copied().filter(|m| *m != s).collect();
        if op[2] % 2 == 0 {
            if w.parties[s].g().commit_required() {
                return Ok(());
            }
            let payload = vec![op[3] as u8; 1 + (op[3] % 60) as usize];
            w.send_app(s, payload, vec![7, 7]).map_err(|e| op_failure(P, "encrypt_application_message", &e))?;
            let genuine = w.inflight.last().unwrap().bytes.clone();
            self.battery(w, &receivers, &genuine, "application")?;
        } else {
            let cp = CustomProposal::new(ProposalType::new(CUSTOM_PROPOSAL), vec![op[3] as u8; 6]);
            let party = &mut w.parties[s];
            let msg = guard(|| party.gm().propose_custom(cp, vec![5])).map_err(|e| op_failure(P, "propose_custom", &e))?;
            w.push_proposal(s, msg, vec![5]).map_err(|e| setup_failure(P, "encode", &e))?;
            let genuine = w.inflight.last().unwrap().bytes.clone();
            let public = !w.parties[s].enc_opts.encrypt_control_messages;
            let kind = if public { "public_proposal" } else { "private_proposal" };
            self.battery(w, &receivers, &genuine, kind)?;
            if public {
                self.insider(w, s, &receivers, &genuine, kind)?;
            }
        }
        // the genuine copy is delivered by the normal flow and must be reported with the true sender / payload / aad
        w.flush(op[4])
    }
}

pub fn run(ctx: &Ctx) -> ! {
    if let Err(e) = rk::calibrate() {
        let ev = Evidence::new(P, ctx.tier, ctx.seed, "exploration");
        inconclusive(&ev, &format!("oracle calibration failed: {e}"));
    }
    let mut hp = HistoryParams::standard(ctx.tier);
    hp.weights = [8, 7, 7, 2, 1, 2, 2, 26, 4, 4, 2, 26];
    hp.max_initial = ctx.tier.pick(6, 12);
    hp.cross_decrypt_every = 2;
    let per_message = ctx.tier.pick(24u64, 120);
    let spec = RunSpec {
        shards: 16,
        cases_per_shard: ctx.tier.pick(40, 250),
        cfg_len: CFG_LEN,
        min_ops: 4,
        max_ops: ctx.tier.pick(24, 50),
        max_shrink_iters: 200,
    };
    run_property(
        ctx,
        P,
        "exploration",
        "messages harvested live from generated histories (both handshake wire formats): commits (before each receiver processes the genuine one, so at every position relative to the committer), \
         proposals, application messages, Welcomes (single and per-member), GroupInfo (tree inside / outside) and out-of-band ratchet trees. Outsider mutators, addressed through an independent span-level wire \
         parser so that every FIELD is hit as often as long ciphertexts: single-bit flips, byte changes, truncation at random lengths, splices of one field between two valid messages of the same kind. \
         Insider mutators (membership key from the hook, MAC recomputed by the reference model, rebuilt message proven identical for the unmodified case): re-attribution to another member's leaf, wrong and stale \
         confirmation tag, content or authenticated_data changed with a fresh membership tag; structural forgeries by the committer itself (leaf and content re-signed with its keys, parent hash recomputed over the \
         modified path by the independent tree model, MAC recomputed; two positive controls prove the forger produces acceptable messages): every shorter update path, a longer one, a wrong / empty / truncated parent hash, another \
         member's HPKE or signature key in the new leaf, the unchanged HPKE key, a leaf signed for another index; and, without the tree model, for every public commit (also tree-changing ones, also for a receiver that the commit removes): one path node too many / too few, a broken leaf signature, the committer's current leaf in place of the path leaf, content re-signed and re-MACed. Hand-built commits (forge.rs) also come with no / a truncated parent hash in the committer's leaf and with proposal lists that break the set rules (two GroupContextExtensions: by value twice, or by reference + by value; each alone accepted as control). PrivateMessages (application, proposal, commit) are opened with the reference key derivations, get non-zero padding and are sealed again under the same key (zero padding accepted as control). Out-of-band trees are bit-flipped, truncated and padded with blank nodes (vector length corrected). Receivers: clones of members, the joiner's client (Welcome, tree), an external committer and an observer (GroupInfo). \
         Insider forgeries of a Welcome (GroupInfo opened with the joiner secret, changed, re-sealed for the joiner; unchanged re-sealed control must be accepted): signature bit, signer index, re-signed wrong confirmation tag, re-signed wrong epoch. Cross-epoch replay: GroupInfo messages (with and without tree) and a proposal and a commit made by a discarded clone of a member in epoch n (so no receiver has seen them or consumed their keys) are delivered to every other member in epochs n+1 and n+2. Oracle: never Ok, never a panic; parts of a Welcome addressed to other joiners are exempt; genuine copies are delivered afterwards and must report the true sender, payload and authenticated data. \
         Non-trivial = rejection by an authentication / validation check (error class other than decode, group id, version, epoch); distinct by (message kind, mutation, receiver, epoch).",
        &hp,
        spec,
        &|case, ev| Obs { ev, rng: SplitMix::new(((case.c(7) as u64) << 16) | case.c(8) as u64, 3), per_message, attempts: 0, pre_tree: None, lite_receiver_removed: false, enc_secret: None, last_public: vec![], withheld: vec![] },
        &|_, o| {
            o.ev.class_n("mutation_attempts", o.attempts);
            false
        },
    )
}
