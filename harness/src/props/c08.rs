//! C08 — every reachable ratchet tree is valid and matches the context tree hash.
use crate::engine::*;
use crate::history::*;
use crate::refmodel::tree::{HashAlg, RefTreeNodes};
use crate::world::*;
use crate::Ctx;
use mls_rs::external_client::ExternalClient;
use mls_rs::group::ExportedTree;
use mls_rs::MlsMessage;

const P: &str = "C08";

pub struct Obs {
    ev: &'static Evidence,
    pre_tree: Option<Vec<u8>>,
    pub trees_checked: u64,
    pub nontrivial_trees: u64,
    pub reloads: u64,
    pub observer_validations: u64,
}

fn fail(what: &str, detail: String) -> Failure {
    Failure::new(format!("{P}|{what}"), detail)
}

impl Obs {
    fn check_member_tree(&mut self, w: &mut World, m: usize, how: &str) -> CaseResult {
        let alg = HashAlg::for_suite(w.cfg.suite);
        let g = w.parties[m].g();
        let bytes = g.export_tree().to_bytes().map_err(|e| fail("export_tree_failed", format!("{e:?}")))?;
        let t = RefTreeNodes::parse(&bytes).ok_or_else(|| fail("exported_tree_unparsable", format!("party {m} ({how}): {} bytes", bytes.len())))?;
        let want = t.root_tree_hash(alg);
        if want != g.context().tree_hash {
            return Err(fail(
                &format!("tree_hash_mismatch|{how}"),
                format!("party {m} ({how}) epoch {}: context tree hash {} != recomputed {}", g.current_epoch(), hex::encode(&g.context().tree_hash), hex::encode(&want)),
            ));
        }
        let problems = t.validate(alg);
        if !problems.is_empty() {
            return Err(fail(&format!("tree_invalid|{how}"), format!("party {m} ({how}) epoch {}: {problems:?}", g.current_epoch())));
        }
        self.trees_checked += 1;
        if t.has_interior_blank_leaf() || t.has_unmerged() {
            self.nontrivial_trees += 1;
            self.ev.nontrivial(&bytes);
        }
        Ok(())
    }

    /// The library's own outside-observer validation of (GroupInfo, tree) exported by member m.
    fn observer_accepts(&mut self, w: &mut World, m: usize, tree_in_ext: bool) -> CaseResult {
        let party = &w.parties[m];
        let gi = match guard(|| party.g().group_info_message(tree_in_ext)) {
            Ok(g) => g,
            Err(e) if e.is_panic() => return Err(panic_failure(P, "group_info_message", &e)),
            Err(e) => return Err(fail(&format!("group_info_failed|{}", e.class()), e.text().into())),
        };
        let gi_bytes = gi.to_bytes().map_err(|e| fail("group_info_encode", format!("{e:?}")))?;
        let tree_bytes = party.g().export_tree().to_bytes().map_err(|e| fail("export_tree_failed", format!("{e:?}")))?;
        let ext = ExternalClient::builder()
            .crypto_provider(party.crypto.clone())
            .identity_provider(party.idp.clone())
            .extension_types([EXT_TYPE.into(), EXT_TYPE2.into()])
            .custom_proposal_types([mls_rs::group::proposal::ProposalType::new(CUSTOM_PROPOSAL)])
            .build();
        let t = w.now();
        let r = guard(|| {
            let gi = MlsMessage::from_bytes(&gi_bytes)?;
            let tree = if tree_in_ext { None } else { Some(ExportedTree::from_bytes(&tree_bytes)?) };
            ext.observe_group(gi, tree, Some(t)).map(|_| ())
        });
        self.observer_validations += 1;
        match r {
            Ok(()) => Ok(()),
            Err(e) if e.is_panic() => Err(panic_failure(P, "observe_group", &e)),
            Err(e) => Err(fail(
                &format!("observer_rejects_exported_tree|{}", e.class()),
                format!("GroupInfo+tree of party {m} (tree in extension: {tree_in_ext}) rejected: {}", e.text()),
            )),
        }
    }
}

impl Observer for Obs {
    fn before_commit(&mut self, w: &mut World, _committer: usize) -> CaseResult {
        self.pre_tree = w.members().first().map(|m| w.parties[*m].g().export_tree().to_bytes().unwrap_or_default());
        Ok(())
    }

    fn after_commit(&mut self, w: &mut World, info: &CommitInfo, _st: &HistoryStats) -> CaseResult {
        for m in w.members() {
            let how = if m == info.committer {
                if info.external { "external_joiner" } else { "committer" }
            } else if info.joined.contains(&m) {
                "welcome_joiner"
            } else {
                "receiver"
            };
            self.check_member_tree(w, m, how)?;
        }
        // leftmost-blank placement of the leaves added by this commit
        if let Some(pre) = self.pre_tree.take() {
            let post = w.parties[info.committer].g().export_tree().to_bytes().unwrap_or_default();
            if let (Some(pre), Some(post)) = (RefTreeNodes::parse(&pre), RefTreeNodes::parse(&post)) {
                let ids = |t: &RefTreeNodes| -> Vec<(u32, Vec<u8>)> { t.occupied_leaves().into_iter().map(|l| (l, t.leaf(l).unwrap().identity.clone())).collect() };
                let before = ids(&pre);
                let after = ids(&post);
                let removed: Vec<u32> = before.iter().filter(|(l, id)| !after.iter().any(|(l2, id2)| l2 == l && id2 == id)).map(|(l, _)| *l).collect();
                let added: Vec<u32> = after.iter().filter(|(l, id)| !before.iter().any(|(l2, id2)| l2 == l && id2 == id)).map(|(l, _)| *l).collect();
                // model: blank the removed leaves, then fill the leftmost blank once per added leaf
                let mut occupied: Vec<bool> = (0..pre.leaf_slots().max(post.leaf_slots()) * 2).map(|_| false).collect();
                for (l, _) in &before {
                    occupied[*l as usize] = true;
                }
                for l in &removed {
                    occupied[*l as usize] = false;
                }
                let mut predicted = vec![];
                for _ in 0..added.len() {
                    let slot = occupied.iter().position(|o| !*o).unwrap_or(occupied.len());
                    if slot < occupied.len() {
                        occupied[slot] = true;
                    }
                    predicted.push(slot as u32);
                }
                let mut a = added.clone();
                a.sort();
                predicted.sort();
                if a != predicted {
                    return Err(fail(
                        "new_leaf_not_leftmost_blank",
                        format!("epoch {}: leaves added at {a:?}, leftmost blank slots were {predicted:?} (removed {removed:?})", w.epoch),
                    ));
                }
                if !added.is_empty() && !removed.is_empty() {
                    self.ev.class("commits_filling_freed_slots");
                }
            }
        }
        // the library's observer validation, from a rotating member, both tree delivery options
        let members = w.members();
        let m = members[(w.epoch as usize) % members.len()];
        self.observer_accepts(w, m, w.epoch % 2 == 0)?;
        Ok(())
    }

    fn extra_op(&mut self, w: &mut World, op: &[u16; 5], _notes: &mut EpochNotes) -> CaseResult {
        // save + reload a member: its tree (and hash caches) are rebuilt from the snapshot
        let members = w.members();
        if members.is_empty() {
            return Ok(());
        }
        let m = members[pick(op[1], members.len())];
        if let Err(e) = w.save(m) {
            return Err(op_failure(P, "write_to_storage", &e));
        }
        if let Err(e) = w.reload(m) {
            return Err(op_failure(P, "load_group", &e));
        }
        self.reloads += 1;
        self.ev.class("reloads");
        self.check_member_tree(w, m, "reloaded")
    }
}

pub fn run(ctx: &Ctx) -> ! {
    if let Err(e) = crate::refmodel::tree::calibrate() {
        let ev = Evidence::new(P, ctx.tier, ctx.seed, "exploration");
        inconclusive(&ev, &format!("oracle calibration failed: {e}"));
    }
    let mut hp = HistoryParams::standard(ctx.tier);
    hp.kicks = true;
    hp.weights = [12, 8, 14, 1, 0, 2, 1, 30, 5, 1, 1, 6];
    hp.cross_decrypt_every = 0;
    let spec = RunSpec {
        shards: 16,
        cases_per_shard: ctx.tier.pick(90, 400),
        cfg_len: CFG_LEN,
        min_ops: 4,
        max_ops: ctx.tier.pick(30, 80),
        max_shrink_iters: 300,
    };
    run_property(
        ctx,
        P,
        "exploration",
        "histories biased to growth / shrink / regrowth with interior removals, path-less adds (unmerged leaves), updates, external commits and save+reload of members. \
         After every accepted commit, for EVERY member's own copy (committer, receiver, Welcome joiner, external joiner, reloaded): the exported tree is parsed by the independent \
         model; its recomputed root tree hash must equal context().tree_hash; the model's full joiner validation must pass (parent-hash chains, unmerged-leaf consistency, \
         no trailing blank, unique keys); leaves added by the commit must be exactly the leftmost blank slots of the tree after the removals; and the library's own \
         ExternalClient::observe_group must accept the member's GroupInfo + tree (tree inside / outside the extension alternating). The model is calibrated on the 98 IETF \
         tree-validation vectors first. Non-trivial = a checked tree with an interior blank leaf or unmerged leaves (distinct by exported bytes).",
        &hp,
        spec,
        &|_, ev| Obs { ev, pre_tree: None, trees_checked: 0, nontrivial_trees: 0, reloads: 0, observer_validations: 0 },
        &|st, o| {
            o.ev.class_n("member_trees_checked", o.trees_checked);
            o.ev.class_n("member_trees_with_blank_or_unmerged", o.nontrivial_trees);
            o.ev.class_n("observer_validations", o.observer_validations);
            let _ = st;
            false
        },
    )
}
