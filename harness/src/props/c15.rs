//! C15 — a failing storage call never loses or corrupts the group.
//! Fault enumeration: every storage call of every operation of a generated script is made to
//! fail once (thorough: also pairs), one at a time, transiently.
use crate::engine::*;
use crate::history::{setup_failure, CFG_LEN};
use crate::props::c04::{diff_components, snap, snap_group};
use crate::providers::{ProviderKind, StoreKind};
use crate::world::*;
use crate::Ctx;
use mls_rs::group::{ExportedTree, ReceivedMessage};
use mls_rs::MlsMessage;
use serde_json::json;

const P: &str = "C15";

fn fail(what: &str, detail: String) -> Failure {
    Failure::new(format!("{P}|{what}"), detail)
}

#[derive(Clone, Copy, PartialEq, Eq, Debug)]
enum Kind {
    /// same inputs give the same resulting state: compared with a fault-free twin (a clone)
    Deterministic,
    /// randomised (builds a commit): only unchanged-on-failure and success-on-retry are checked
    Randomized,
    /// write_to_storage: compared through load_group
    Write,
}

struct Script<'e> {
    w: World,
    victim: usize,
    ev: &'e Evidence,
    pairs: bool,
    fault_points: u64,
    fired: u64,
}

impl Script<'_> {
    /// Run `op` on the victim's group with the k-th storage call failing, for k = 0, 1, 2, ...
    /// until a run completes without the fault firing (that run is the real execution).
    fn faulted<T>(&mut self, name: &str, kind: Kind, mut op: impl FnMut(&mut VGroup) -> Result<T, mls_rs::error::MlsError>) -> Result<T, Failure> {
        let v = self.victim;
        // fault-free twin for deterministic operations: a clone taken before anything happens
        let twin_state = if kind == Kind::Deterministic {
            let mut twin = self.w.parties[v].g().clone();
            let r = {
                let _s = self.w.parties[v].ctl.suspend();
                guard(|| op(&mut twin))
            };
            match r {
                Ok(_) => Some(snap_group(&self.w.parties[v], &twin)?),
                Err(e) if e.is_panic() => return Err(panic_failure(P, name, &e)),
                Err(e) => return Err(fail(&format!("operation_fails_without_fault|{name}|{}", e.class()), e.text().into())),
            }
        } else {
            None
        };
        let mut k: i64 = 0;
        loop {
            let before = snap(&self.w, v)?;
            let k2 = if self.pairs && k % 2 == 1 { k + 1 } else { -1 };
            if kind != Kind::Write {
                // first on a clone (it shares the storage, which these operations only read): a listed
                // known finding must not damage the member and end the script
                let mut clone = self.w.parties[v].g().clone();
                self.w.parties[v].ctl.arm(k, k2);
                let r = guard(|| op(&mut clone));
                let fired = self.w.parties[v].ctl.fired.load(std::sync::atomic::Ordering::SeqCst);
                self.w.parties[v].ctl.reset();
                if fired > 0 && r.is_err() {
                    let after = snap_group(&self.w.parties[v], &clone)?;
                    let d = before.diff(&after);
                    if !d.is_empty() {
                        let sig = format!("{P}|failed_operation_changed_state|{name}|diff={}", diff_components(&d));
                        self.ev.known_or_fail(&sig, || format!("{name}: storage call {k} failed, the operation returned an error, but the member (clone) changed: {d:?}"))?;
                        self.ev.class("excluded_known");
                        self.fault_points += 1;
                        self.ev.eval(1);
                        k += 1;
                        continue;
                    }
                }
            }
            self.w.parties[v].ctl.arm(k, k2);
            let party = &mut self.w.parties[v];
            let r = guard(|| op(party.gm()));
            let fired = party.ctl.fired.load(std::sync::atomic::Ordering::SeqCst);
            let calls = party.ctl.calls.load(std::sync::atomic::Ordering::SeqCst);
            party.ctl.reset();
            if fired == 0 {
                // complete, fault-free execution
                let out = match r {
                    Ok(o) => o,
                    Err(e) if e.is_panic() => return Err(panic_failure(P, name, &e)),
                    Err(e) => {
                        return Err(fail(
                            &format!("retry_after_fault_fails|{name}|{}", e.class()),
                            format!("{name}: after {k} transient storage faults the operation fails although storage works again: {}", e.text()),
                        ))
                    }
                };
                self.ev.class_n(&format!("storage_calls_in:{name}"), calls);
                if let Some(tw) = &twin_state {
                    let after = snap(&self.w, v)?;
                    let d = after.diff(tw);
                    if !d.is_empty() {
                        return Err(fail(
                            &format!("state_after_retry_differs_from_fault_free_run|{name}|diff={}", diff_components(&d)),
                            format!("after {k} faulted attempts: {d:?}"),
                        ));
                    }
                }
                return Ok(out);
            }
            self.fault_points += 1;
            self.fired += fired;
            self.ev.eval(1);
            self.ev.nontrivial(&(name, k, format!("{:?}", self.w.cfg.store), self.w.epoch, before.has_pending_commit(), before.cached_proposals()));
            match r {
                Ok(_) => {
                    return Err(fail(
                        &format!("storage_error_swallowed|{name}"),
                        format!("{name}: storage call {k} failed but the operation reported success"),
                    ))
                }
                Err(e) if e.is_panic() => return Err(panic_failure(P, name, &e)),
                Err(e) => {
                    if !e.is_injected_fault() {
                        // the fault must surface as the error (possibly wrapped); anything else is reported
                        self.ev.class(&format!("fault_surfaced_as:{}", e.class()));
                    }
                }
            }
            let after = snap(&self.w, v)?;
            let mut d = before.diff(&after);
            if kind == Kind::Write {
                // a write that failed after the group state was stored has moved the pending prior-epoch
                // records into storage: the member still sees the same epochs (checked after the final
                // write against the list of epochs that were pending)
                d.retain(|(c, _)| !c.starts_with("prior_inserts") && !c.starts_with("prior_updates"));
            }
            if !d.is_empty() {
                let sig = format!("{P}|failed_operation_changed_state|{name}|diff={}", diff_components(&d));
                self.ev.known_or_fail(&sig, || format!("{name}: storage call {k} failed, the operation returned an error, but the member changed: {d:?}"))?;
                // known finding: the member is damaged; stop this script here
                return Err(Failure::new("__known__", ""));
            }
            k += 1;
            if k > 60 {
                return Err(fail("fault_enumeration_does_not_terminate", name.into()));
            }
        }
    }

    fn others(&self) -> Vec<usize> {
        self.w.members().into_iter().filter(|m| *m != self.victim).collect()
    }

    /// Another member commits; the victim processes the commit under fault enumeration.
    fn other_commit(&mut self, sel: u16, flags: u16) -> CaseResult {
        let others = self.others();
        if others.is_empty() {
            return Ok(());
        }
        let c = others[pick(sel, others.len())];
        let mut spec = CommitSpec::default();
        if flags & 1 != 0 {
            spec.external_psks.push(b"psk\x00".to_vec());
        }
        if flags & 2 != 0 && self.w.members().len() < 6 {
            let p = self.w.new_party();
            self.w.parties[p].pstore.put(b"psk\x00", &[1; 32]);
            spec.add.push(p);
        }
        if flags & 4 != 0 && spec.add.is_empty() {
            spec.resumption_psk_epochs.push(self.w.epoch);
        }
        self.w.flush(0)?;
        let out = match self.w.build_commit(c, &spec)? {
            Ok(o) => o,
            Err(e) => return Err(setup_failure(P, "other_commit", &e)),
        };
        let bytes = out.commit_message.to_bytes().expect("enc");
        let t = self.w.now();
        // everybody but the victim and the committer
        for m in self.w.members() {
            if m != c && m != self.victim {
                self.w.process(m, &bytes).map_err(|e| setup_failure(P, "process", &e))?;
            }
        }
        {
            let party = &mut self.w.parties[c];
            guard(|| party.gm().apply_pending_commit()).map_err(|e| setup_failure(P, "apply", &e))?;
        }
        self.faulted("process_commit", Kind::Deterministic, |g| {
            let m = MlsMessage::from_bytes(&bytes)?;
            match g.process_incoming_message_with_time(m, t)? {
                ReceivedMessage::Commit(_) => Ok(()),
                _ => Err(mls_rs::error::MlsError::UnexpectedMessageType),
            }
        })?;
        self.w.epoch += 1;
        self.w.commits += 1;
        for a in &spec.add {
            let wb = out.welcome_messages[0].to_bytes().expect("enc");
            let party = &mut self.w.parties[*a];
            let (g, _) = guard(|| party.client.join_group(None, &MlsMessage::from_bytes(&wb)?, Some(t))).map_err(|e| setup_failure(P, "join", &e))?;
            party.group = Some(g);
            party.status = Status::Member;
            party.joined_epoch = self.w.epoch;
        }
        self.w.agree(&[])
    }

    /// An outside party joins by external commit (optionally injecting an external PSK); the victim processes that commit
    /// under fault enumeration.
    fn external_commit(&mut self, sel: u16, flags: u16) -> CaseResult {
        let others = self.others();
        if others.is_empty() || self.w.members().len() >= 6 {
            return Ok(());
        }
        let via = others[pick(sel, others.len())];
        self.w.flush(0)?;
        let y = self.w.new_party();
        let with_psk = flags & 1 != 0;
        self.w.parties[y].pstore.put(b"psk\x00", &[1; 32]);
        let t = self.w.now();
        let gi = {
            let party = &self.w.parties[via];
            guard(|| party.g().group_info_message_allowing_ext_commit(true)).map_err(|e| setup_failure(P, "group_info", &e))?
        };
        let (g, commit) = {
            let party = &self.w.parties[y];
            guard(|| {
                let mut b = party.client.external_commit_builder()?.commit_time(t);
                if with_psk {
                    b = b.with_external_psk(mls_rs::psk::ExternalPskId::new(b"psk\x00".to_vec()));
                }
                b.build(gi.clone())
            })
            .map_err(|e| setup_failure(P, "external_commit", &e))?
        };
        let bytes = commit.to_bytes().expect("enc");
        for m in self.w.members() {
            if m != self.victim {
                self.w.process(m, &bytes).map_err(|e| setup_failure(P, "process(external commit)", &e))?;
            }
        }
        self.faulted("process_external_commit", Kind::Deterministic, |g| {
            let m = MlsMessage::from_bytes(&bytes)?;
            match g.process_incoming_message_with_time(m, t)? {
                ReceivedMessage::Commit(_) => Ok(()),
                _ => Err(mls_rs::error::MlsError::UnexpectedMessageType),
            }
        })?;
        self.w.epoch += 1;
        self.w.commits += 1;
        let epoch = self.w.epoch;
        let party = &mut self.w.parties[y];
        party.group = Some(g);
        party.status = Status::Member;
        party.joined_epoch = epoch;
        self.ev.class(if with_psk { "external_commits_with_psk_processed_under_faults" } else { "external_commits_processed_under_faults" });
        self.w.agree(&[])
    }

    /// The victim commits: build and apply under fault enumeration.
    fn victim_commit(&mut self, flags: u16) -> CaseResult {
        // sometimes another member has proposed an external PSK by reference: the victim's commit then consults the PSK
        // store for a cached proposal as well
        if flags & 4 != 0 {
            if let Some(o) = self.others().first().copied() {
                for p in 0..self.w.parties.len() {
                    self.w.parties[p].pstore.put(b"psk\x00", &[1; 32]);
                }
                let party = &mut self.w.parties[o];
                match guard(|| party.gm().propose_external_psk(mls_rs::psk::ExternalPskId::new(b"psk\x00".to_vec()), vec![])) {
                    Ok(m) => {
                        self.w.push_proposal(o, m, vec![]).map_err(|e| setup_failure(P, "encode", &e))?;
                        self.ev.class("victim_commits_with_cached_psk_proposal");
                    }
                    Err(e) if e.is_panic() => return Err(panic_failure(P, "propose_external_psk", &e)),
                    Err(_) => {}
                }
            }
        }
        self.w.flush(0)?;
        let t = self.w.tick();
        let epoch = self.w.epoch;
        let use_psk = flags & 1 != 0;
        let use_res = flags & 2 != 0;
        let out = self.faulted("commit_builder.build", Kind::Randomized, |g| {
            if g.has_pending_commit() {
                g.clear_pending_commit();
            }
            let mut b = g.commit_builder().commit_time(t);
            if use_psk {
                b = b.add_external_psk(mls_rs::psk::ExternalPskId::new(b"psk\x00".to_vec()))?;
            }
            if use_res {
                b = b.add_resumption_psk(epoch)?;
            }
            b.build()
        })?;
        let bytes = out.commit_message.to_bytes().expect("enc");
        // the pending commit must survive every failed attempt to apply it: either through apply_pending_commit, or by
        // processing the echo of the own commit as it comes back from the delivery service
        if flags & 8 != 0 {
            let echo = bytes.clone();
            self.faulted("process_incoming_message(own commit echoed)", Kind::Deterministic, |g| g.process_incoming_message_with_time(MlsMessage::from_bytes(&echo)?, t).map(|_| ()))?;
            self.ev.class("own_commit_applied_through_its_echo");
        } else {
            self.faulted("apply_pending_commit", Kind::Deterministic, |g| g.apply_pending_commit().map(|_| ()))?;
        }
        for m in self.others() {
            self.w.process(m, &bytes).map_err(|e| {
                if e.is_panic() {
                    panic_failure(P, "process", &e)
                } else {
                    fail(&format!("peer_rejects_commit_after_faults|{}", e.class()), e.text().into())
                }
            })?;
        }
        self.w.epoch += 1;
        self.w.commits += 1;
        self.w.agree(&[])
    }

    fn write(&mut self) -> CaseResult {
        self.write_with(false)
    }

    /// `tree_less`: the application keeps the ratchet tree elsewhere and uses the tree-less write / load pair.
    fn write_with(&mut self, tree_less: bool) -> CaseResult {
        let v = self.victim;
        let pending_ids = snap(&self.w, v)?.prior_insert_ids();
        if tree_less {
            self.faulted("write_to_storage_without_ratchet_tree", Kind::Write, |g| g.write_to_storage_without_ratchet_tree())?;
            self.ev.class("tree_less_writes");
        } else {
            self.faulted("write_to_storage", Kind::Write, |g| g.write_to_storage())?;
        }
        {
            let gid = self.w.group_id.clone();
            let stored = self.w.parties[v].gstore.retrievable(&gid);
            let max = stored.iter().chain(pending_ids.iter()).copied().max().unwrap_or(0);
            let r = self.w.cfg.retention as u64;
            for id in &pending_ids {
                if *id + r > max && !stored.contains(id) {
                    return Err(fail("prior_epoch_lost_by_faulted_write", format!("epoch {id} was pending before the write, is within the retention window ({r}) and is not in storage: stored {stored:?}")));
                }
            }
            let after = snap(&self.w, v)?;
            if !after.prior_insert_ids().is_empty() {
                return Err(fail("pending_epochs_survive_successful_write", format!("{:?}", after.prior_insert_ids())));
            }
        }
        // what is stored now must load to exactly the member's state
        let gid = self.w.group_id.clone();
        let party = &self.w.parties[v];
        let loaded = {
            let _s = party.ctl.suspend();
            if tree_less {
                let tree = party.g().export_tree().to_bytes().expect("tree");
                guard(|| party.client.load_group_with_ratchet_tree(&gid, ExportedTree::from_bytes(&tree)?)).map_err(|e| fail(&format!("load_after_write_failed|{}", e.class()), e.text().into()))?
            } else {
                guard(|| party.client.load_group(&gid)).map_err(|e| fail(&format!("load_after_write_failed|{}", e.class()), e.text().into()))?
            }
        };
        let a = snap(&self.w, v)?;
        let b = snap_group(party, &loaded)?;
        let d: Vec<_> = a.diff(&b).into_iter().filter(|(c, _)| c != "pending_key_package_removal").collect();
        if !d.is_empty() {
            return Err(fail(&format!("stored_state_differs_after_faulted_writes|diff={}", diff_components(&d)), format!("{d:?}")));
        }
        // stored history: the retention limit most recent epochs the member has been through
        let ids = party.gstore.retrievable(&gid);
        let r = self.w.cfg.retention as u64;
        let joined = party.joined_epoch;
        let want: Vec<u64> = (joined..self.w.epoch).filter(|e| *e + r >= self.w.epoch).collect();
        let got: Vec<u64> = ids.into_iter().filter(|e| *e >= joined).collect();
        if got != want && self.w.cfg.store != StoreKind::Tee {
            self.ev.class("stored_epoch_ids_differ_from_window_model");
        }
        Ok(())
    }

    fn reload(&mut self) -> CaseResult {
        let v = self.victim;
        self.faulted("write_to_storage", Kind::Write, |g| g.write_to_storage())?;
        let gid = self.w.group_id.clone();
        let before = snap(&self.w, v)?;
        let mut k = 0i64;
        loop {
            let party = &mut self.w.parties[v];
            party.ctl.arm(k, -1);
            let r = guard(|| party.client.load_group(&gid));
            let fired = party.ctl.fired.load(std::sync::atomic::Ordering::SeqCst);
            party.ctl.reset();
            match (fired, r) {
                (0, Ok(g)) => {
                    party.group = Some(g);
                    break;
                }
                (0, Err(e)) => return Err(fail(&format!("retry_after_fault_fails|load_group|{}", e.class()), e.text().into())),
                (_, Ok(_)) => return Err(fail("storage_error_swallowed|load_group", format!("call {k}"))),
                (_, Err(e)) if e.is_panic() => return Err(panic_failure(P, "load_group", &e)),
                (_, Err(_)) => {
                    self.fault_points += 1;
                    self.ev.eval(1);
                    self.ev.nontrivial(&("load_group", k, self.w.epoch));
                }
            }
            k += 1;
            if k > 20 {
                return Err(fail("fault_enumeration_does_not_terminate", "load_group".into()));
            }
        }
        let after = snap(&self.w, v)?;
        let d: Vec<_> = before.diff(&after).into_iter().filter(|(c, _)| c != "pending_key_package_removal").collect();
        if !d.is_empty() {
            return Err(fail(&format!("loaded_state_differs|diff={}", diff_components(&d)), format!("{d:?}")));
        }
        Ok(())
    }
}

fn run_case(case: &Case, ev: &Evidence, pairs: bool) -> CaseResult {
    let suites = [1u16, 1, 3, 2];
    let mut cfg = WorldCfg::default_for(suites[pick(case.c(0), suites.len())]);
    cfg.providers = vec![ProviderKind::ALL[pick(case.c(1), 3)]];
    cfg.store = [StoreKind::Mem, StoreKind::Sql, StoreKind::Tee][pick(case.c(2), 3)];
    cfg.sql_key_packages = cfg.store != StoreKind::Mem;
    cfg.retention = 1 + pick(case.c(3), 4);
    cfg.encrypt_handshake = case.c(4) & 1 == 1;
    let mut w = World::new(P, cfg);
    let a = w.new_party();
    w.create_group(a).map_err(|e| setup_failure(P, "create_group", &e))?;
    let b = w.new_party();
    let victim = w.new_party();
    for p in [a, b, victim] {
        w.parties[p].pstore.put(b"psk\x00", &[1; 32]);
    }
    let mut spec = CommitSpec::default();
    spec.add.push(b);
    match w.commit_round(a, &spec)? {
        Ok(_) => {}
        Err(e) => return Err(setup_failure(P, "initial_commit", &e)),
    }

    // the victim joins under fault enumeration (key package lookup, ...)
    let kp = w.key_package(victim).map_err(|e| setup_failure(P, "key_package", &e))?;
    let t = w.tick();
    let (out, welcome, tree) = {
        let party = &mut w.parties[a];
        let out = guard(|| party.gm().commit_builder().add_member(kp)?.commit_time(t).build()).map_err(|e| setup_failure(P, "add", &e))?;
        let wb = out.welcome_messages[0].to_bytes().expect("enc");
        let tree = out.ratchet_tree.as_ref().map(|t| t.to_bytes().expect("tree"));
        (out, wb, tree)
    };
    let cb = out.commit_message.to_bytes().expect("enc");
    w.process(b, &cb).map_err(|e| setup_failure(P, "process", &e))?;
    {
        let party = &mut w.parties[a];
        guard(|| party.gm().apply_pending_commit()).map_err(|e| setup_failure(P, "apply", &e))?;
    }
    w.epoch += 1;
    w.commits += 1;
    let mut s = Script { w, victim, ev, pairs, fault_points: 0, fired: 0 };
    {
        // join: no group yet, so only "error, then success on retry" can be checked
        let mut k = 0i64;
        loop {
            let party = &mut s.w.parties[victim];
            party.ctl.arm(k, -1);
            let tr = tree.clone();
            let r = guard(|| {
                let wm = MlsMessage::from_bytes(&welcome)?;
                let tr = match &tr {
                    Some(t) => Some(ExportedTree::from_bytes(t)?),
                    None => None,
                };
                party.client.join_group(tr, &wm, Some(t))
            });
            let fired = party.ctl.fired.load(std::sync::atomic::Ordering::SeqCst);
            party.ctl.reset();
            match (fired, r) {
                (0, Ok((g, _))) => {
                    party.group = Some(g);
                    party.status = Status::Member;
                    party.joined_epoch = s.w.epoch;
                    break;
                }
                (0, Err(e)) => return Err(fail(&format!("retry_after_fault_fails|join_group|{}", e.class()), e.text().into())),
                (_, Ok(_)) => return Err(fail("storage_error_swallowed|join_group", format!("call {k}"))),
                (_, Err(e)) if e.is_panic() => return Err(panic_failure(P, "join_group", &e)),
                (_, Err(_)) => {
                    s.fault_points += 1;
                    ev.eval(1);
                    ev.nontrivial(&("join_group", k));
                    if !s.w.parties[victim].kstore.contains(&[]) && s.w.parties[victim].kstore.count() == 0 {
                        return Err(fail("key_package_lost_by_failed_join", String::new()));
                    }
                }
            }
            k += 1;
            if k > 20 {
                return Err(fail("fault_enumeration_does_not_terminate", "join_group".into()));
            }
        }
    }
    s.w.agree(&[])?;

    let mut held: Vec<Vec<u8>> = vec![];
    for op in &case.ops {
        let r: CaseResult = (|| {
            match pick_weighted(op[0], &[18, 22, 16, 10, 12, 8, 8, 6, 7]) {
                8 => s.external_commit(op[1], op[2]),
                0 => s.write_with(op[2] % 3 == 0),
                1 => s.other_commit(op[1], op[2]),
                2 => s.victim_commit(op[2]),
                3 => {
                    // a message the victim will only see later (possibly in a later epoch)
                    let others = s.others();
                    let snd = others[pick(op[1], others.len())];
                    if s.w.parties[snd].g().commit_required() {
                        return Ok(());
                    }
                    s.w.send_app(snd, vec![op[2] as u8; 12], vec![]).map_err(|e| setup_failure(P, "send", &e))?;
                    let f = s.w.inflight.pop().unwrap();
                    for m in s.others() {
                        if m != snd {
                            s.w.process(m, &f.bytes).map_err(|e| setup_failure(P, "process", &e))?;
                        }
                    }
                    held.push(f.bytes);
                    Ok(())
                }
                4 => {
                    // late delivery (prior epochs: pending inserts, cached updates or storage)
                    let t = s.w.now();
                    let retention = s.w.cfg.retention as u64;
                    let cur = s.w.epoch;
                    for bytes in std::mem::take(&mut held) {
                        let e = MlsMessage::from_bytes(&bytes).ok().and_then(|m| m.epoch()).unwrap_or(0);
                        if e + retention < cur || e < s.w.parties[s.victim].joined_epoch {
                            continue; // may legitimately be gone
                        }
                        s.faulted("process_late_application_message", Kind::Deterministic, |g| {
                            let m = MlsMessage::from_bytes(&bytes)?;
                            match g.process_incoming_message_with_time(m, t) {
                                Ok(_) => Ok(()),
                                // an epoch that is legitimately no longer retained is not a fault effect
                                Err(mls_rs::error::MlsError::EpochNotFound) => Ok(()),
                                Err(e) => Err(e),
                            }
                        })?;
                    }
                    Ok(())
                }
                5 => s.reload(),
                6 => {
                    // current-epoch traffic
                    let others = s.others();
                    let snd = others[pick(op[1], others.len())];
                    if s.w.parties[snd].g().commit_required() {
                        return Ok(());
                    }
                    s.w.send_app(snd, vec![1, 2, 3], vec![]).map_err(|e| setup_failure(P, "send", &e))?;
                    let f = s.w.inflight.pop().unwrap();
                    let t = s.w.now();
                    for m in s.others() {
                        if m != snd {
                            s.w.process(m, &f.bytes).map_err(|e| setup_failure(P, "process", &e))?;
                        }
                    }
                    s.faulted("process_application_message", Kind::Deterministic, |g| g.process_incoming_message_with_time(MlsMessage::from_bytes(&f.bytes)?, t).map(|_| ()))
                }
                _ => {
                    // the victim proposes an update; nothing should touch storage
                    let party = &mut s.w.parties[s.victim];
                    match guard(|| party.gm().propose_update(vec![])) {
                        Ok(m) => {
                            s.w.push_proposal(s.victim, m, vec![]).map_err(|e| setup_failure(P, "encode", &e))?;
                            s.w.flush(0)
                        }
                        Err(e) => Err(setup_failure(P, "propose_update", &e)),
                    }
                }
            }
        })();
        match r {
            Ok(()) => {}
            Err(f) if f.signature == "__known__" => {
                ev.class("scripts_stopped_at_known_finding");
                break;
            }
            Err(f) => return Err(f),
        }
    }
    for p in &s.w.parties {
        let mm = p.gstore.tee_mismatch.lock().unwrap();
        if let Some(first) = mm.first() {
            return Err(fail("storage_providers_disagree", format!("party {}: {first}", p.id)));
        }
    }
    ev.class_n("fault_points", s.fault_points);
    ev.class(&format!("store_{:?}", s.w.cfg.store));
    ev.sample(&format!("s{}", s.fault_points % 5), || json!({"store": format!("{:?}", s.w.cfg.store), "retention": s.w.cfg.retention, "fault_points_enumerated": s.fault_points, "ops": case.ops.len(), "case": case.to_json()}));
    Ok(())
}

pub fn run(ctx: &Ctx) -> ! {
    let ev = Evidence::new(P, ctx.tier, ctx.seed, "fault_enumeration");
    ev.set_rule(
        "generated scripts around one victim member over {in-memory, SQLite, tee} storage and retention 1..4: join by Welcome, writes, commits by others (optionally with external PSK, \
         external commits by outsiders (with and without an injected external PSK), \
         resumption PSK, add), commits by the victim (build + apply, optionally with PSKs), late application messages of prior epochs, reloads, current traffic. For EVERY operation, the storage \
         call with index k = 0, 1, 2, ... (group state, key package and PSK stores share one counter) is made to fail once, until an execution completes without reaching the faulted index \
         (= every storage call of the operation has failed once; thorough: also adjacent pairs). Oracle per fault point: the operation returns an error, the victim's complete state (hook) is \
         canonically unchanged (pending commit kept, received commit not half applied), the next attempt continues; for deterministic operations the final state equals that of a fault-free twin \
         (clone); after writes the stored state loads to the member's state; peers accept the victim's commit; N-way agreement. evaluations = fault points that fired; \
         non-trivial = distinct (operation, call index, storage kind, epoch, state flags).",
    );
    ev.assume("faults are transient single failures of one storage call (pairs in the thorough tier); torn writes inside one storage call are out of scope");
    let pairs = ctx.tier == Tier::Thorough;
    let run = |c: &Case| -> CaseResult { run_case(c, &ev, pairs) };
    if let Some(path) = &ctx.replay {
        let v: serde_json::Value = serde_json::from_str(&std::fs::read_to_string(path).unwrap_or_default()).unwrap_or_default();
        let case = Case::from_json(&v["case"]).unwrap_or_else(|| inconclusive(&ev, "no case"));
        return match run(&case) {
            Ok(()) => finish_ok(&ev),
            Err(f) => finish_violation(&ev, Violation { failure: f, case: Some(case.clone()) }, case.to_json()),
        };
    }
    for (_, v) in load_replays(P) {
        if let Some(case) = Case::from_json(&v["case"]) {
            if let Err(f) = run(&case) {
                finish_violation(&ev, Violation { failure: f, case: Some(case.clone()) }, case.to_json());
            }
        }
    }
    let spec = RunSpec { shards: 16, cases_per_shard: ctx.tier.pick(300, 4000), cfg_len: CFG_LEN, min_ops: 4, max_ops: ctx.tier.pick(14, 24), max_shrink_iters: 300 };
    match run_sharded(&ev, &spec, 15, &run) {
        Ok(()) => finish_ok(&ev),
        Err(v) => {
            let payload = v.case.as_ref().map(|c| c.to_json()).unwrap_or_default();
            finish_violation(&ev, v, payload)
        }
    }
}
