use crate::Ctx;

pub mod c01;
pub mod c12;
pub mod c20;

pub fn dispatch(prop: &str, ctx: &Ctx) -> ! {
    match prop {
        "C01" => c01::run(ctx),
        "C12" => c12::run(ctx),
        "C20" => c20::run(ctx),
        _ => {
            eprintln!("unknown or unimplemented property {prop}");
            std::process::exit(2);
        }
    }
}
