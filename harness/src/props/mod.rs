use crate::Ctx;

pub mod c01;
pub mod c02;
pub mod c03;
pub mod c04;
pub mod c05;
pub mod c06;
pub mod c07;
pub mod c08;
pub mod c09;
pub mod c10;
pub mod c11;
pub mod c12;
pub mod c13;
pub mod c14;
pub mod c15;
pub mod c16;
pub mod c17;
pub mod c18;
pub mod c19;
pub mod c20;

pub fn dispatch(prop: &str, ctx: &Ctx) -> ! {
    match prop {
        "C01" => c01::run(ctx),
        "C02" => c02::run(ctx),
        "C03" => c03::run(ctx),
        "C04" => c04::run(ctx),
        "C05" => c05::run(ctx),
        "C06" => c06::run(ctx),
        "C07" => c07::run(ctx),
        "C08" => c08::run(ctx),
        "C09" => c09::run(ctx),
        "C10" => c10::run(ctx),
        "C11" => c11::run(ctx),
        "C12" => c12::run(ctx),
        "C13" => c13::run(ctx),
        "C14" => c14::run(ctx),
        "C15" => c15::run(ctx),
        "C16" => c16::run(ctx),
        "C17" => c17::run(ctx),
        "C18" => c18::run(ctx),
        "C19" => c19::run(ctx),
        "C20" => c20::run(ctx),
        "CALIBRATE" => {
            println!("tree: {:?}", crate::refmodel::tree::calibrate());
            println!("keysched: {:?}", crate::refmodel::keysched::calibrate());
            std::process::exit(0)
        }
        _ => {
            eprintln!("unknown or unimplemented property {prop}");
            std::process::exit(2);
        }
    }
}
