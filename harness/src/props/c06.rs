//! C06 — a group restored from storage is the same group, at every crash point.
use crate::engine::*;
use crate::history::*;
use crate::props::c04::{diff_components, snap, snap_group};
use crate::providers::StoreKind;
use crate::world::*;
use crate::Ctx;
use mls_rs::verif_hooks::VerifState;
use std::collections::BTreeMap;

const P: &str = "C06";

pub struct Obs {
    ev: &'static Evidence,
    rng: SplitMix,
    /// state of each member at the moment of its last successful write, and the epoch then
    saved: BTreeMap<usize, (VerifState, u64)>,
    pub reloads: u64,
    pub crash_checks: u64,
}

fn fail(what: &str, detail: String) -> Failure {
    Failure::new(format!("{P}|{what}"), detail)
}

/// Difference between a state captured right after a successful write and a loaded state.
/// The in-memory member keeps the reference of the key package it joined with after the write
/// (it is deleted again, idempotently, at every later write) while a loaded member has none:
/// nothing a user can observe, so this component is not compared here (C15 covers the case of a
/// write that failed before the deletion).
fn written_diff(saved: &VerifState, loaded: &VerifState) -> Vec<(String, String)> {
    saved.diff(loaded).into_iter().filter(|(c, _)| c != "pending_key_package_removal").collect()
}

impl Obs {
    fn save(&mut self, w: &mut World, m: usize) -> CaseResult {
        if let Err(e) = w.save(m) {
            return Err(op_failure(P, "write_to_storage", &e));
        }
        let s = snap(w, m)?;
        self.saved.insert(m, (s, w.epoch));
        self.ev.class("writes");
        Ok(())
    }

    fn flags(s: &VerifState) -> String {
        format!(
            "{}{}{}{}",
            if s.has_pending_commit() { "+pending_commit" } else { "" },
            if s.pending_updates() > 0 { "+pending_update" } else { "" },
            if s.cached_proposals() > 0 { "+cached_proposals" } else { "" },
            if s.own_proposals() > 0 { "+own_proposals" } else { "" },
        )
    }

    /// write, drop, load: the loaded member must equal the saved one and replaces it.
    fn save_reload(&mut self, w: &mut World, m: usize, site: &str) -> CaseResult {
        // one time in three the application keeps the ratchet tree itself (tree-less write / load with tree); a twin
        // reads whole snapshots from a storage copy, so members with a twin use the ordinary pair
        let tree_less = self.rng.below(3) == 0 && !w.has_twin(m);
        let site = &format!("{site}{}", if tree_less { "_tree_less" } else { "" });
        if tree_less {
            let tree = w.save_tree_less(m).map_err(|e| op_failure(P, "write_to_storage_without_ratchet_tree", &e))?;
            let s = snap(w, m)?;
            self.saved.insert(m, (s, w.epoch));
            self.ev.class("writes");
            let before = self.saved[&m].0.clone();
            if let Err(e) = w.reload_with_tree(m, &tree) {
                return Err(op_failure(P, "load_group_with_ratchet_tree", &e));
            }
            // a later crash check loads the whole snapshot: write it again in the ordinary way afterwards
            let r = self.compare_after_reload(w, m, site, &before);
            self.save(w, m)?;
            return r;
        }
        self.save(w, m)?;
        let before = self.saved[&m].0.clone();
        if let Err(e) = w.reload(m) {
            return Err(op_failure(P, "load_group", &e));
        }
        self.compare_after_reload(w, m, site, &before)
    }

    fn compare_after_reload(&mut self, w: &mut World, m: usize, site: &str, before: &VerifState) -> CaseResult {
        let before = before.clone();
        let after = snap(w, m)?;
        let d = written_diff(&before, &after);
        self.reloads += 1;
        let fl = Self::flags(&before);
        self.ev.class(&format!("reload{site}{fl}"));
        if !before.strict_eq(&after) && d.is_empty() {
            self.ev.class("reload_byte_unequal_but_canonically_equal");
        }
        if !d.is_empty() {
            return Err(fail(
                &format!("loaded_state_differs_from_saved|diff={}", diff_components(&d)),
                format!("party {m} epoch {} ({site}{fl}, store {:?}): {d:?}", w.epoch, w.cfg.store),
            ));
        }
        if !fl.is_empty() {
            self.ev.nontrivial(&(m, w.epoch, &fl, site));
        }
        Ok(())
    }

    /// "the process died": a fresh instance loaded from storage equals the last written state,
    /// whatever the live member has done since.
    fn crash_check(&mut self, w: &mut World, m: usize) -> CaseResult {
        let Some((saved, saved_epoch)) = self.saved.get(&m).cloned() else { return Ok(()) };
        if w.parties[m].status != Status::Member && w.parties[m].group.is_none() {
            return Ok(());
        }
        let gid = w.group_id.clone();
        let party = &w.parties[m];
        let loaded = {
            let _s = party.ctl.suspend();
            match guard(|| party.client.load_group(&gid)) {
                Ok(g) => g,
                Err(e) if e.is_panic() => return Err(panic_failure(P, "load_group", &e)),
                Err(e) => return Err(fail(&format!("load_after_crash_failed|{}", e.class()), format!("party {m}: {}", e.text()))),
            }
        };
        let after = snap_group(party, &loaded)?;
        let d = written_diff(&saved, &after);
        self.crash_checks += 1;
        let lost = w.epoch - saved_epoch;
        self.ev.class(&format!("crash_check_lost_epochs_{}", lost.min(3)));
        if !d.is_empty() {
            return Err(fail(
                &format!("state_after_crash_differs_from_last_write|diff={}", diff_components(&d)),
                format!("party {m}: written in epoch {saved_epoch}, now epoch {}: {d:?}", w.epoch),
            ));
        }
        if lost > 0 {
            self.ev.nontrivial(&(m, saved_epoch, w.epoch, "crash"));
        }
        Ok(())
    }

    fn check_background(&mut self, w: &mut World) -> CaseResult {
        if let Some(f) = w.twin_failure.take() {
            return Err(f);
        }
        for p in &w.parties {
            let mm = p.gstore.tee_mismatch.lock().unwrap();
            if let Some(first) = mm.first() {
                return Err(fail(
                    "storage_providers_disagree",
                    format!("party {} (retention {}): in-memory vs SQLite: {first} ({} disagreements)", p.id, w.cfg.retention, mm.len()),
                ));
            }
        }
        Ok(())
    }
}

impl Observer for Obs {
    fn extra_op(&mut self, w: &mut World, op: &[u16; 5], _notes: &mut EpochNotes) -> CaseResult {
        let members = w.members();
        if members.is_empty() {
            return Ok(());
        }
        let m = members[pick(op[1], members.len())];
        match pick(op[2], 12) {
            10 | 11 => {
                // A message is overtaken by a commit. The receiver writes its state in the new epoch (the old epoch is now a
                // stored prior epoch), takes the late message, writes again — a write whose only news is the key that the late
                // message consumed — and is reloaded: the loaded copy must have it consumed too.
                let others: Vec<usize> = members.iter().copied().filter(|x| *x != m).collect();
                // (a twin reads a storage copy and is never written: it would keep the epoch record pending where the member has it stored)
                if others.is_empty() || _notes.proposals > 0 || !_notes.pending_adds.is_empty() || members.iter().any(|x| w.has_twin(*x)) {
                    return Ok(());
                }
                let s = others[pick(op[3], others.len())];
                w.flush(op[4])?;
                if members.iter().any(|x| w.parties[*x].g().has_pending_commit() || w.parties[*x].g().commit_required()) {
                    return Ok(());
                }
                w.send_app(s, vec![0x1a; 6], vec![]).map_err(|e| op_failure(P, "encrypt_application_message", &e))?;
                let held = w.inflight.pop().expect("flight");
                for o in others.iter().copied().filter(|x| *x != s) {
                    let r = w.process(o, &held.bytes);
                    w.check_genuine(o, &held, r)?;
                }
                match w.commit_round(s, &CommitSpec::default())? {
                    Ok(_) => {}
                    Err(e) => return Err(op_failure(P, "commit", &e)),
                }
                self.save(w, m)?;
                let r = w.process(m, &held.bytes);
                w.check_genuine(m, &held, r)?;
                self.save_reload(w, m, "_after_a_late_message_of_a_stored_epoch")?;
                match w.process(m, &held.bytes) {
                    Ok(_) => return Err(fail("late_message_accepted_again_after_reload", format!("party {m}: a message of the previous epoch, consumed before the last write, is accepted once more by the loaded copy"))),
                    Err(e) if e.is_panic() => return Err(panic_failure(P, "process_incoming_message(replay)", &e)),
                    Err(_) => self.ev.class("late_message_replay_refused_after_reload"),
                }
            }
            8 | 9 => {
                // messages overtake each other: the receiver consumes the last of a burst, is written and reloaded with the
                // skipped message keys in its ratchet, then gets the earlier ones
                let others: Vec<usize> = members.iter().copied().filter(|x| *x != m).collect();
                if others.is_empty() {
                    return Ok(());
                }
                let s = others[pick(op[3], others.len())];
                w.flush(op[4])?;
                if w.parties[s].g().commit_required() || w.parties[m].g().current_epoch() != w.parties[s].g().current_epoch() {
                    return Ok(());
                }
                // now and then the burst is as long as the receiver may jump ahead (1024 generations) or one short of it: the
                // oldest skipped key is then as far behind the ratchet as a key can be
                let n = if op[3] % 32 == 15 {
                    2049
                } else if op[3] % 8 == 7 {
                    1024 + (op[4] % 2) as usize
                } else {
                    2 + (op[3] % 3) as usize
                };
                if n > 2040 {
                    self.ev.class("bursts_of_two_look_ahead_windows");
                }
                if n > 1000 {
                    self.ev.class("bursts_as_long_as_the_look_ahead_window");
                }
                let mut fl = vec![];
                for i in 0..n {
                    w.send_app(s, vec![i as u8; 4 + i], vec![]).map_err(|e| op_failure(P, "encrypt_application_message", &e))?;
                    fl.push(w.inflight.pop().expect("flight"));
                }
                let last = fl.len() - 1;
                if n > 2040 {
                    // two jumps of the full window: more skipped keys than one window holds
                    let mid = last / 2;
                    let r = w.process(m, &fl[mid].bytes);
                    w.check_genuine(m, &fl[mid], r)?;
                }
                let r = w.process(m, &fl[last].bytes);
                w.check_genuine(m, &fl[last], r)?;
                self.save_reload(w, m, "_with_skipped_message_keys")?;
                for (i, f) in fl[..last].iter().enumerate() {
                    if n > 2040 && i == last / 2 {
                        continue;
                    }
                    let r = w.process(m, &f.bytes);
                    w.check_genuine(m, f, r)?;
                }
                for o in members.iter().copied().filter(|x| *x != m && *x != s) {
                    for f in &fl {
                        let r = w.process(o, &f.bytes);
                        w.check_genuine(o, f, r)?;
                    }
                }
            }
            0..=2 => self.save_reload(w, m, "")?,
            3 | 4 => {
                match w.spawn_twin(m) {
                    Ok(()) => {
                        let s = snap(w, m)?;
                        self.saved.insert(m, (s, w.epoch));
                        self.ev.class("twins_spawned");
                    }
                    Err(e) => return Err(op_failure(P, "write_to_storage/load_group (twin)", &e)),
                }
            }
            5 | 6 => self.save(w, m)?,
            _ => self.crash_check(w, m)?,
        }
        // storage level: a write that fails half-way (SQLite: a duplicate epoch record) leaves the stored state untouched
        if op[4] % 4 == 0 {
            let gid = w.group_id.clone();
            match w.parties[m].gstore.failed_write_leaves_no_trace(&gid) {
                None => {}
                Some(Ok(())) => self.ev.class("failed_sqlite_writes_left_no_trace"),
                Some(Err(d)) => return Err(fail("failed_write_changed_stored_state", format!("party {m}: {d}"))),
            }
        }
        self.check_background(w)
    }

    fn after_build(&mut self, w: &mut World, committer: usize) -> CaseResult {
        // the committer writes and is reloaded while its commit is pending
        if self.rng.below(3) == 0 {
            self.save_reload(w, committer, "_after_build")?;
            if !w.parties[committer].g().has_pending_commit() {
                return Err(fail("pending_commit_lost_by_reload", format!("party {committer}")));
            }
        }
        Ok(())
    }

    fn after_commit(&mut self, w: &mut World, info: &CommitInfo, _st: &HistoryStats) -> CaseResult {
        // a party that left the group has nothing to restore any more
        for r in &info.removed {
            self.saved.remove(r);
        }
        for j in &info.joined {
            self.saved.remove(j);
        }
        self.check_background(w)
    }

    fn end(&mut self, w: &mut World, _st: &HistoryStats) -> CaseResult {
        for m in w.members() {
            self.crash_check(w, m)?;
        }
        // a new process that opens the same in-memory store with another retention setting sees what was written
        for m in w.members() {
            let party = &w.parties[m];
            if let Some(mem) = &party.gstore.mem {
                let before = mem.stored_groups();
                match mem.clone().with_max_epoch_retention(party.gstore.retention + 2) {
                    Ok(reopened) => {
                        let after = reopened.stored_groups();
                        if before != after {
                            return Err(fail("store_reopened_with_other_retention_lost_its_groups", format!("party {m}: {} groups before, {} after", before.len(), after.len())));
                        }
                        self.ev.class("in_memory_store_reopened_with_other_retention");
                    }
                    Err(e) => return Err(fail("with_max_epoch_retention_failed", format!("{e:?}"))),
                }
            }
        }
        self.ev.class_n("twin_lockstep_checks", w.twin_checks);
        let compared: u64 = w.parties.iter().map(|p| p.gstore.tee_compared.load(std::sync::atomic::Ordering::Relaxed)).sum();
        self.ev.class_n("tee_storage_answers_compared", compared);
        self.check_background(w)
    }
}

pub fn run(ctx: &Ctx) -> ! {
    let mut hp = HistoryParams::standard(ctx.tier);
    hp.weights = [8, 8, 7, 2, 2, 2, 2, 24, 3, 8, 3, 26];
    hp.stores = vec![StoreKind::Mem, StoreKind::Sql, StoreKind::Tee, StoreKind::Tee];
    hp.max_initial = ctx.tier.pick(6, 12);
    hp.allow_mixed_providers = false;
    let spec = RunSpec {
        shards: 16,
        cases_per_shard: ctx.tier.pick(60, 300),
        cfg_len: CFG_LEN,
        min_ops: 4,
        max_ops: ctx.tier.pick(28, 60),
        max_shrink_iters: 300,
    };
    run_property(
        ctx,
        P,
        "fault_enumeration",
        "C01-style histories over storage kinds {in-memory, SQLite, tee of both} and retention 1..5 with, at generated positions: write+drop+load of a member (also right after it built a \
         commit that is still pending); plain writes; 'crash checks' (a fresh instance is loaded from storage whatever the live member did since its last write); twins (a second instance \
         loaded from a copy of the storage and fed the same incoming messages as long as the member only receives). Oracles: (1) loaded state == state at the moment of the last write under \
         canonical equality, incl. pending commit, cached and own proposals, pending updates; (2) the reloaded member goes on in the history (agreement, cross-decryption, applying its restored \
         pending commit); (3) member and twin stay canonically equal after every delivery; (4) the tee store compares every state/epoch/max_epoch_id answer and, after every write, the full set of \
         retrievable epochs of both shipped providers. Bursts as long as the 1024-generation look-ahead window precede some reloads; on a deep copy of a SQLite store, a write with an already stored epoch record fails and must leave snapshot and records as they were. A message overtaken by a commit is taken after the receiver wrote in the new epoch; the receiver writes again, is reloaded and must refuse the replay; some bursts span two look-ahead windows (two jumps, 2049 messages). Crash points are at API-call granularity. Non-trivial = reload with pending commit / cached proposals / pending update, or crash check with lost epochs.",
        &hp,
        spec,
        &|case, ev| Obs { ev, rng: SplitMix::new(((case.c(7) as u64) << 16) | case.c(8) as u64, 6), saved: BTreeMap::new(), reloads: 0, crash_checks: 0 },
        &|_, o| {
            o.ev.class_n("reloads", o.reloads);
            o.ev.class_n("crash_checks", o.crash_checks);
            false
        },
    )
}
