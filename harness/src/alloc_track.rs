//! Thread-local counting allocator: measures peak heap growth inside a tracked region
//! (used by C12 to detect allocations driven by unchecked length fields).
use std::alloc::{GlobalAlloc, Layout, System};
use std::cell::Cell;

pub struct CountingAlloc;

thread_local! {
    static TRACK: Cell<bool> = const { Cell::new(false) };
    static CUR: Cell<isize> = const { Cell::new(0) };
    static PEAK: Cell<isize> = const { Cell::new(0) };
    static MAX_SINGLE: Cell<usize> = const { Cell::new(0) };
}

#[inline]
fn add(n: isize, single: usize) {
    let _ = TRACK.try_with(|t| {
        if t.get() {
            let _ = CUR.try_with(|c| {
                let v = c.get() + n;
                c.set(v);
                let _ = PEAK.try_with(|p| {
                    if v > p.get() {
                        p.set(v)
                    }
                });
            });
            if single > 0 {
                let _ = MAX_SINGLE.try_with(|m| {
                    if single > m.get() {
                        m.set(single)
                    }
                });
            }
        }
    });
}

unsafe impl GlobalAlloc for CountingAlloc {
    unsafe fn alloc(&self, layout: Layout) -> *mut u8 {
        add(layout.size() as isize, layout.size());
        System.alloc(layout)
    }
    unsafe fn dealloc(&self, ptr: *mut u8, layout: Layout) {
        add(-(layout.size() as isize), 0);
        System.dealloc(ptr, layout)
    }
    unsafe fn alloc_zeroed(&self, layout: Layout) -> *mut u8 {
        add(layout.size() as isize, layout.size());
        System.alloc_zeroed(layout)
    }
    unsafe fn realloc(&self, ptr: *mut u8, layout: Layout, new_size: usize) -> *mut u8 {
        add(new_size as isize - layout.size() as isize, new_size);
        System.realloc(ptr, layout, new_size)
    }
}

/// Runs `f` and returns (result, peak heap growth in bytes, largest single allocation request).
pub fn measure<T>(f: impl FnOnce() -> T) -> (T, usize, usize) {
    CUR.with(|c| c.set(0));
    PEAK.with(|p| p.set(0));
    MAX_SINGLE.with(|m| m.set(0));
    TRACK.with(|t| t.set(true));
    let r = f();
    TRACK.with(|t| t.set(false));
    let peak = PEAK.with(|p| p.get()).max(0) as usize;
    let single = MAX_SINGLE.with(|m| m.get());
    (r, peak, single)
}
