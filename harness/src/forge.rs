//! Insider commit forger (C03, insider model): a current member builds a complete commit *by hand* — fresh path
//! secrets, node key pairs, HPKE encryption to the copath resolutions under the provisional group context, parent
//! hashes, leaf and content signatures, confirmation tag, membership tag — with the independent reference model
//! (`refmodel`) and the member's own crypto provider, sharing no code with the library's commit builder.
//!
//! With an empty `Tamper` the result is an honest commit: receivers must accept it and arrive at the epoch
//! authenticator predicted here (the positive control, which also calibrates the whole model end to end).
//! Every other `Tamper` changes exactly one thing while everything else stays consistent, so that a receiver's
//! verdict is decided by the one check that is supposed to notice it.

use crate::providers::VSuite;
use crate::refmodel::keysched as rk;
use crate::refmodel::tls::{put_opaque, Reader};
use crate::refmodel::tree::{HashAlg, RefNode, RefParent, RefTreeNodes};
use crate::refmodel::wire;
use mls_rs::crypto::{HpkePublicKey, SignatureSecretKey};
use mls_rs::CipherSuiteProvider;

#[derive(Clone, Debug, Default, PartialEq)]
pub struct Tamper {
    /// announce an unrelated (fresh) public key at this position of the filtered direct path; secrets stay honest
    pub foreign_key_at: Option<usize>,
    /// (path position, index in the copath resolution): that recipient gets an unrelated path secret
    pub wrong_secret_for: Option<(usize, usize)>,
    /// the last ciphertext of this path position is left out
    pub drop_ciphertext_at: Option<usize>,
    /// one more ciphertext than the resolution has members at this path position
    pub extra_ciphertext_at: Option<usize>,
    /// a confirmation tag computed with the right key over a wrong transcript hash
    pub wrong_confirmation_tag: bool,
    /// send only the first k (>= 1) nodes of the path; everything else (parent hashes over the old upper nodes, commit
    /// secret = the path secret after the last node sent, tags) is made consistent with that
    pub truncate_to: Option<usize>,
    /// the committer's leaf carries only the first k bytes of its (otherwise right) parent hash, k = 0: none at all;
    /// everything after that (leaf signature, tree hash, HPKE context, tags) is computed over that leaf
    pub leaf_parent_hash_prefix: Option<usize>,
    /// the commit's proposal list (content of `ProposalOrRef proposals<V>`, without the length prefix) instead of the
    /// genuine commit's; only proposals that leave the tree and the PSK secret alone
    pub proposals: Option<Vec<u8>>,
    /// encoded ExtensionList of the new epoch's group context (what a GroupContextExtensions proposal in `proposals` sets)
    pub context_extensions: Option<Vec<u8>>,
}

pub struct ForgeInput<'a> {
    pub suite: u16,
    pub csp: &'a VSuite,
    /// a genuine public commit of the same sender in the same epoch: the framing, the proposals and the leaf's
    /// static fields (credential, capabilities, extensions, HPKE key) are copied from it
    pub genuine: &'a [u8],
    /// exported ratchet tree of the current epoch (the commit must not carry tree-changing proposals)
    pub tree: &'a [u8],
    /// encoded GroupContext of the current epoch
    pub group_context: &'a [u8],
    pub init_secret: &'a [u8],
    pub membership_key: &'a [u8],
    pub interim_transcript_hash: &'a [u8],
    pub leaf_index: u32,
    pub leaf_signer: &'a SignatureSecretKey,
    pub content_signer: &'a SignatureSecretKey,
    /// source of the fresh path secret
    pub seed: &'a [u8],
}

pub struct Forged {
    pub bytes: Vec<u8>,
    /// what every receiver must hold after accepting the honest commit
    pub epoch_authenticator: Vec<u8>,
    pub new_tree_hash: Vec<u8>,
    /// filtered direct path of the sender: (path node, copath node), bottom-up
    pub fdp: Vec<(u32, u32)>,
    /// per path position, the leaves below the copath node, and for each the index of the resolution node it decrypts from
    pub resolution: Vec<Vec<u32>>,
}

fn sign(csp: &VSuite, key: &SignatureSecretKey, label: &str, content: &[u8]) -> Option<Vec<u8>> {
    let mut sc = vec![];
    put_opaque(&mut sc, format!("MLS 1.0 {label}").as_bytes());
    put_opaque(&mut sc, content);
    csp.sign(key, &sc).ok()
}

fn node_key(t: &RefTreeNodes, x: u32) -> Option<Vec<u8>> {
    match &t.nodes[x as usize] {
        RefNode::Leaf(l) => Some(l.encryption_key.clone()),
        RefNode::Parent(p) => Some(p.encryption_key.clone()),
        RefNode::Blank => None,
    }
}

/// Position in the sender's filtered direct path of the lowest node that is an ancestor of `leaf` (None: not below any).
pub fn lca_position(t: &RefTreeNodes, fdp: &[(u32, u32)], leaf: u32) -> Option<usize> {
    fdp.iter().position(|(_, c)| {
        let (lo, hi) = t.math.range[*c as usize];
        leaf >= lo && leaf < hi
    })
}

pub fn forge(inp: &ForgeInput, tamper: &Tamper) -> Option<Forged> {
    let s = rk::Suite::new(inp.suite);
    let alg = HashAlg::for_suite(inp.suite);
    let pm = wire::parse_public_message(inp.genuine)?;
    let span = |n: &str| pm.spans.iter().find(|x| x.name == n).cloned();
    let leaf_sp = span("commit.path.leaf_node")?;
    let lf = |n: &str| span(&format!("commit.path.leaf_node.{n}"));
    let (l_sigkey, l_ph, l_ext) = (lf("signature_key")?, lf("parent_hash")?, lf("extensions")?);
    let mut tree = RefTreeNodes::parse(inp.tree)?;
    let fdp = tree.filtered_direct_path(inp.leaf_index);
    if fdp.is_empty() {
        return None;
    }

    // group context pieces
    let mut r = Reader::new(inp.group_context);
    let version = r.u16()?;
    let suite = r.u16()?;
    let group_id = r.opaque()?.to_vec();
    let epoch = r.u64()?;
    let _old_tree_hash = r.opaque()?;
    let old_cth = r.opaque()?.to_vec();
    let ext_start = r.pos;
    r.opaque()?;
    let ext_raw = tamper.context_extensions.clone().unwrap_or_else(|| inp.group_context[ext_start..r.pos].to_vec());
    let ctx = |epoch: u64, tree_hash: &[u8], cth: &[u8]| -> Vec<u8> {
        let mut out = vec![];
        out.extend_from_slice(&version.to_be_bytes());
        out.extend_from_slice(&suite.to_be_bytes());
        put_opaque(&mut out, &group_id);
        out.extend_from_slice(&epoch.to_be_bytes());
        put_opaque(&mut out, tree_hash);
        put_opaque(&mut out, cth);
        out.extend_from_slice(&ext_raw);
        out
    };

    // path secrets, bottom-up: path_secret[0] fresh, path_secret[n] = DeriveSecret(path_secret[n-1], "path")
    let sent = match tamper.truncate_to {
        Some(k) if k >= 1 && k < fdp.len() => k,
        Some(_) => return None,
        None => fdp.len(),
    };
    let mut path_secrets = vec![s.expand_with_label(inp.seed, b"verif forged path", &[], s.nh())];
    for _ in 1..sent {
        let next = s.derive_secret(path_secrets.last().unwrap(), b"path");
        path_secrets.push(next);
    }
    let commit_secret = s.derive_secret(path_secrets.last().unwrap(), b"path");
    let mut pubs: Vec<Vec<u8>> = vec![];
    for ps in &path_secrets {
        let node_secret = s.derive_secret(ps, b"node");
        let (_, pk) = inp.csp.kem_derive(&node_secret).ok()?;
        pubs.push(pk.as_ref().to_vec());
    }
    if let Some(j) = tamper.foreign_key_at {
        let (_, pk) = inp.csp.kem_generate().ok()?;
        *pubs.get_mut(j)? = pk.as_ref().to_vec();
    }

    // install the path, compute the parent hash chain top-down, then the leaf
    for (i, (p, _)) in fdp.iter().enumerate().take(sent) {
        tree.nodes[*p as usize] = RefNode::Parent(RefParent { encryption_key: pubs[i].clone(), parent_hash: vec![], unmerged: vec![], raw: vec![] });
    }
    let mut hash: Vec<u8> = vec![];
    for (p, c) in fdp.iter().rev() {
        let sib = tree.tree_hash_of(alg, *c);
        let RefNode::Parent(pn) = &mut tree.nodes[*p as usize] else { return None };
        pn.parent_hash = hash.clone();
        let mut input = vec![];
        put_opaque(&mut input, &pn.encryption_key);
        put_opaque(&mut input, &pn.parent_hash);
        put_opaque(&mut input, &sib);
        hash = alg.hash(&input);
    }
    if let Some(k) = tamper.leaf_parent_hash_prefix {
        hash.truncate(k.min(hash.len().saturating_sub(1)));
    }
    let g = inp.genuine;
    let mut lbody = g[leaf_sp.start..l_sigkey.end].to_vec();
    lbody.extend_from_slice(&g[l_sigkey.end..l_ph.start]);
    put_opaque(&mut lbody, &hash);
    lbody.extend_from_slice(&g[l_ext.start..l_ext.end]);
    let mut tbs = lbody.clone();
    put_opaque(&mut tbs, &group_id);
    tbs.extend_from_slice(&inp.leaf_index.to_be_bytes());
    let lsig = sign(inp.csp, inp.leaf_signer, "LeafNodeTBS", &tbs)?;
    let mut new_leaf = lbody;
    put_opaque(&mut new_leaf, &lsig);
    {
        let mut lr = Reader::new(&new_leaf);
        let parsed = crate::refmodel::tree::parse_leaf(&mut lr)?;
        tree.nodes[2 * inp.leaf_index as usize] = RefNode::Leaf(parsed);
    }
    let new_tree_hash = tree.root_tree_hash(alg);

    // HPKE: path_secret[i] to every node of the resolution of copath[i], under the provisional group context
    let provisional = ctx(epoch + 1, &new_tree_hash, &old_cth);
    let mut info = vec![];
    put_opaque(&mut info, b"MLS 1.0 UpdatePathNode");
    put_opaque(&mut info, &provisional);
    let mut nodes_enc = vec![];
    let mut resolution = vec![];
    for (i, (_, c)) in fdp.iter().enumerate().take(sent) {
        let reso = tree.resolution(*c);
        resolution.push(reso.clone());
        let mut cts = vec![];
        let n = reso.len();
        for (k, x) in reso.iter().enumerate() {
            if tamper.drop_ciphertext_at == Some(i) && k + 1 == n {
                continue;
            }
            let pk = HpkePublicKey::from(node_key(&tree, *x)?);
            let secret = if tamper.wrong_secret_for == Some((i, k)) { s.derive_secret(&path_secrets[i], b"verif unrelated") } else { path_secrets[i].clone() };
            let ct = inp.csp.hpke_seal(&pk, &info, None, &secret).ok()?;
            put_opaque(&mut cts, &ct.kem_output);
            put_opaque(&mut cts, &ct.ciphertext);
        }
        if tamper.extra_ciphertext_at == Some(i) {
            let (_, pk) = inp.csp.kem_generate().ok()?;
            let ct = inp.csp.hpke_seal(&pk, &info, None, &path_secrets[i]).ok()?;
            put_opaque(&mut cts, &ct.kem_output);
            put_opaque(&mut cts, &ct.ciphertext);
        }
        put_opaque(&mut nodes_enc, &pubs[i]);
        put_opaque(&mut nodes_enc, &cts);
    }

    // framed content, signature, transcript, key schedule, tags
    let mut framed = match (&tamper.proposals, span("commit.proposals")) {
        (Some(p), Some(ps)) => {
            let mut f = g[pm.framed.start..ps.start].to_vec();
            put_opaque(&mut f, p);
            f.extend_from_slice(&g[ps.end..leaf_sp.start]);
            f
        }
        (Some(_), None) => return None,
        _ => g[pm.framed.start..leaf_sp.start].to_vec(),
    };
    framed.extend_from_slice(&new_leaf);
    put_opaque(&mut framed, &nodes_enc);
    let mut ftbs = vec![];
    ftbs.extend_from_slice(&pm.version.to_be_bytes());
    ftbs.extend_from_slice(&1u16.to_be_bytes());
    ftbs.extend_from_slice(&framed);
    ftbs.extend_from_slice(inp.group_context);
    let fsig = sign(inp.csp, inp.content_signer, "FramedContentTBS", &ftbs)?;
    let cth = rk::confirmed_transcript_hash(&s, inp.interim_transcript_hash, 1, &framed, &fsig);
    let new_ctx = ctx(epoch + 1, &new_tree_hash, &cth);
    let zero = vec![0u8; s.nh()];
    let es = rk::key_schedule(&s, inp.init_secret, &commit_secret, &new_ctx, &zero);
    let tag = if tamper.wrong_confirmation_tag { rk::confirmation_tag(&s, &es.confirmation_key, &old_cth) } else { rk::confirmation_tag(&s, &es.confirmation_key, &cth) };
    let mut auth = vec![];
    put_opaque(&mut auth, &fsig);
    put_opaque(&mut auth, &tag);
    let mut out = vec![];
    out.extend_from_slice(&pm.version.to_be_bytes());
    out.extend_from_slice(&1u16.to_be_bytes());
    out.extend_from_slice(&framed);
    out.extend_from_slice(&auth);
    let mtag = rk::membership_tag(&s, inp.membership_key, pm.version, 1, &framed, inp.group_context, &auth);
    put_opaque(&mut out, &mtag);
    Some(Forged { bytes: out, epoch_authenticator: es.epoch_authenticator, new_tree_hash, fdp, resolution })
}

// ---------------------------------------------------------------------------------------------
// Welcome re-sealing: anybody who knows the joiner secret (every member of the new epoch) can open the encrypted
// GroupInfo of a Welcome, change it and seal it again for a joiner. Here the joiner's own key package secrets stand in
// for the insider's knowledge of the joiner secret (same bytes).

#[derive(Clone, Debug, PartialEq)]
pub enum GroupInfoEdit {
    /// nothing changed: the re-sealed Welcome must be accepted (positive control)
    None,
    /// one bit of the GroupInfo signature flipped
    SignatureBit(usize),
    /// signer field names another leaf, signature left alone
    SignerIndex(u32),
    /// confirmation tag changed and the GroupInfo properly re-signed with the given key (the real signer's)
    ConfirmationTagResigned(SignatureSecretKey),
    /// epoch in the group context changed and the GroupInfo properly re-signed
    EpochResigned(SignatureSecretKey),
    /// GroupInfo untouched; the GroupSecrets carry an unrelated path secret (added when there was none)
    UnrelatedPathSecret,
    /// Nothing inside changes, but the entry is addressed to another key package of the same joiner: (encoded KeyPackage,
    /// its init public key). That key package is not the one the commit added.
    AddressedToOtherKeyPackage(Vec<u8>, Vec<u8>),
}

pub struct ResealedWelcome {
    pub bytes: Vec<u8>,
    pub signer: u32,
}

pub fn reseal_welcome(suite: u16, csp: &VSuite, welcome: &[u8], lookup: &dyn Fn(&[u8]) -> Option<(Vec<u8>, Vec<u8>)>, edit: &GroupInfoEdit) -> Option<ResealedWelcome> {
    use mls_rs::crypto::{HpkeCiphertext, HpkeSecretKey};
    let s = rk::Suite::new(suite);
    let mut r = Reader::new(welcome);
    let version = r.u16()?;
    if r.u16()? != 3 {
        return None;
    }
    let cs = r.u16()?;
    let mut secrets = r.vector()?;
    let egi = r.opaque()?.to_vec();
    // the entry of a joiner whose key package secrets we hold
    let mut mine = None;
    while !secrets.is_empty() {
        let new_member = secrets.opaque()?.to_vec();
        let kem_output = secrets.opaque()?.to_vec();
        let ciphertext = secrets.opaque()?.to_vec();
        if mine.is_none() {
            if let Some((init_sk, init_pk)) = lookup(&new_member) {
                mine = Some((new_member, kem_output, ciphertext, init_sk, init_pk));
            }
        }
    }
    let (new_member, kem_output, ciphertext, init_sk, init_pk) = mine?;
    let info = |egi: &[u8]| {
        let mut i = vec![];
        put_opaque(&mut i, b"MLS 1.0 Welcome");
        put_opaque(&mut i, egi);
        i
    };
    let (sk, pk) = (HpkeSecretKey::from(init_sk), HpkePublicKey::from(init_pk));
    let gs = csp.hpke_open(&HpkeCiphertext { kem_output, ciphertext }, &sk, &pk, &info(&egi), None).ok()?;
    // GroupSecrets: joiner_secret<V>, optional<PathSecret>, psks<V>
    let mut g = Reader::new(&gs);
    let joiner = g.opaque()?.to_vec();
    if g.u8()? == 1 {
        g.opaque()?;
    }
    if !g.opaque()?.is_empty() {
        return None; // a PSK goes into the welcome key: not modelled here
    }
    let gs = if *edit == GroupInfoEdit::UnrelatedPathSecret {
        let mut n = vec![];
        put_opaque(&mut n, &joiner);
        n.push(1);
        put_opaque(&mut n, &s.derive_secret(&joiner, b"verif unrelated path secret"));
        put_opaque(&mut n, &[]);
        n
    } else {
        gs.to_vec()
    };
    let es = rk::from_joiner(&s, &joiner, &[], &vec![0u8; s.nh()]);
    let gi = csp.aead_open(&es.welcome_key, &egi, None, &es.welcome_nonce).ok()?.to_vec();
    // GroupInfo: GroupContext, extensions<V>, confirmation_tag<V>, signer, signature<V>
    let mut p = Reader::new(&gi);
    let c_version = p.u16()?;
    let c_suite = p.u16()?;
    let c_gid = p.opaque()?.to_vec();
    let c_epoch = p.u64()?;
    let c_tree_hash = p.opaque()?.to_vec();
    let c_cth = p.opaque()?.to_vec();
    let c_ext_start = p.pos;
    p.opaque()?;
    let c_ext = gi[c_ext_start..p.pos].to_vec();
    let gi_ext_start = p.pos;
    p.opaque()?;
    let gi_ext = gi[gi_ext_start..p.pos].to_vec();
    let mut tag = p.opaque()?.to_vec();
    let mut signer = p.u32()?;
    let mut signature = p.opaque()?.to_vec();
    if !p.is_empty() {
        return None;
    }
    let mut epoch = c_epoch;
    let mut resign: Option<&SignatureSecretKey> = None;
    match edit {
        GroupInfoEdit::None | GroupInfoEdit::UnrelatedPathSecret | GroupInfoEdit::AddressedToOtherKeyPackage(..) => {}
        GroupInfoEdit::SignatureBit(i) => {
            let n = signature.len();
            signature[i % n] ^= 1 << (i % 8);
        }
        GroupInfoEdit::SignerIndex(l) => signer = *l,
        GroupInfoEdit::ConfirmationTagResigned(k) => {
            let n = tag.len();
            tag[n / 2] ^= 0x08;
            resign = Some(k);
        }
        GroupInfoEdit::EpochResigned(k) => {
            epoch += 1;
            resign = Some(k);
        }
    }
    let mut tbs = vec![];
    tbs.extend_from_slice(&c_version.to_be_bytes());
    tbs.extend_from_slice(&c_suite.to_be_bytes());
    put_opaque(&mut tbs, &c_gid);
    tbs.extend_from_slice(&epoch.to_be_bytes());
    put_opaque(&mut tbs, &c_tree_hash);
    put_opaque(&mut tbs, &c_cth);
    tbs.extend_from_slice(&c_ext);
    tbs.extend_from_slice(&gi_ext);
    put_opaque(&mut tbs, &tag);
    tbs.extend_from_slice(&signer.to_be_bytes());
    if let Some(k) = resign {
        signature = sign(csp, k, "GroupInfoTBS", &tbs)?;
    }
    let mut gi2 = tbs;
    put_opaque(&mut gi2, &signature);
    let egi2 = csp.aead_seal(&es.welcome_key, &gi2, None, &es.welcome_nonce).ok()?;
    // KeyPackageRef = RefHash("MLS 1.0 KeyPackage Reference", KeyPackage)
    let (pk, new_member) = match edit {
        GroupInfoEdit::AddressedToOtherKeyPackage(kp, init_pk) => {
            let mut input = vec![];
            put_opaque(&mut input, b"MLS 1.0 KeyPackage Reference");
            put_opaque(&mut input, kp);
            (HpkePublicKey::from(init_pk.clone()), s.hash(&input))
        }
        _ => (pk, new_member),
    };
    let ct = csp.hpke_seal(&pk, &info(&egi2), None, &gs).ok()?;
    let mut entry = vec![];
    put_opaque(&mut entry, &new_member);
    put_opaque(&mut entry, &ct.kem_output);
    put_opaque(&mut entry, &ct.ciphertext);
    let mut out = vec![];
    out.extend_from_slice(&version.to_be_bytes());
    out.extend_from_slice(&3u16.to_be_bytes());
    out.extend_from_slice(&cs.to_be_bytes());
    put_opaque(&mut out, &entry);
    put_opaque(&mut out, &egi2);
    Some(ResealedWelcome { bytes: out, signer })
}


/// A member's public message with a changed confirmation tag and a membership tag recomputed over it (what the sender,
/// or any member, can produce): everything up to the confirmation tag check passes.
pub fn wrong_confirmation_tag(suite: u16, genuine: &[u8], membership_key: &[u8], group_context: &[u8]) -> Option<Vec<u8>> {
    let s = rk::Suite::new(suite);
    let pm = wire::parse_public_message(genuine)?;
    pm.membership_tag?;
    let tag = pm.confirmation_tag?;
    let mut t2 = tag.to_vec();
    let n = t2.len();
    if n == 0 {
        return None;
    }
    t2[n - 1] ^= 0x01;
    let mut auth = vec![];
    put_opaque(&mut auth, pm.signature);
    put_opaque(&mut auth, &t2);
    let mut out = vec![];
    out.extend_from_slice(&pm.version.to_be_bytes());
    out.extend_from_slice(&1u16.to_be_bytes());
    out.extend_from_slice(pm.framed_content);
    out.extend_from_slice(&auth);
    // the rebuilt unmodified message must be the genuine one, otherwise the keys are of another epoch
    let check = rk::membership_tag(&s, membership_key, pm.version, 1, pm.framed_content, group_context, pm.auth_data);
    if pm.membership_tag != Some(&check[..]) {
        return None;
    }
    let mtag = rk::membership_tag(&s, membership_key, pm.version, 1, pm.framed_content, group_context, &auth);
    put_opaque(&mut out, &mtag);
    Some(out)
}


/// A member's public Remove proposal re-aimed at another leaf: content changed, signature and membership tag recomputed with
/// the sender's own keys (what a client that does not check its arguments would send).
pub fn retarget_remove_proposal(suite: u16, csp: &VSuite, genuine: &[u8], new_leaf: u32, signer: &SignatureSecretKey, membership_key: &[u8], group_context: &[u8]) -> Option<Vec<u8>> {
    let s = rk::Suite::new(suite);
    let pm = wire::parse_public_message(genuine)?;
    pm.membership_tag?;
    let sp = pm.spans.iter().find(|x| x.name.ends_with("remove.leaf"))?;
    let mut framed = pm.framed_content.to_vec();
    let off = sp.start - pm.framed.start;
    framed[off..off + 4].copy_from_slice(&new_leaf.to_be_bytes());
    let mut ftbs = vec![];
    ftbs.extend_from_slice(&pm.version.to_be_bytes());
    ftbs.extend_from_slice(&1u16.to_be_bytes());
    ftbs.extend_from_slice(&framed);
    ftbs.extend_from_slice(group_context);
    let sig = sign(csp, signer, "FramedContentTBS", &ftbs)?;
    let mut auth = vec![];
    put_opaque(&mut auth, &sig);
    let mut out = vec![];
    out.extend_from_slice(&pm.version.to_be_bytes());
    out.extend_from_slice(&1u16.to_be_bytes());
    out.extend_from_slice(&framed);
    out.extend_from_slice(&auth);
    let mtag = rk::membership_tag(&s, membership_key, pm.version, 1, &framed, group_context, &auth);
    put_opaque(&mut out, &mtag);
    Some(out)
}


/// What a listed external sender that does not respect the sender rules could send: the body of a member's genuine public
/// proposal (e.g. an Update) re-framed with `sender = external(index)` and signed with the external sender's key.
pub fn reframe_proposal_as_external(csp: &VSuite, genuine_member_proposal: &[u8], ext_index: u32, ext_signer: &SignatureSecretKey) -> Option<Vec<u8>> {
    let pm = wire::parse_public_message(genuine_member_proposal)?;
    if pm.framed.content_type != 2 {
        return None;
    }
    let g = genuine_member_proposal;
    let sender_type = pm.spans.iter().find(|x| x.name == "sender_type")?;
    let sender_index = pm.spans.iter().find(|x| x.name == "sender_index")?;
    let mut framed = g[pm.framed.start..sender_type.start].to_vec();
    framed.push(2); // external
    framed.extend_from_slice(&ext_index.to_be_bytes());
    framed.extend_from_slice(&g[sender_index.end..pm.framed.end]);
    let mut ftbs = vec![];
    ftbs.extend_from_slice(&pm.version.to_be_bytes());
    ftbs.extend_from_slice(&1u16.to_be_bytes());
    ftbs.extend_from_slice(&framed);
    let sig = sign(csp, ext_signer, "FramedContentTBS", &ftbs)?;
    let mut out = vec![];
    out.extend_from_slice(&pm.version.to_be_bytes());
    out.extend_from_slice(&1u16.to_be_bytes());
    out.extend_from_slice(&framed);
    put_opaque(&mut out, &sig);
    Some(out)
}

/// A key package of `party_id` (not yet a member) whose init key is replaced by `f(init_key)`, signed again
/// ("KeyPackageTBS") by its owner: a correctly signed key package with an unusable HPKE init key.
pub fn key_package_with_init_key(w: &mut crate::world::World, party_id: usize, f: impl Fn(&[u8]) -> Vec<u8>) -> Option<Vec<u8>> {
    use crate::refmodel::tls::{put_opaque, Reader};
    let suite = w.cfg.suite;
    let good = w.key_package(party_id).ok()?.to_bytes().ok()?;
    // MLSMessage(KeyPackage): version, wire_format, KeyPackage { version, cipher_suite, init_key<V>, leaf_node, extensions<V>, signature<V> }
    let mut r = Reader::new(&good);
    r.u16()?;
    r.u16()?;
    let kp_start = r.pos;
    r.u16()?;
    r.u16()?;
    let head_end = r.pos;
    let init = r.opaque()?.to_vec();
    let leaf_start = r.pos;
    crate::refmodel::tree::parse_leaf(&mut r)?;
    r.opaque()?;
    let tbs_tail_end = r.pos;
    let mut tbs = good[kp_start..head_end].to_vec();
    put_opaque(&mut tbs, &f(&init));
    tbs.extend_from_slice(&good[leaf_start..tbs_tail_end]);
    let mut sc = vec![];
    put_opaque(&mut sc, b"MLS 1.0 KeyPackageTBS");
    put_opaque(&mut sc, &tbs);
    let p = &w.parties[party_id];
    let sig = mls_rs::CipherSuiteProvider::sign(&p.suite_provider(suite), &p.signer, &sc).ok()?;
    let mut out = good[..kp_start].to_vec();
    out.extend_from_slice(&tbs);
    put_opaque(&mut out, &sig);
    Some(out)
}

/// An insider (anybody who holds the epoch's encryption secret, i.e. every member) opens a genuine PrivateMessage with
/// the reference key derivations, appends `padding` to the plaintext (PrivateMessageContent ends in zero padding of any
/// length) and seals it again under the same message key, nonce and AAD. The encrypted sender data is reused as it is:
/// its key is sampled from the head of the ciphertext, which a longer plaintext does not change.
/// All-zero `padding` gives a message that is as valid as the genuine one (control).
pub fn repad_private_message(suite: u16, csp: &VSuite, msg: &[u8], sender_data_secret: &[u8], encryption_secret: &[u8], n_leaves: u32, padding: &[u8]) -> Option<Vec<u8>> {
    let s = rk::Suite::new(suite);
    let mut r = Reader::new(msg);
    let version = r.u16()?;
    if r.u16()? != 2 {
        return None;
    }
    let group_id = r.opaque()?.to_vec();
    let epoch = r.u64()?;
    let content_type = r.u8()?;
    let authenticated_data = r.opaque()?.to_vec();
    let esd = r.opaque()?.to_vec();
    let ciphertext = r.opaque()?.to_vec();
    if !r.is_empty() {
        return None;
    }
    let (sd_key, sd_nonce) = rk::sender_data_key(&s, sender_data_secret, &ciphertext);
    let mut sd_aad = vec![];
    put_opaque(&mut sd_aad, &group_id);
    sd_aad.extend_from_slice(&epoch.to_be_bytes());
    sd_aad.push(content_type);
    let sd = mls_rs::CipherSuiteProvider::aead_open(csp, &sd_key, &esd, Some(&sd_aad), &sd_nonce).ok()?;
    let mut d = Reader::new(&sd);
    let leaf = d.u32()?;
    let generation = d.u32()?;
    let guard = d.take(4)?.to_vec();
    if generation > 4096 {
        return None;
    }
    let (key, mut nonce) = rk::ratchet_key(&s, encryption_secret, n_leaves, leaf, content_type != 1, generation);
    for i in 0..4 {
        nonce[i] ^= guard[i];
    }
    let mut aad = vec![];
    put_opaque(&mut aad, &group_id);
    aad.extend_from_slice(&epoch.to_be_bytes());
    aad.push(content_type);
    put_opaque(&mut aad, &authenticated_data);
    let mut content = mls_rs::CipherSuiteProvider::aead_open(csp, &key, &ciphertext, Some(&aad), &nonce).ok()?.to_vec();
    content.extend_from_slice(padding);
    let sealed = mls_rs::CipherSuiteProvider::aead_seal(csp, &key, &content, Some(&aad), &nonce).ok()?;
    // the head of the ciphertext (what the sender-data key is sampled from) is unchanged
    let n = s.nh().min(ciphertext.len());
    if sealed.len() < n || sealed[..n] != ciphertext[..n] {
        return None;
    }
    let mut out = vec![];
    out.extend_from_slice(&version.to_be_bytes());
    out.extend_from_slice(&2u16.to_be_bytes());
    put_opaque(&mut out, &group_id);
    out.extend_from_slice(&epoch.to_be_bytes());
    out.push(content_type);
    put_opaque(&mut out, &authenticated_data);
    put_opaque(&mut out, &esd);
    put_opaque(&mut out, &sealed);
    Some(out)
}
