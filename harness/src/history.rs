//! Op-sequence interpreter: turns a uniform `Case` into a group history on a `World`.
//! Shared by the history-based properties; property-specific checks plug in as an `Observer`.
#![allow(dead_code)]

use crate::engine::*;
use crate::providers::{ProviderKind, StoreKind};
use crate::world::*;
use mls_rs::group::proposal::{CustomProposal, ProposalType};
use mls_rs::{Extension, ExtensionList};
use serde_json::{json, Value};
use std::collections::BTreeSet;

pub const CFG_LEN: usize = 10;

/// Op kinds of the history language.
pub const OP_PROPOSE_ADD: usize = 0;
pub const OP_PROPOSE_UPDATE: usize = 1;
pub const OP_PROPOSE_REMOVE: usize = 2;
pub const OP_PROPOSE_EXT_PSK: usize = 3;
pub const OP_PROPOSE_RES_PSK: usize = 4;
pub const OP_PROPOSE_GCE: usize = 5;
pub const OP_PROPOSE_CUSTOM: usize = 6;
pub const OP_COMMIT: usize = 7;
pub const OP_EXTERNAL_COMMIT: usize = 8;
pub const OP_APP: usize = 9;
pub const OP_FLUSH: usize = 10;
pub const OP_EXTRA: usize = 11; // property-specific op (save/reload, inject, ...)
pub const N_OPS: usize = 12;

pub const OP_NAMES: [&str; N_OPS] = [
    "propose_add",
    "propose_update",
    "propose_remove",
    "propose_ext_psk",
    "propose_resumption_psk",
    "propose_gce",
    "propose_custom",
    "commit",
    "external_commit",
    "app",
    "flush",
    "extra",
];

pub const DEFAULT_WEIGHTS: [u32; N_OPS] = [10, 8, 9, 3, 2, 3, 2, 30, 5, 10, 3, 0];

#[derive(Clone, Debug)]
pub struct HistoryParams {
    pub weights: [u32; N_OPS],
    pub max_initial: usize,
    pub max_members: usize,
    /// suites allowed (index chosen by cfg[0])
    pub suites: Vec<u16>,
    pub allow_mixed_providers: bool,
    pub cross_decrypt_every: u64,
    pub stores: Vec<StoreKind>,
    /// create the group with an ExternalSendersExt listing a harness-held identity
    pub external_sender: bool,
    /// handshake messages always public (an outside observer must be able to follow)
    pub force_public_handshake: bool,
    /// one in five by-reference Adds carries an expired key package that every committer has to drop
    pub doomed_adds: bool,
    /// commits may carry a "kick" custom proposal that the application's rules expand into a local Remove
    pub kicks: bool,
    /// half of the worlds publish key packages that live for 30 days of the fake clock (long over on the real one)
    pub short_key_package_lifetimes: bool,
}

impl HistoryParams {
    pub fn standard(tier: Tier) -> HistoryParams {
        HistoryParams {
            weights: DEFAULT_WEIGHTS,
            max_initial: tier.pick(9, 20),
            max_members: tier.pick(12, 24),
            suites: tier.pick(vec![1, 1, 1, 3, 2, 7], vec![1, 2, 3, 7, 5, 4, 6]),
            allow_mixed_providers: true,
            cross_decrypt_every: 1,
            stores: vec![StoreKind::Mem],
            external_sender: false,
            force_public_handshake: false,
            doomed_adds: true,
            kicks: false,
            short_key_package_lifetimes: false,
        }
    }
}

/// Per-epoch bookkeeping of what has been proposed (harness-side, not a validity model).
#[derive(Default, Clone)]
pub struct EpochNotes {
    pub pending_adds: Vec<usize>,
    pub resumption_psk_pending: bool,
    pub updates_from: BTreeSet<usize>,
    pub proposals: usize,
}

#[derive(Default, Clone, Debug)]
pub struct HistoryStats {
    pub commits: u64,
    pub commit_build_errors: u64,
    pub external_commits: u64,
    pub rejoins: u64,
    pub max_leaves: u32,
    pub commits_with_interior_blank: u64,
    pub commits_with_unmerged: u64,
    pub pathless_commits: u64,
    pub identity_changes: u64,
    pub psk_commits: u64,
    pub gce_commits: u64,
    pub custom_commits: u64,
    pub removals: u64,
    pub joins: u64,
    pub crossed_pow2: bool,
    pub skipped_ops: u64,
    pub doomed_adds: u64,
    pub apps: u64,
    pub proposals: u64,
    pub mixed_providers: bool,
}

pub trait Observer {
    /// Called once, right after the group has been created by its first member.
    fn on_start(&mut self, _w: &mut World) {}
    /// Called after every accepted commit (all members have moved to the new epoch).
    fn after_commit(&mut self, _w: &mut World, _info: &CommitInfo, _st: &HistoryStats) -> CaseResult {
        Ok(())
    }
    /// Called just before a commit is built (in-flight traffic already delivered).
    fn before_commit(&mut self, _w: &mut World, _committer: usize) -> CaseResult {
        Ok(())
    }
    /// Property-specific op.
    fn extra_op(&mut self, _w: &mut World, _op: &[u16; 5], _notes: &mut EpochNotes) -> CaseResult {
        Ok(())
    }
    /// Called right before member `receiver` processes the genuine commit `bytes`.
    fn before_receive_commit(&mut self, _w: &mut World, _receiver: usize, _bytes: &[u8]) -> CaseResult {
        Ok(())
    }
    /// Called when a commit has been built and is pending at the committer (not yet sent).
    fn after_build(&mut self, _w: &mut World, _committer: usize) -> CaseResult {
        Ok(())
    }
    /// Called when the library refused to build a commit.
    fn commit_refused(&mut self, _w: &mut World, _committer: usize, _e: &OpErr) -> CaseResult {
        Ok(())
    }
    fn end(&mut self, _w: &mut World, _st: &HistoryStats) -> CaseResult {
        Ok(())
    }
}

pub struct NoObserver;
impl Observer for NoObserver {}

pub fn world_cfg_from_case(case: &Case, hp: &HistoryParams) -> WorldCfg {
    let suite = hp.suites[pick(case.c(0), hp.suites.len())];
    let mut cfg = WorldCfg::default_for(suite);
    let provider_sets: Vec<Vec<ProviderKind>> = vec![
        vec![ProviderKind::OpenSsl],
        vec![ProviderKind::AwsLc],
        vec![ProviderKind::RustCrypto],
        vec![ProviderKind::OpenSsl, ProviderKind::AwsLc, ProviderKind::RustCrypto],
        vec![ProviderKind::RustCrypto, ProviderKind::OpenSsl],
        vec![ProviderKind::AwsLc, ProviderKind::RustCrypto],
    ];
    let n = if hp.allow_mixed_providers { provider_sets.len() } else { 3 };
    cfg.providers = provider_sets[pick(case.c(1), n)]
        .iter()
        .copied()
        .map(|p| if p.suites().contains(&suite) { p } else { ProviderKind::OpenSsl })
        .collect();
    let bits = case.c(2);
    cfg.ratchet_tree_extension = bits & 1 == 0;
    cfg.single_welcome = bits & 2 == 0;
    cfg.path_required = bits & 4 != 0;
    cfg.encrypt_handshake = bits & 8 != 0;
    cfg.padding = ((bits >> 4) % 3) as u8;
    cfg.vary_options = bits & 64 != 0;
    cfg.store = hp.stores[pick(case.c(4), hp.stores.len())];
    cfg.retention = 1 + pick(case.c(5), 5);
    cfg.sql_key_packages = cfg.store != StoreKind::Mem;
    if hp.force_public_handshake {
        cfg.encrypt_handshake = false;
        cfg.vary_options = false;
    }
    if hp.short_key_package_lifetimes && bits & 128 != 0 {
        cfg.kp_lifetime = 30 * 86400;
    }
    cfg
}

pub struct History<'a> {
    pub w: World,
    pub notes: EpochNotes,
    pub stats: HistoryStats,
    pub hp: &'a HistoryParams,
    pub probe: Vec<(Vec<u8>, Vec<u8>, usize)>,
    pub leaves_hi: u32,
}

fn tree_shape(w: &World) -> (u32, bool, bool) {
    // (leaf slots, interior blank present, unmerged leaves present) from any member's exported tree
    let Some(m) = w.members().first().copied() else {
        return (0, false, false);
    };
    let tree = w.parties[m].g().export_tree().to_bytes().unwrap_or_default();
    match crate::refmodel::tree::RefTreeNodes::parse(&tree) {
        Some(t) => (t.leaf_slots(), t.has_interior_blank_leaf(), t.has_unmerged()),
        None => (0, false, false),
    }
}

impl<'a> History<'a> {
    pub fn start(prop: &'static str, case: &Case, hp: &'a HistoryParams) -> Result<History<'a>, Failure> {
        let cfg = world_cfg_from_case(case, hp);
        let mut w = World::new(prop, cfg);
        // external PSKs known to everybody (C18 varies this)
        let creator = w.new_party();
        if hp.external_sender {
            let cs = w.parties[creator].suite_provider(w.cfg.suite);
            w.external_sender = Some(make_identity(&cs, b"external-sender"));
            if case.c(9) % 2 == 0 {
                // same credential with another (older) key in front, an unrelated service behind
                let (_, older) = make_identity(&cs, b"external-sender");
                let (_, other) = make_identity(&cs, b"other-service");
                w.external_sender_decoys = vec![older, other];
            }
        }
        if let Err(e) = w.create_group(creator) {
            return Err(setup_failure(prop, "create_group", &e));
        }
        let probe = vec![
            (b"verif".to_vec(), b"ctx".to_vec(), 32usize),
            (vec![], vec![], 1),
            (vec![0xff; 40], vec![7; 100], 77),
        ];
        let mut h = History {
            w,
            notes: Default::default(),
            stats: Default::default(),
            hp,
            probe,
            leaves_hi: 1,
        };
        h.stats.mixed_providers = h.w.cfg.providers.len() > 1;
        h.register_psks(creator);
        Ok(h)
    }

    /// Grow the group to its initial size: either one big commit, or one member per commit
    /// (which leaves unmerged leaves when commits carry no path).
    pub fn grow_initial(&mut self, case: &Case, obs: &mut dyn Observer) -> CaseResult {
        let n = 2 + pick(case.c(3), self.hp.max_initial.saturating_sub(1));
        let one_by_one = case.c(6) & 1 == 1;
        let mut to_add = n - 1;
        while to_add > 0 {
            let batch = if one_by_one { 1 } else { to_add };
            let mut spec = CommitSpec::default();
            for _ in 0..batch {
                let p = self.w.new_party();
                self.register_psks(p);
                spec.add.push(p);
            }
            let members = self.w.members();
            // rotate committers so that not everything comes from leaf 0
            let committer = members[(to_add * 7) % members.len()];
            self.do_commit(committer, spec, obs)?;
            to_add -= batch;
        }
        Ok(())
    }

    fn register_psks(&mut self, p: usize) {
        for i in 0..3u8 {
            self.w.parties[p].pstore.put(&[b'p', b's', b'k', i], &[i + 1; 32]);
        }
    }

    pub fn classify_before_commit(&mut self) {
        let (leaves, blank, unmerged) = tree_shape(&self.w);
        self.stats.max_leaves = self.stats.max_leaves.max(leaves);
        if blank {
            self.stats.commits_with_interior_blank += 1;
        }
        if unmerged {
            self.stats.commits_with_unmerged += 1;
        }
    }

    pub fn do_commit(&mut self, committer: usize, mut spec: CommitSpec, obs: &mut dyn Observer) -> CaseResult {
        spec.by_ref_add_candidates = self.notes.pending_adds.clone();
        // traffic first, then the observer's pre-commit hook
        self.w.flush(spec.order)?;
        self.classify_before_commit();
        obs.before_commit(&mut self.w, committer)?;
        let before_leaves = tree_shape(&self.w).0;
        match self.w.commit_round_with(committer, &spec, &mut |w, st| match st {
            Stage::AfterBuild { committer } => obs.after_build(w, committer),
            Stage::BeforeReceive { receiver, bytes } => obs.before_receive_commit(w, receiver, bytes),
        })? {
            Err(e) => {
                self.stats.commit_build_errors += 1;
                self.w.count(&format!("commit_refused:{}", e.class()));
                obs.commit_refused(&mut self.w, committer, &e)?;
                // a refused commit leaves the epoch as it was; cached proposals stay
                Ok(())
            }
            Ok(info) => {
                self.stats.commits += 1;
                self.stats.joins += info.joined.len() as u64;
                self.stats.removals += info.removed.len() as u64;
                if !info.had_path {
                    self.stats.pathless_commits += 1;
                }
                if spec.new_identity {
                    self.stats.identity_changes += 1;
                }
                if !spec.external_psks.is_empty() || !spec.resumption_psk_epochs.is_empty() || self.notes.resumption_psk_pending {
                    self.stats.psk_commits += 1;
                }
                if spec.gce.is_some() {
                    self.stats.gce_commits += 1;
                }
                if spec.custom.is_some() {
                    self.stats.custom_commits += 1;
                }
                let after_leaves = tree_shape(&self.w).0;
                if before_leaves != after_leaves && before_leaves > 0 {
                    self.stats.crossed_pow2 = true;
                }
                self.stats.max_leaves = self.stats.max_leaves.max(after_leaves);
                self.notes = Default::default();
                self.after_commit(&info, obs)
            }
        }
    }

    fn after_commit(&mut self, info: &CommitInfo, obs: &mut dyn Observer) -> CaseResult {
        let probe = self.probe.clone();
        self.w.agree(&probe)?;
        obs.after_commit(&mut self.w, info, &self.stats)?;
        if self.hp.cross_decrypt_every > 0 && self.stats.commits % self.hp.cross_decrypt_every == 0 {
            let tag = self.w.epoch;
            self.w.cross_decrypt(tag)?;
        }
        Ok(())
    }

    pub fn run_ops(&mut self, case: &Case, obs: &mut dyn Observer) -> CaseResult {
        for op in &case.ops {
            self.step(op, obs)?;
        }
        // finish: deliver what is in flight, one last commit so that cached proposals are exercised
        self.w.flush(0)?;
        obs.end(&mut self.w, &self.stats)
    }

    fn member_sel(&self, sel: u16) -> Option<usize> {
        let m = self.w.members();
        if m.is_empty() {
            None
        } else {
            Some(m[pick(sel, m.len())])
        }
    }

    pub fn step(&mut self, op: &[u16; 5], obs: &mut dyn Observer) -> CaseResult {
        let prop = self.w.prop;
        let kind = pick_weighted(op[0], &self.hp.weights);
        let Some(a) = self.member_sel(op[1]) else {
            self.stats.skipped_ops += 1;
            return Ok(());
        };
        let aad = vec![op[4] as u8; (op[4] % 5) as usize];
        match kind {
            OP_PROPOSE_ADD => {
                if self.notes.resumption_psk_pending || self.w.members().len() + self.notes.pending_adds.len() >= self.hp.max_members {
                    self.stats.skipped_ops += 1;
                    return Ok(());
                }
                if self.hp.doomed_adds && op[2] % 5 == 0 {
                    // An Add that every committer has to drop: the key package was issued ten days before the fake clock with a
                    // lifetime of one day. Cached by everybody, it precedes whatever valid Adds the next commit carries.
                    let p = self.w.new_party();
                    let suite = self.w.cfg.suite;
                    let q = &self.w.parties[p];
                    let c = build_client_with_lifetime(q.crypto.clone(), q.idp.clone(), q.gstore.clone(), q.kstore.clone(), q.pstore.clone(), Default::default(), q.identity.clone(), q.signer.clone(), suite, 86400);
                    let kp = guard(|| c.generate_key_package_message(Default::default(), Default::default(), Some(mls_rs::time::MlsTime::from(T0 - 10 * 86400)))).map_err(|e| setup_failure(prop, "generate_key_package", &e))?;
                    let party = &mut self.w.parties[a];
                    let ad = aad.clone();
                    match guard(|| party.gm().propose_add(kp, ad)) {
                        Ok(m) => {
                            self.w.push_proposal(a, m, aad).map_err(|e| setup_failure(prop, "encode", &e))?;
                            self.stats.proposals += 1;
                            self.stats.doomed_adds += 1;
                        }
                        Err(e) => return Err(op_failure(prop, "propose_add", &e)),
                    }
                    return Ok(());
                }
                if self.hp.doomed_adds && op[2] % 7 == 1 && !self.notes.pending_adds.is_empty() {
                    // a second Add for a client somebody has already proposed (another key package of the same client): one of
                    // the two has to give way in the commit
                    let p = self.notes.pending_adds[pick(op[3], self.notes.pending_adds.len())];
                    let kp = match self.w.key_package(p) {
                        Ok(k) => k,
                        Err(e) => return Err(setup_failure(prop, "generate_key_package", &e)),
                    };
                    let party = &mut self.w.parties[a];
                    let ad = aad.clone();
                    match guard(|| party.gm().propose_add(kp, ad)) {
                        Ok(m) => {
                            self.w.push_proposal(a, m, aad).map_err(|e| setup_failure(prop, "encode", &e))?;
                            self.stats.proposals += 1;
                            self.stats.doomed_adds += 1;
                        }
                        Err(e) => return Err(op_failure(prop, "propose_add", &e)),
                    }
                    return Ok(());
                }
                let p = self.w.new_party();
                self.register_psks(p);
                let kp = match self.w.key_package(p) {
                    Ok(k) => k,
                    Err(e) => return Err(setup_failure(prop, "generate_key_package", &e)),
                };
                let party = &mut self.w.parties[a];
                let ad = aad.clone();
                match guard(|| party.gm().propose_add(kp, ad)) {
                    Ok(m) => {
                        self.w.push_proposal(a, m, aad).map_err(|e| setup_failure(prop, "encode", &e))?;
                        self.notes.pending_adds.push(p);
                        self.stats.proposals += 1;
                    }
                    Err(e) => return Err(op_failure(prop, "propose_add", &e)),
                }
            }
            OP_PROPOSE_UPDATE => {
                // a member may send a second Update in the same epoch (plain re-key only): one of the two gives way in the commit
                let second = self.notes.updates_from.contains(&a);
                if second && (op[3] % 3 != 0 || self.w.parties[a].pending_identity.is_some()) {
                    self.stats.skipped_ops += 1;
                    return Ok(());
                }
                let with_identity = op[2] % 4 == 0 && !second;
                let suite = self.w.cfg.suite;
                let party = &mut self.w.parties[a];
                let ad = aad.clone();
                let r = if with_identity {
                    let cs = party.suite_provider(suite);
                    let (sk, id) = make_identity(&cs, &party.name);
                    party.pending_identity = Some((sk.clone(), id.clone()));
                    guard(|| party.gm().propose_update_with_identity(sk, id, ad))
                } else {
                    guard(|| party.gm().propose_update(ad))
                };
                match r {
                    Ok(m) => {
                        self.w.push_proposal(a, m, aad).map_err(|e| setup_failure(prop, "encode", &e))?;
                        self.notes.updates_from.insert(a);
                        self.stats.proposals += 1;
                        if with_identity {
                            self.stats.identity_changes += 1;
                        }
                    }
                    Err(e) => return Err(op_failure(prop, "propose_update", &e)),
                }
            }
            OP_PROPOSE_REMOVE => {
                let members = self.w.members();
                if members.len() < 3 {
                    self.stats.skipped_ops += 1;
                    return Ok(());
                }
                let target = members[pick(op[2], members.len())];
                if target == a {
                    self.stats.skipped_ops += 1;
                    return Ok(());
                }
                let leaf = self.w.parties[target].leaf();
                let party = &mut self.w.parties[a];
                let ad = aad.clone();
                match guard(|| party.gm().propose_remove(leaf, ad)) {
                    Ok(m) => {
                        self.w.push_proposal(a, m, aad).map_err(|e| setup_failure(prop, "encode", &e))?;
                        self.stats.proposals += 1;
                    }
                    Err(e) => return Err(op_failure(prop, "propose_remove", &e)),
                }
            }
            OP_PROPOSE_EXT_PSK => {
                let id = vec![b'p', b's', b'k', (op[2] % 3) as u8];
                let party = &mut self.w.parties[a];
                let ad = aad.clone();
                match guard(|| party.gm().propose_external_psk(mls_rs::psk::ExternalPskId::new(id), ad)) {
                    Ok(m) => {
                        self.w.push_proposal(a, m, aad).map_err(|e| setup_failure(prop, "encode", &e))?;
                        self.stats.proposals += 1;
                    }
                    Err(e) => return Err(op_failure(prop, "propose_external_psk", &e)),
                }
            }
            OP_PROPOSE_RES_PSK => {
                if !self.notes.pending_adds.is_empty() {
                    self.stats.skipped_ops += 1;
                    return Ok(());
                }
                let epoch = self.w.epoch;
                let party = &mut self.w.parties[a];
                let ad = aad.clone();
                match guard(|| party.gm().propose_resumption_psk(epoch, ad)) {
                    Ok(m) => {
                        self.w.push_proposal(a, m, aad).map_err(|e| setup_failure(prop, "encode", &e))?;
                        self.notes.resumption_psk_pending = true;
                        self.stats.proposals += 1;
                    }
                    Err(e) => return Err(op_failure(prop, "propose_resumption_psk", &e)),
                }
            }
            OP_PROPOSE_GCE => {
                let mut ext = ExtensionList::new();
                ext.set(Extension::new(EXT_TYPE.into(), vec![op[2] as u8; 1 + (op[3] % 9) as usize]));
                if op[3] % 2 == 0 {
                    ext.set(Extension::new(EXT_TYPE2.into(), vec![op[2] as u8]));
                }
                let party = &mut self.w.parties[a];
                let ad = aad.clone();
                match guard(|| party.gm().propose_group_context_extensions(ext, ad)) {
                    Ok(m) => {
                        self.w.push_proposal(a, m, aad).map_err(|e| setup_failure(prop, "encode", &e))?;
                        self.stats.proposals += 1;
                    }
                    Err(e) => return Err(op_failure(prop, "propose_gce", &e)),
                }
            }
            OP_PROPOSE_CUSTOM => {
                let cp = CustomProposal::new(ProposalType::new(CUSTOM_PROPOSAL), vec![op[2] as u8; (op[3] % 40) as usize]);
                let party = &mut self.w.parties[a];
                let ad = aad.clone();
                match guard(|| party.gm().propose_custom(cp, ad)) {
                    Ok(m) => {
                        self.w.push_proposal(a, m, aad).map_err(|e| setup_failure(prop, "encode", &e))?;
                        self.stats.proposals += 1;
                    }
                    Err(e) => return Err(op_failure(prop, "propose_custom", &e)),
                }
            }
            OP_COMMIT => {
                let flags = op[2];
                let mut spec = CommitSpec {
                    aad,
                    order: op[4],
                    ..Default::default()
                };
                let members = self.w.members();
                let room = self.hp.max_members.saturating_sub(members.len() + self.notes.pending_adds.len());
                let n_add = match flags & 7 {
                    0 | 1 => 1,
                    2 => 2,
                    3 => 3,
                    _ => 0,
                }
                .min(room);
                if !self.notes.resumption_psk_pending {
                    for _ in 0..n_add {
                        let p = self.w.new_party();
                        self.register_psks(p);
                        spec.add.push(p);
                    }
                }
                if flags & 8 != 0 && members.len() - 1 > 1 {
                    // remove by value: someone other than the committer
                    let others: Vec<usize> = members.iter().copied().filter(|m| *m != a).collect();
                    let t = others[pick(op[3], others.len())];
                    spec.remove.push(self.w.parties[t].leaf());
                    if flags & 0x400 != 0 && others.len() > 2 {
                        let t2 = others[pick(op[3].wrapping_mul(31), others.len())];
                        if t2 != t {
                            spec.remove.push(self.w.parties[t2].leaf());
                        }
                    }
                }
                if self.hp.kicks && flags & 8 == 0 && flags & 0x2000 != 0 && members.len() > 2 {
                    // removal through the application's rules: a custom proposal that every member expands into a local Remove
                    let others: Vec<usize> = members.iter().copied().filter(|m| *m != a).collect();
                    let t = others[pick(op[3], others.len())];
                    spec.kick = Some((self.w.parties[t].leaf(), flags & 0x4000 != 0));
                }
                if flags & 0x10 != 0 {
                    spec.external_psks.push(vec![b'p', b's', b'k', (op[3] % 3) as u8]);
                }
                if flags & 0x20 != 0 && spec.add.is_empty() && self.notes.pending_adds.is_empty() {
                    spec.resumption_psk_epochs.push(self.w.epoch);
                }
                if flags & 0x40 != 0 && flags & 0x80 != 0 {
                    spec.gce = Some(vec![op[3] as u8; 1 + (op[3] % 5) as usize]);
                }
                if flags & 0x100 != 0 && flags & 0x200 != 0 {
                    spec.custom = Some(vec![op[3] as u8; (op[3] % 17) as usize]);
                }
                if flags & 0x800 != 0 && flags & 0x1000 != 0 {
                    spec.new_identity = true;
                }
                self.do_commit(a, spec, obs)?;
            }
            OP_EXTERNAL_COMMIT => {
                if self.notes.resumption_psk_pending {
                    self.stats.skipped_ops += 1;
                    return Ok(());
                }
                let mode = op[2] % 3;
                let removed: Vec<usize> = self.w.parties.iter().filter(|p| p.status == Status::Removed).map(|p| p.id).collect();
                let tree_in_info = op[3] % 2 == 0;
                self.w.flush(op[4])?;
                self.classify_before_commit();
                let members = self.w.members();
                let (joiner, remove_leaf, rejoin) = if mode == 1 && !removed.is_empty() {
                    (removed[pick(op[3], removed.len())], None, true)
                } else if mode == 2 && members.len() >= 2 {
                    // resync: an existing member rejoins externally, removing its old leaf
                    let j = members[pick(op[3], members.len())];
                    (j, Some(self.w.parties[j].leaf()), true)
                } else {
                    if members.len() >= self.hp.max_members {
                        self.stats.skipped_ops += 1;
                        return Ok(());
                    }
                    let p = self.w.new_party();
                    self.register_psks(p);
                    (p, None, false)
                };
                let via_candidates: Vec<usize> = members.iter().copied().filter(|m| *m != joiner).collect();
                if via_candidates.is_empty() {
                    self.stats.skipped_ops += 1;
                    return Ok(());
                }
                let via = via_candidates[pick(op[1], via_candidates.len())];
                obs.before_commit(&mut self.w, joiner)?;
                match self.w.external_commit_round_with(joiner, via, remove_leaf, tree_in_info, op[4], &mut |w, st| match st {
            Stage::AfterBuild { committer } => obs.after_build(w, committer),
            Stage::BeforeReceive { receiver, bytes } => obs.before_receive_commit(w, receiver, bytes),
        })? {
                    Err(e) => {
                        self.stats.commit_build_errors += 1;
                        self.w.count(&format!("external_commit_refused:{}", e.class()));
                        obs.commit_refused(&mut self.w, joiner, &e)?;
                    }
                    Ok(info) => {
                        self.stats.commits += 1;
                        self.stats.external_commits += 1;
                        if rejoin {
                            self.stats.rejoins += 1;
                        }
                        self.stats.joins += 1;
                        self.notes = Default::default();
                        self.after_commit(&info, obs)?;
                    }
                }
            }
            OP_APP => {
                let len = (op[2] % 300) as usize;
                let payload: Vec<u8> = (0..len).map(|i| (i as u8) ^ (op[3] as u8)).collect();
                // the library refuses application messages while proposals are pending (documented:
                // `commit_required`); that is not a failure
                if self.w.parties[a].g().commit_required() {
                    self.stats.skipped_ops += 1;
                    return Ok(());
                }
                match self.w.send_app(a, payload, aad) {
                    Ok(()) => self.stats.apps += 1,
                    Err(e) => return Err(op_failure(prop, "encrypt_application_message", &e)),
                }
            }
            OP_FLUSH => {
                self.w.flush(op[2])?;
            }
            _ => {
                obs.extra_op(&mut self.w, op, &mut self.notes)?;
            }
        }
        Ok(())
    }
}

pub fn setup_failure(prop: &str, site: &str, e: &OpErr) -> Failure {
    if e.is_panic() {
        return panic_failure(prop, site, e);
    }
    Failure::new(format!("{prop}|setup_op_failed|{site}|{}", e.class()), e.text().to_string())
}

/// A valid API call by a current member that the library refuses.
pub fn op_failure(prop: &str, site: &str, e: &OpErr) -> Failure {
    if e.is_panic() {
        return panic_failure(prop, site, e);
    }
    Failure::new(format!("{prop}|valid_op_refused|{site}|{}", e.class()), e.text().to_string())
}

pub fn describe_case(case: &Case, hp: &HistoryParams) -> Value {
    let cfg = world_cfg_from_case(case, hp);
    let ops: Vec<Value> = case
        .ops
        .iter()
        .map(|o| json!([OP_NAMES[pick_weighted(o[0], &hp.weights)], o[1], o[2], o[3], o[4]]))
        .collect();
    json!({"world": cfg.to_json(), "initial_members": 2 + pick(case.c(3), hp.max_initial.saturating_sub(1)), "one_by_one_growth": case.c(6) & 1 == 1, "ops": ops})
}

pub fn classify_history(ev: &Evidence, st: &HistoryStats) {
    ev.class_n("commits", st.commits);
    ev.class_n("commit_build_refused", st.commit_build_errors);
    ev.class_n("external_commits", st.external_commits);
    ev.class_n("rejoins", st.rejoins);
    ev.class_n("commits_with_interior_blank_leaf", st.commits_with_interior_blank);
    ev.class_n("commits_with_unmerged_leaves", st.commits_with_unmerged);
    ev.class_n("pathless_commits", st.pathless_commits);
    ev.class_n("identity_changes", st.identity_changes);
    ev.class_n("psk_commits", st.psk_commits);
    ev.class_n("gce_commits", st.gce_commits);
    ev.class_n("custom_proposal_commits", st.custom_commits);
    ev.class_n("removals", st.removals);
    ev.class_n("joins", st.joins);
    ev.class_n("skipped_ops", st.skipped_ops);
    ev.class_n("app_messages", st.apps);
    ev.class_n("proposals_by_reference", st.proposals);
    if st.crossed_pow2 {
        ev.class("histories_crossing_power_of_two");
    }
    if st.mixed_providers {
        ev.class("histories_mixed_providers");
    }
    ev.class(&format!("max_leaf_slots_{}", st.max_leaves.max(1).next_power_of_two()));
}

pub fn history_nontrivial(st: &HistoryStats) -> bool {
    st.commits >= 2
        && (st.commits_with_interior_blank > 0
            || st.commits_with_unmerged > 0
            || st.external_commits > 0
            || st.crossed_pow2
            || st.mixed_providers)
}

/// Generic driver of a history-based property: replays committed regression cases, then runs
/// the sharded generated search; writes evidence and exits.
pub fn run_property<O: Observer>(
    ctx: &crate::Ctx,
    prop: &'static str,
    level: &str,
    rule: &str,
    hp: &HistoryParams,
    spec: RunSpec,
    mk: &(dyn Fn(&Case, &'static Evidence) -> O + Sync),
    nontrivial: &(dyn Fn(&HistoryStats, &O) -> bool + Sync),
) -> ! {
    let ev: &'static Evidence = Box::leak(Box::new(Evidence::new(prop, ctx.tier, ctx.seed, level)));
    ev.set_rule(rule);
    ev.assume("providers' own randomness (key generation, HPKE ephemerals, signatures) is not seeded; verdicts do not depend on it");
    ev.assume("generated histories issue only API calls an application may issue; ops that make no sense in the current state are skipped and counted");

    let run_case = |case: &Case| -> CaseResult {
        ev.eval(1);
        let mut obs = mk(case, ev);
        let mut h = History::start(prop, case, hp)?;
        obs.on_start(&mut h.w);
        h.grow_initial(case, &mut obs)?;
        h.run_ops(case, &mut obs)?;
        classify_history(ev, &h.stats);
        for (k, v) in &h.w.counters {
            ev.class_n(k, *v);
        }
        if nontrivial(&h.stats, &obs) {
            ev.nontrivial(case);
            ev.sample(&format!("nt{}", h.stats.commits % 4), || describe_case(case, hp));
        }
        // a few generated histories are always written out
        ev.sample(&format!("any{}", (h.stats.commits + h.stats.external_commits) % 5), || describe_case(case, hp));
        Ok(())
    };

    if let Some(path) = &ctx.replay {
        let v: Value = serde_json::from_str(&std::fs::read_to_string(path).unwrap_or_default()).unwrap_or_default();
        let case = Case::from_json(&v["case"]).unwrap_or_else(|| inconclusive(ev, "replay file has no case"));
        return match catch(|| run_case(&case)) {
            Ok(Ok(())) => finish_ok(ev),
            Ok(Err(f)) => finish_violation(ev, Violation { failure: f, case: Some(case.clone()) }, case.to_json()),
            Err(p) => inconclusive(ev, &format!("harness panic: {p}")),
        };
    }

    for (path, v) in load_replays(prop) {
        if let Some(case) = Case::from_json(&v["case"]) {
            match catch(|| run_case(&case)) {
                Ok(Ok(())) => ev.class("regression_replays"),
                Ok(Err(f)) => finish_violation(ev, Violation { failure: f, case: Some(case.clone()) }, case.to_json()),
                Err(p) => inconclusive(ev, &format!("harness panic on {}: {p}", path.display())),
            }
        }
    }

    match run_sharded(ev, &spec, prop.as_bytes().iter().map(|b| *b as u64).sum(), &run_case) {
        Ok(()) => finish_ok(ev),
        Err(v) => {
            let payload = v.case.as_ref().map(|c| c.to_json()).unwrap_or(Value::Null);
            if let Some(c) = &v.case {
                eprintln!("minimal failing case: {}", describe_case(c, hp));
            }
            finish_violation(ev, v, payload)
        }
    }
}
