//! Engine: sharded proptest runner, evidence, known findings, replay I/O.
//!
//! Every generated case has the same uniform shape (`Case`): a fixed-length config header of
//! `u16`s and a list of ops `[kind, a, b, c, d]` of `u16`s. Each property interprets them with
//! its own tables. This keeps shrinking (drop ops, lower numbers), replay files and evidence
//! samples generic.

use proptest::strategy::{Strategy, ValueTree};
use proptest::test_runner::{Config, RngAlgorithm, TestCaseError, TestError, TestRng, TestRunner};
use serde_json::{json, Value};
use std::collections::{BTreeMap, BTreeSet, HashSet};
use std::hash::{Hash, Hasher};
use std::path::{Path, PathBuf};
use std::sync::atomic::{AtomicBool, AtomicU64, Ordering};
use std::sync::Mutex;
use std::time::Instant;

pub const VERIF_ROOT: &str = "/verif";

#[derive(Clone, Copy, PartialEq, Eq, Debug)]
pub enum Tier {
    Quick,
    Thorough,
}

impl Tier {
    pub fn name(&self) -> &'static str {
        match self {
            Tier::Quick => "quick",
            Tier::Thorough => "thorough",
        }
    }
    pub fn pick<T>(&self, quick: T, thorough: T) -> T {
        match self {
            Tier::Quick => quick,
            Tier::Thorough => thorough,
        }
    }
}

#[derive(Clone, Debug, PartialEq, Eq, Hash)]
pub struct Case {
    pub cfg: Vec<u16>,
    pub ops: Vec<[u16; 5]>,
}

impl Case {
    pub fn to_json(&self) -> Value {
        json!({"cfg": self.cfg, "ops": self.ops.iter().map(|o| o.to_vec()).collect::<Vec<_>>()})
    }
    pub fn from_json(v: &Value) -> Option<Case> {
        let cfg = v
            .get("cfg")?
            .as_array()?
            .iter()
            .map(|x| x.as_u64().map(|x| x as u16))
            .collect::<Option<Vec<_>>>()?;
        let ops = v
            .get("ops")?
            .as_array()?
            .iter()
            .map(|o| {
                let a = o.as_array()?;
                let mut r = [0u16; 5];
                for (i, x) in a.iter().enumerate().take(5) {
                    r[i] = x.as_u64()? as u16;
                }
                Some(r)
            })
            .collect::<Option<Vec<_>>>()?;
        Some(Case { cfg, ops })
    }
    pub fn c(&self, i: usize) -> u16 {
        self.cfg.get(i).copied().unwrap_or(0)
    }
}

/// Monotone map of a u16 selector into `0..n` (shrinks towards 0).
pub fn pick(sel: u16, n: usize) -> usize {
    if n == 0 {
        0
    } else {
        ((sel as usize) * n) >> 16
    }
}

/// Weighted monotone choice: returns the index into `weights`.
pub fn pick_weighted(sel: u16, weights: &[u32]) -> usize {
    let total: u64 = weights.iter().map(|w| *w as u64).sum();
    if total == 0 {
        return 0;
    }
    let x = ((sel as u64) * total) >> 16;
    let mut acc = 0u64;
    for (i, w) in weights.iter().enumerate() {
        acc += *w as u64;
        if x < acc {
            return i;
        }
    }
    weights.len() - 1
}

#[derive(Clone, Debug)]
pub struct Failure {
    /// Specific signature: call site | failure class | differing component ...
    pub signature: String,
    pub detail: String,
}

impl Failure {
    pub fn new(signature: impl Into<String>, detail: impl Into<String>) -> Self {
        Failure {
            signature: signature.into(),
            detail: detail.into(),
        }
    }
}

pub type CaseResult = Result<(), Failure>;

#[derive(Clone, Debug)]
pub struct Finding {
    pub property: String,
    pub signature: String,
    pub status: String,
    pub description: String,
}

pub struct Evidence {
    pub property: String,
    pub tier: Tier,
    pub seed: u64,
    pub level: String,
    start: Instant,
    stop_counting: AtomicBool,
    evaluations: AtomicU64,
    nontrivial: Mutex<HashSet<u64>>,
    classes: Mutex<BTreeMap<String, u64>>,
    samples: Mutex<Vec<Value>>,
    sample_keys: Mutex<BTreeSet<String>>,
    known: Vec<Finding>,
    known_observed: Mutex<BTreeMap<String, u64>>,
    pub rule: Mutex<String>,
    pub assumptions: Mutex<Vec<String>>,
    pub extra: Mutex<BTreeMap<String, Value>>,
    pub exhaustive: AtomicBool,
}

fn hash_of<T: Hash>(t: &T) -> u64 {
    let mut h = std::collections::hash_map::DefaultHasher::new();
    t.hash(&mut h);
    h.finish()
}

impl Evidence {
    pub fn new(property: &str, tier: Tier, seed: u64, level: &str) -> Self {
        Evidence {
            property: property.to_string(),
            tier,
            seed,
            level: level.to_string(),
            start: Instant::now(),
            stop_counting: AtomicBool::new(false),
            evaluations: AtomicU64::new(0),
            nontrivial: Mutex::new(HashSet::new()),
            classes: Mutex::new(BTreeMap::new()),
            samples: Mutex::new(Vec::new()),
            sample_keys: Mutex::new(BTreeSet::new()),
            known: load_known(property),
            known_observed: Mutex::new(BTreeMap::new()),
            rule: Mutex::new(String::new()),
            assumptions: Mutex::new(Vec::new()),
            extra: Mutex::new(BTreeMap::new()),
            exhaustive: AtomicBool::new(false),
        }
    }

    fn counting(&self) -> bool {
        !self.stop_counting.load(Ordering::Relaxed)
    }

    pub fn eval(&self, n: u64) {
        if self.counting() {
            self.evaluations.fetch_add(n, Ordering::Relaxed);
        }
    }

    /// Record one distinct non-trivial case (by canonical key).
    pub fn nontrivial<T: Hash>(&self, key: &T) {
        if self.counting() {
            self.nontrivial.lock().unwrap().insert(hash_of(key));
        }
    }

    pub fn class(&self, name: &str) {
        self.class_n(name, 1);
    }

    pub fn class_n(&self, name: &str, n: u64) {
        if self.counting() && n > 0 {
            *self.classes.lock().unwrap().entry(name.to_string()).or_insert(0) += n;
        }
    }

    /// Keep up to `per_key` samples for each sample key, at most 12 in total.
    pub fn sample(&self, key: &str, v: impl FnOnce() -> Value) {
        if !self.counting() {
            return;
        }
        let mut keys = self.sample_keys.lock().unwrap();
        if keys.contains(key) || keys.len() >= 12 {
            return;
        }
        keys.insert(key.to_string());
        drop(keys);
        self.samples.lock().unwrap().push(v());
    }

    pub fn set_rule(&self, r: &str) {
        *self.rule.lock().unwrap() = r.to_string();
    }

    pub fn assume(&self, a: &str) {
        let mut g = self.assumptions.lock().unwrap();
        if !g.iter().any(|x| x == a) {
            g.push(a.to_string());
        }
    }

    pub fn put_extra(&self, k: &str, v: Value) {
        self.extra.lock().unwrap().insert(k.to_string(), v);
    }

    pub fn is_known(&self, signature: &str) -> bool {
        self.known
            .iter()
            .any(|f| f.status == "known" && f.signature == signature)
    }

    /// If `signature` is a listed known finding, count it and return Ok (the caller continues
    /// with adjusted expectations); otherwise return the failure.
    pub fn known_or_fail(&self, signature: &str, detail: impl FnOnce() -> String) -> CaseResult {
        if self.is_known(signature) {
            if self.counting() {
                *self
                    .known_observed
                    .lock()
                    .unwrap()
                    .entry(signature.to_string())
                    .or_insert(0) += 1;
            }
            Ok(())
        } else {
            Err(Failure::new(signature, detail()))
        }
    }

    pub fn evaluations(&self) -> u64 {
        self.evaluations.load(Ordering::Relaxed)
    }

    pub fn write(&self, violations: u64) {
        let classes = self.classes.lock().unwrap().clone();
        let known_observed = self.known_observed.lock().unwrap().clone();
        let mut coverage = serde_json::Map::new();
        coverage.insert("evaluations".into(), json!(self.evaluations()));
        coverage.insert(
            "distinct_nontrivial".into(),
            json!(self.nontrivial.lock().unwrap().len()),
        );
        coverage.insert("rule".into(), json!(*self.rule.lock().unwrap()));
        coverage.insert("samples".into(), json!(*self.samples.lock().unwrap()));
        coverage.insert("classes".into(), json!(classes));
        coverage.insert("known_findings_observed".into(), json!(known_observed));
        if self.exhaustive.load(Ordering::Relaxed) {
            coverage.insert("exhaustive".into(), json!(true));
        }
        for (k, v) in self.extra.lock().unwrap().iter() {
            coverage.insert(k.clone(), v.clone());
        }
        let doc = json!({
            "property_id": self.property,
            "tier": self.tier.name(),
            "seed": self.seed,
            "level": self.level,
            "coverage": Value::Object(coverage),
            "assumptions": *self.assumptions.lock().unwrap(),
            "wall_s": self.start.elapsed().as_secs_f64(),
            "violations": violations,
        });
        let dir = Path::new(VERIF_ROOT).join("evidence");
        let _ = std::fs::create_dir_all(&dir);
        let path = dir.join(format!("{}.json", self.property));
        let tmp = dir.join(format!(".{}.json.tmp", self.property));
        std::fs::write(&tmp, serde_json::to_string_pretty(&doc).unwrap()).expect("write evidence");
        std::fs::rename(&tmp, &path).expect("rename evidence");
    }

    pub fn print_known(&self) {
        let obs = self.known_observed.lock().unwrap();
        for f in &self.known {
            if f.status == "known" {
                if let Some(n) = obs.get(&f.signature) {
                    println!(
                        "KNOWN-FINDING: property={} {} ({} observations) -- {}",
                        self.property, f.signature, n, f.description
                    );
                }
            }
        }
    }
}

fn load_known(property: &str) -> Vec<Finding> {
    let path = Path::new(VERIF_ROOT).join("known_findings.json");
    let Ok(s) = std::fs::read_to_string(&path) else {
        return vec![];
    };
    let Ok(v) = serde_json::from_str::<Value>(&s) else {
        eprintln!("known_findings.json does not parse");
        std::process::exit(2);
    };
    v.get("findings")
        .and_then(|f| f.as_array())
        .map(|a| {
            a.iter()
                .filter_map(|f| {
                    Some(Finding {
                        property: f.get("property")?.as_str()?.to_string(),
                        signature: f.get("signature")?.as_str()?.to_string(),
                        status: f.get("status")?.as_str()?.to_string(),
                        description: f
                            .get("description")
                            .and_then(|d| d.as_str())
                            .unwrap_or("")
                            .to_string(),
                    })
                })
                .filter(|f| f.property == property)
                .collect()
        })
        .unwrap_or_default()
}

// ---------------------------------------------------------------------------------------------
// panic capture

thread_local! {
    static LAST_PANIC: std::cell::RefCell<Option<String>> = const { std::cell::RefCell::new(None) };
    static QUIET: std::cell::Cell<bool> = const { std::cell::Cell::new(false) };
}

pub fn install_panic_hook() {
    let default = std::panic::take_hook();
    std::panic::set_hook(Box::new(move |info| {
        let loc = info
            .location()
            .map(|l| format!("{}:{}", l.file(), l.line()))
            .unwrap_or_default();
        let msg = if let Some(s) = info.payload().downcast_ref::<&str>() {
            s.to_string()
        } else if let Some(s) = info.payload().downcast_ref::<String>() {
            s.clone()
        } else {
            "panic".to_string()
        };
        LAST_PANIC.with(|p| *p.borrow_mut() = Some(format!("{loc}: {msg}")));
        if !QUIET.with(|q| q.get()) {
            default(info);
        }
    }));
}

/// Run `f`, converting a panic into `Err(location: message)`.
pub fn catch<T>(f: impl FnOnce() -> T) -> Result<T, String> {
    let prev = QUIET.with(|q| q.replace(true));
    let r = std::panic::catch_unwind(std::panic::AssertUnwindSafe(f));
    QUIET.with(|q| q.set(prev));
    r.map_err(|_| {
        LAST_PANIC
            .with(|p| p.borrow_mut().take())
            .unwrap_or_else(|| "panic".into())
    })
}

/// Strip volatile parts (numbers) from a panic message / location to make a signature.
pub fn panic_signature(p: &str) -> String {
    // keep "file:line" and the first 60 chars of the message without digits
    let (loc, msg) = p.split_once(": ").unwrap_or((p, ""));
    let loc = loc.rsplit('/').next().unwrap_or(loc);
    let msg: String = msg.chars().filter(|c| !c.is_ascii_digit()).take(60).collect();
    format!("{loc}:{msg}")
}

// ---------------------------------------------------------------------------------------------
// sharded proptest

pub struct RunSpec {
    pub shards: usize,
    pub cases_per_shard: u32,
    pub cfg_len: usize,
    pub min_ops: usize,
    pub max_ops: usize,
    pub max_shrink_iters: u32,
}

fn case_strategy(spec: &RunSpec) -> impl Strategy<Value = Case> {
    use proptest::collection::vec;
    use proptest::prelude::any;
    (
        vec(any::<u16>(), spec.cfg_len..=spec.cfg_len),
        vec(any::<[u16; 5]>(), spec.min_ops..=spec.max_ops),
    )
        .prop_map(|(cfg, ops)| Case { cfg, ops })
}

fn shard_seed(seed: u64, shard: usize, salt: u64) -> [u8; 32] {
    use sha2::Digest;
    let mut h = sha2::Sha256::new();
    h.update(seed.to_le_bytes());
    h.update((shard as u64).to_le_bytes());
    h.update(salt.to_le_bytes());
    h.finalize().into()
}

pub struct Violation {
    pub failure: Failure,
    pub case: Option<Case>,
}

/// Runs `run_case` over generated cases on `spec.shards` threads. Returns the first (shrunk)
/// failure if any. Counting in `ev` stops at the first failure.
pub fn run_sharded(
    ev: &Evidence,
    spec: &RunSpec,
    salt: u64,
    run_case: &(dyn Fn(&Case) -> CaseResult + Sync),
) -> Result<(), Violation> {
    let found: Mutex<Option<Violation>> = Mutex::new(None);
    let stop = AtomicBool::new(false);
    let harness_bug: Mutex<Option<String>> = Mutex::new(None);

    std::thread::scope(|s| {
        for shard in 0..spec.shards {
            let found = &found;
            let stop = &stop;
            let harness_bug = &harness_bug;
            std::thread::Builder::new()
                .stack_size(64 << 20)
                .spawn_scoped(s, move || {
                    let config = Config {
                        cases: spec.cases_per_shard,
                        failure_persistence: None,
                        max_shrink_iters: spec.max_shrink_iters,
                        max_global_rejects: 0,
                        verbose: 0,
                        ..Config::default()
                    };
                    let rng = TestRng::from_seed(
                        RngAlgorithm::ChaCha,
                        &shard_seed(ev.seed, shard, salt),
                    );
                    let mut runner = TestRunner::new_with_rng(config, rng);
                    let strat = case_strategy(spec);
                    let last_failure: Mutex<Option<Failure>> = Mutex::new(None);
                    let shard_failed = AtomicBool::new(false);

                    let res = runner.run(&strat, |case| {
                        if stop.load(Ordering::Relaxed) && !shard_failed.load(Ordering::Relaxed) {
                            // another shard failed: finish quickly
                            return Ok(());
                        }
                        match catch(|| run_case(&case)) {
                            Ok(Ok(())) => Ok(()),
                            Ok(Err(f)) => {
                                shard_failed.store(true, Ordering::Relaxed);
                                stop.store(true, Ordering::Relaxed);
                                ev.stop_counting.store(true, Ordering::Relaxed);
                                let msg = f.signature.clone();
                                *last_failure.lock().unwrap() = Some(f);
                                Err(TestCaseError::fail(msg))
                            }
                            Err(p) => {
                                // panic outside a guarded library call = harness bug
                                stop.store(true, Ordering::Relaxed);
                                ev.stop_counting.store(true, Ordering::Relaxed);
                                *harness_bug.lock().unwrap() =
                                    Some(format!("{p} on case {}", case.to_json()));
                                Ok(())
                            }
                        }
                    });

                    if let Err(TestError::Fail(_, minimal)) = res {
                        // re-run minimal to get its failure (shrinking may end on a passing probe)
                        let f = match catch(|| run_case(&minimal)) {
                            Ok(Err(f)) => f,
                            _ => last_failure
                                .lock()
                                .unwrap()
                                .clone()
                                .unwrap_or_else(|| Failure::new("unknown", "")),
                        };
                        let mut g = found.lock().unwrap();
                        if g.is_none() {
                            *g = Some(Violation {
                                failure: f,
                                case: Some(minimal),
                            });
                        }
                    }
                })
                .expect("spawn shard");
        }
    });

    if let Some(b) = harness_bug.into_inner().unwrap() {
        eprintln!("INCONCLUSIVE: harness panic: {b}");
        ev.write(0);
        std::process::exit(2);
    }

    match found.into_inner().unwrap() {
        Some(v) => Err(v),
        None => Ok(()),
    }
}

/// Simple deterministic RNG for the non-proptest (enumerative / sampling) parts. Methods take
/// `&self` (interior mutability) so that draws can be nested in one expression.
pub struct SplitMix(std::cell::Cell<u64>);
impl SplitMix {
    pub fn new(seed: u64, salt: u64) -> Self {
        SplitMix(std::cell::Cell::new(seed ^ salt.wrapping_mul(0x9E3779B97F4A7C15)))
    }
    pub fn perturb(&self, x: u64) {
        self.0.set(self.0.get() ^ x);
    }
    pub fn next(&self) -> u64 {
        let s = self.0.get().wrapping_add(0x9E3779B97F4A7C15);
        self.0.set(s);
        let mut z = s;
        z = (z ^ (z >> 30)).wrapping_mul(0xBF58476D1CE4E5B9);
        z = (z ^ (z >> 27)).wrapping_mul(0x94D049BB133111EB);
        z ^ (z >> 31)
    }
    pub fn below(&self, n: u64) -> u64 {
        if n == 0 {
            0
        } else {
            self.next() % n
        }
    }
    pub fn bytes(&self, n: usize) -> Vec<u8> {
        let mut v = Vec::with_capacity(n);
        while v.len() < n {
            v.extend_from_slice(&self.next().to_le_bytes());
        }
        v.truncate(n);
        v
    }
    /// Random byte string of random length below `max_len`.
    pub fn blob(&self, max_len: u64) -> Vec<u8> {
        let l = self.below(max_len) as usize;
        self.bytes(l)
    }
}

// ---------------------------------------------------------------------------------------------
// replay files and final reporting

pub fn replay_dir(property: &str) -> PathBuf {
    Path::new(VERIF_ROOT).join("replays").join(property)
}

pub fn write_replay(property: &str, seed: u64, payload: Value, failure: &Failure) -> PathBuf {
    let dir = replay_dir(property);
    let _ = std::fs::create_dir_all(&dir);
    let name = format!("violation_{:016x}.json", hash_of(&format!("{payload}{}", failure.signature)));
    let path = dir.join(name);
    let doc = json!({
        "property": property,
        "seed": seed,
        "signature": failure.signature,
        "detail": failure.detail,
        "case": payload,
    });
    let _ = std::fs::write(&path, serde_json::to_string_pretty(&doc).unwrap());
    path
}

/// Committed regression inputs of a property: `(file name, case json)`.
pub fn load_replays(property: &str) -> Vec<(PathBuf, Value)> {
    let mut out = vec![];
    if let Ok(rd) = std::fs::read_dir(replay_dir(property)) {
        let mut files: Vec<_> = rd.filter_map(|e| e.ok()).map(|e| e.path()).collect();
        files.sort();
        for p in files {
            if p.extension().and_then(|e| e.to_str()) != Some("json") {
                continue;
            }
            // files written by a failing run in this working tree are not regression inputs
            if p.file_name()
                .and_then(|n| n.to_str())
                .map(|n| n.starts_with("violation_"))
                .unwrap_or(false)
            {
                continue;
            }
            if let Ok(s) = std::fs::read_to_string(&p) {
                if let Ok(v) = serde_json::from_str::<Value>(&s) {
                    out.push((p, v));
                }
            }
        }
    }
    out
}

pub fn finish_ok(ev: &Evidence) -> ! {
    ev.write(0);
    ev.print_known();
    println!(
        "OK property={} tier={} evaluations={} wall_s={:.1}",
        ev.property,
        ev.tier.name(),
        ev.evaluations(),
        ev.start.elapsed().as_secs_f64()
    );
    std::process::exit(0);
}

pub fn finish_violation(ev: &Evidence, v: Violation, payload: Value) -> ! {
    ev.write(1);
    ev.print_known();
    let path = write_replay(&ev.property, ev.seed, payload, &v.failure);
    println!("FAILURE signature={}", v.failure.signature);
    println!("DETAIL {}", v.failure.detail);
    println!(
        "VIOLATION property={} replay={}",
        ev.property,
        path.display()
    );
    std::process::exit(1);
}

pub fn inconclusive(ev: &Evidence, why: &str) -> ! {
    eprintln!("INCONCLUSIVE property={}: {why}", ev.property);
    ev.write(0);
    std::process::exit(2);
}
