#!/bin/sh
# Offline build of the verification harness (MANIFEST.setup_cmd). Uses only the cargo cache on disk.
set -eu
HERE=$(cd "$(dirname "$0")" && pwd)
cd "$HERE/harness"
export CARGO_NET_OFFLINE=true
cargo build --release --offline
echo "setup ok"
