#!/usr/bin/env python3
"""Prepare one seeded-change task per property: a scratch git worktree of /repo and a self-contained prompt.

usage: seeded_prompts.py <round_dir under /tmp> <property id>...

The prompt contains only the property text (from properties.jsonl) and one-line summaries of the changes already
collected for that property (from seeded/<id>-*/meta.json), nothing else from /verif.  The sub-agent that gets the
prompt works in <round_dir>/<id>/wt and writes to <round_dir>/<id>/out; import with tools/seeded_import2.py.
"""
import glob
import json
import os
import subprocess
import sys

ROOT = os.path.dirname(os.path.dirname(os.path.abspath(__file__)))
REPO = "/repo"


def main():
    rd = sys.argv[1]
    assert rd.startswith("/tmp/")
    props = {}
    for l in open(f"{ROOT}/properties.jsonl"):
        p = json.loads(l)
        props[p["id"]] = p
    for pid in sys.argv[2:]:
        p = props[pid]
        d = f"{rd}/{pid}"
        os.makedirs(f"{d}/out", exist_ok=True)
        if not os.path.isdir(f"{d}/wt"):
            subprocess.run(["git", "-C", REPO, "worktree", "add", "--detach", f"{d}/wt", "HEAD"], check=True, stdout=subprocess.DEVNULL)
        earlier = []
        for m in sorted(glob.glob(f"{ROOT}/seeded/{pid}-*/meta.json")):
            j = json.load(open(m))
            earlier.append("- (%s) %s" % (", ".join(j.get("files", [])), j.get("summary", "")[:300]))
        a = p["anchors"]
        mech = "; ".join("%s (%s)" % (m["name"], m["where"]) for m in a.get("mechanism", []))
        text = f"""You are helping test a verification setup for the Rust crate workspace awslabs/mls-rs (IETF MLS, RFC 9420). Your job is to play the role of a developer who makes a *plausible, realistic* change to the library that silently breaks one semantic property while everything still compiles and the existing test suite still passes.

Your private scratch copy of the repository is the git worktree at: {d}/wt
Work ONLY inside that directory (and {d}/out for your outputs). Do NOT touch /repo or /verif, do not read anything under /verif, and do not commit anything. NEVER use `git stash` (the stash is shared with other people's worktrees of the same repository): to set a change aside use `git diff > file` and `git checkout -- .`; check `git diff --stat` before saving a patch so it contains only your change. The sandbox has no network; use `cargo ... --offline`. Use `CARGO_TARGET_DIR={d}/wt/target` (the default) and keep builds modest: build/test only the crates you touch (e.g. `cargo test -p mls-rs --offline --lib`, which takes a few minutes the first time; the machine is busy, be patient). A few tests fail on the untouched tree because three test-data files are emptied in this checkout (the emptied files are mls-rs-core/test_data/crypto_provider.json, mls-rs-core/test_data/test_hpke.json, mls-rs/test_data/interop_passive_client_random.json; the tests that always fail because of that are `mls_core_tests` in the three mls-rs-crypto-* crates, `mls-rs-uniffi kotlin_scenarios::simple_scenario_sync` and `mls-rs group::interop_test_vectors::passive_client::interop_passive_client`); ignore those — "passing" means no test that passes on the untouched tree fails with your change. Code guarded by the cargo feature `verif_hooks` is test instrumentation: do not change it and do not rely on it.

The property to break:

PROPERTY {pid}: {p['title']}

Statement: {p['statement']}

Quantifier: {p['quantifier']['text']}

Where it lives (anchors): files {', '.join(a.get('files', []))}; mechanisms: {mech}


IMPORTANT — other developers' mistakes already collected for this property (do NOT repeat these mechanisms or these code locations; find different ones, in different files/functions and needing a different kind of trigger):
{chr(10).join(earlier)}


Produce TWO different changes (A and B), each a separate small diff against the worktree HEAD, touching different mechanisms or different code paths behind the property. For each:
 - It must look like something a real developer could write by mistake or as a misguided refactor/optimisation (an off-by-one, a check moved/dropped/weakened, a wrong variable, a lost update on an error path, a cache not invalidated, a wrong ordering, ...). No blatant sabotage like `return Ok(())` at the top of a verifier, no `if input == magic` back doors, no changes to tests, no changes guarded by cfg(test).
 - It must NOT be caught by the existing tests: run the relevant existing tests with the change applied and make sure the ones that passed before still pass.
 - It must need something specific to manifest (a particular input shape, operation order, history, boundary value, provider, or fault), rather than breaking every run of everything.
 - It must really break the stated property (not some other behaviour). Write a demonstration: a small Rust test (put it in a NEW file you describe, or as a `#[test]` snippet in demo text — do not leave it in the patch) or a precise step-by-step scenario, and actually run it in your worktree to confirm it shows the break with the change and passes/behaves correctly without it.

Work on one change at a time: make change A, test, save `git diff > {d}/out/A.patch.diff` (the diff must contain ONLY the library change, not your demo test), write `{d}/out/A.demo.md` (what the change is, why it breaks the property, what is needed to trigger it, the demo code and its observed output with/without the change), then `git checkout -- . && git clean -fd -e target` and do the same for change B (`B.patch.diff`, `B.demo.md`). Finally write `{d}/out/meta.json`: {{"property":"{pid}","changes":[{{"name":"A","files":[...],"summary":"...","trigger":"...","existing_tests_run":"<commands>","existing_tests_pass":true,"demo_confirms_break":true}}, {{...B...}}]}}.

When done, delete the build output to save disk (`rm -rf {d}/wt/target`) and reply with a short summary (what A and B are, how to trigger them). If you could only produce one change, say so honestly.
"""
        open(f"{d}/prompt.txt", "w").write(text)
        print(pid, len(earlier), "earlier changes listed")


if __name__ == "__main__":
    main()
