#!/usr/bin/env python3
"""Regenerates /verif/MANIFEST.json from the table below (keeps it schema-valid)."""
import json, os, subprocess
HERE = os.path.dirname(os.path.dirname(os.path.abspath(__file__)))
ids = [json.loads(l)["id"] for l in open(os.path.join(HERE, "properties.jsonl"))]

# id -> (category, technique, level text, level note, design ref)
CLAIMED = {
 "C17": ("exploration",
         "property-based testing over old-group shapes x successor member-set variants x parameter changes, with a set-equality / subset model predicting Ok / Err and wrong-joiner injection",
         "Generated old groups (blank interior leaves, identity changes), ReInit with group-id / extension / cipher-suite changes and branch, successor member sets equal / subset / superset / replaced in shuffled order: creation succeeds exactly when the identity-set rule says so, the old group is frozen after ReInit, every old member joins and agrees, joiners without the old group state or at another epoch fail.",
         "Welcomes with different extensions or epoch != 1 are not forged (the API cannot produce them).",
         "DESIGN.md §4 C17"),
 "C18": ("exploration",
         "property-based testing over PSK lists x holder assignments x retention/join epochs with an explicit predicate for who must follow, plus canonical state equality for those who must not",
         "For generated PSK commits (1-4 external/resumption PSKs by value or by reference, optional joiner) and generated per-member holdings (same / different / absent value; resumption epochs relative to retention and join epoch), exactly the predicted members follow and agree, all others fail unchanged, joiners need the same PSKs.",
         "The sensitivity of the PSK secret to value/id/nonce/order is decided by C13's byte-level differential. Two listed known findings (consumed handshake key; cached unresolvable resumption PSK blocks commits).",
         "DESIGN.md §4 C18"),
 "C07": ("exploration",
         "stateful property-based testing biased to joins, with mismatch injection (foreign Welcome, wrong / truncated / flipped tree, stale GroupInfo) and key-package store inspection",
         "Generated histories with by-value/by-reference adds, several joiners per commit, both Welcome and tree delivery options, external commits and returning members; joiners must agree with the members, exchange messages and commit at once; the first write removes exactly the used key package (none for last-resort); every mismatched Welcome / tree / GroupInfo combination must fail.",
         "One listed known finding (returning member whose storage still holds the records of its earlier membership).",
         "DESIGN.md §4 C07"),
 "C10": ("exploration",
         "differential property-based testing of the send-side filter against strict receivers: generated multisets of valid and invalid-by-construction proposals, by reference and by value, with an independent RFC 9420 §12.2 set-rule checker",
         "For generated multisets of up to 8 proposals over 16 valid/invalid kinds, every commit the library builds must be accepted by all members holding the referenced proposals with identical applied/unused sets, must satisfy the RFC set rules and contain nothing invalid by construction; invalid by-value proposals must make the build fail without changing the committer; valid by-value sets must not be refused because of cached offenders.",
         "Receiver-side rejection of commits forged by a dishonest member is covered by C03's insider model.",
         "DESIGN.md §4 C10"),
 "C05": ("exploration",
         "model-based property testing of delivery schedules (permutation / duplication / gaps / reload) against an exactly-once model, plus a recording crypto provider checking global (key, nonce) uniqueness",
         "Generated multi-sender streams on both ratchets with gaps up to and beyond the 1024 window and per-receiver schedules; every delivery's outcome is predicted by an explicit consumed-generation model; all AEAD (key, nonce) pairs of all members are pairwise distinct and application/handshake keys are disjoint; clones of a sender never share a nonce.",
         "Reloads always follow a write (state rollback is not modelled). One epoch per case.",
         "DESIGN.md §4 C05"),
 "C19": ("exploration",
         "model-based property testing: generated write patterns, epoch advances and sender-leaf changes against a mirror model of the retained epoch set",
         "Late application messages are delivered after generated numbers of epochs, write patterns and sender-leaf changes (removed, reused, HPKE or identity re-keyed), for retention 1-5 and both storage providers; a mirror model predicts exactly which decrypt; accepted ones must carry the original sender; stored epochs must be exactly the modelled set.",
         "The receiver is a Welcome joiner present in all modelled epochs.",
         "DESIGN.md §4 C19"),
 "C06": ("fault_enumeration",
         "stateful property-based testing with save / drop / load at generated crash points (API-call granularity), twins loaded from storage copies, and a tee storage provider comparing the two shipped providers answer by answer",
         "Histories over in-memory, SQLite and tee storage with retention 1-5: the state loaded after a write equals the state at the write (canonical equality incl. pending commit, proposals, pending updates), also right after building a commit; a fresh instance loaded at any later point equals the last written state; a twin loaded from a storage copy stays equal to the member after every delivery; both storage providers return identical answers and histories.",
         "Crash points are between API calls; atomicity inside one SQLite transaction is trusted. The key-package reference kept by a written-but-not-reloaded joiner is not compared (unobservable).",
         "DESIGN.md §4 C06"),
 "C15": ("fault_enumeration",
         "fault injection by enumeration: for every operation of generated scripts, every storage call (group state, key package, PSK stores) is made to fail once in turn (pairs in the thorough tier); oracle = error + canonical state equality + retry success + equality with a fault-free twin",
         "Every individual storage call inside join, commit build, apply pending commit, process commit / late application message, write_to_storage and load_group fails once: the operation must return an error, leave the member canonically unchanged (clone first, then the member), succeed when repeated, end in the state of a fault-free twin, store a loadable state and keep the prior epochs; peers accept the victim's commits.",
         "Transient single (or paired) failures of whole storage calls; torn writes inside a provider are out of scope. One listed known finding (consumed handshake key, shared root cause with C04).",
         "DESIGN.md §4 C15"),
 "C11": ("exploration",
         "model-based stateful property testing: generated op sequences over commit / detached commit / clear / resolve-epoch (winner chosen by the delivery service) / stale deliveries, checked against an explicit pending-commit state machine and canonical state equality",
         "An explicit model of who holds which pending or detached commit predicts the outcome of every call for racing members; building a commit may change only the pending-commit slot (+ consumed handshake key), apply-vs-echo must give equal states, losers drop their pending commit, old or stale commits are rejected without change, and all members agree after each resolved epoch.",
         "Membership fixed after set-up (2-4 members). Uses hook Group::verif_state.",
         "DESIGN.md §4 C11"),
 "C04": ("exploration",
         "stateful property-based testing with fault-style message injection; oracle = canonical full-state equality (hook) before/after every rejected call, on a clone and on the member, then acceptance of the genuine message and continued N-way agreement",
         "Generated histories with injected messages that must be rejected at every pipeline stage (field-addressed corruptions of app/proposal/commit messages in both wire formats, duplicates, own messages, old-epoch replays, commits with a missing PSK or a refused credential, corrupted commits while holding a pending commit / update / cached proposals) and refused builds; the complete member state (public, private, secrets incl. ratchets, pending parts, prior-epoch cache) must be canonically identical before and after, and the genuine traffic must still be accepted.",
         "Canonical equality is defined by the hook (decoded values; secret tree normal form; clean cached prior epochs ignored). One root cause is a listed known finding (message key consumed before the message is accepted).",
         "DESIGN.md §4 C04"),
 "C13": ("exploration",
         "differential property-based testing of the library's pure derivations (hook) against an independent RFC 9420 implementation on bare SHA-2/HMAC, calibrated on the IETF vectors; end-to-end recomputation on live groups",
         "Random inputs to every derivation (key schedule, PSK chain, secret tree nodes, ratchet keys/nonces up to generation 2000, exporter, sender-data key, tags, transcript hashes) for all 7 suites and all providers are compared byte for byte with an independent implementation; on live groups the public commit message and the previous epoch's secrets reproduce every secret of the next epoch.",
         "Trusts refmodel (calibrated on the IETF basic-crypto, key-schedule, psk, secret-tree and transcript vectors at start-up) and the SHA-2/HMAC crates.",
         "DESIGN.md §4 C13"),
 "C02": ("exploration",
         "stateful property-based testing with a recording crypto-provider wrapper: every HPKE seal of every commit is compared with an independent tree model; removed parties are fed all later traffic",
         "For every commit of generated removal-centred histories, the set of public keys each path secret is HPKE-encrypted to is compared with the copath resolutions of the NEW exported tree computed by the independent model (minus leaves added in the commit); Welcome seals must match the joiners' init keys; removed parties must fail to process every later message and keep their old epoch/authenticator. Secrecy itself is decided only through these observable consequences.",
         "Attribution of seals is per provider instance (one per party). 'Never learns' = cannot process + nothing encrypted to a key it held.",
         "DESIGN.md §4 C02"),
 "C08": ("exploration",
         "stateful property-based testing; oracle = independent tree-hash / parent-hash / placement model on exported bytes (calibrated on 98 IETF vectors) + the library's own observer validation",
         "After every commit of generated histories every member's exported tree (committer, receiver, joiner, external joiner, reloaded) is re-validated from scratch by an independent implementation and by ExternalClient::observe_group; new leaves must sit at the leftmost blanks.",
         "Leaf signatures are checked by the library's observer validation, not by the independent model. Group size <= 12/24.",
         "DESIGN.md §4 C08"),
 "C09": ("exploration",
         "stateful property-based testing; oracle = HPKE seal-to-node/open-with-stored-key over the hook-exposed private key list and the independently parsed exported tree",
         "After every commit of generated histories, every member's stored private keys are checked against the public keys at the corresponding nodes of its direct path (reference tree math), no key may exist for a blank node, committer path keys must be fresh, replaced leaf keys must be gone.",
         "Uses hook Group::verif_private_tree (read-only). Completeness of the key list (a missing entitled key) is decided indirectly by C01's decrypt checks.",
         "DESIGN.md §4 C09"),
 "C01": ("exploration",
         "stateful property-based testing: generated group histories (proptest op sequences, 16 shards) with N-way agreement and cross-decrypt oracles",
         "Random group histories over every proposal kind (by reference and by value), commits with/without path, external commits (new, rejoin, resync), identity changes, provider mixes, cipher suites and commit/encryption options; after every accepted commit all members are compared on context, roster, exported tree, authenticator, exported secrets, and every member's ciphertext is decrypted by every other member. Sampled histories, not exhaustive.",
         "Providers' internal randomness is not seeded. Group size <= 12 (quick) / 24 (thorough), history length <= 26 / 70 ops.",
         "DESIGN.md §4 C01"),
 "C12": ("exploration",
         "byte-level and structure-aware generated inputs (mutated IETF vectors + harvested library output + `arbitrary` values) against round-trip / re-encode / length / allocation oracles; exhaustive varint enumeration; libFuzzer target in the thorough tier",
         "Every public decode entry point is fed random, mutated-valid, truncated and length-prefix-corrupted inputs; accepted values must re-encode to exactly the consumed bytes with the reported length, never panic and never allocate beyond 4096*len+1MiB; arbitrary structured values must report exact lengths; all 1- and 2-byte varint forms are enumerated against an RFC 9000 reference decoder.",
         "Hash-map backed state types are compared by value and length, not bytes. A time/size-bounded search; absence of a crash is not proven.",
         "DESIGN.md §4 C12"),
 "C20": ("exploration",
         "exhaustive enumeration of small sizes + seeded sampling of large sizes against a recursive reference model",
         "All tree-math functions are compared with the recursive RFC 9420 App. C definition for every node of every tree with 2^0..2^12 leaves (exhaustive, incl. out-of-tree indices and all leaf pairs up to 2^10 leaves) and on sampled nodes/pairs up to 2^24 leaves. The finite part the property names is enumerated completely; the rest is sampled.",
         "Trusts refmodel::treemath (recursive definition, calibrated against the IETF tree_math vectors at start-up).",
         "DESIGN.md §4 C20"),
}
NOT_BUILT = "check not built yet (work in progress; see DESIGN.md section 8)"

def hook_commits():
    try:
        out = subprocess.check_output(["git", "-C", "/repo", "log", "--format=%H %s"], text=True)
        return [l.split()[0] for l in out.splitlines() if "verif_hooks" in l]
    except Exception:
        return []

m = {
 "version": 1,
 "setup_cmd": "./setup.sh",
 "hooks": {
  "guard": "cargo feature verif_hooks (crate mls-rs)",
  "enable": "the harness crate /verif/harness depends on /repo/mls-rs by path with features=[\"verif_hooks\", ...]; ./check rebuilds it from /repo's working tree",
  "baseline_off_cmd": "cd /repo && cargo test --workspace --no-fail-fast --offline",
  "source_commits": hook_commits(),
  "add_only": True,
 },
 "engines": [
  {"name": "mlsv", "path": "harness/", "serves_properties": sorted(CLAIMED),
   "kind_free_text": "one Rust binary: sharded proptest TestRunner over uniform op-sequence cases, exhaustive enumerators, independent RFC 9420 reference model, recording/faulting provider wrappers; cargo-fuzz targets under harness/fuzz for thorough tiers"},
 ],
 "checks": [
  {"property_id": i,
   "quick_cmd": f"./check {i} quick",
   "thorough_cmd": f"./check {i} thorough",
   "evidence_file": f"/verif/evidence/{i}.json",
   "replay_cmd_template": f"./check {i} quick --replay {{path}}",
   "engine": "mlsv",
   "level_claimed": {"category": c[0], "text": c[2], "design_ref": c[4]},
   "level_note": c[3],
   "technique": c[1]}
  for i, c in sorted(CLAIMED.items())],
 "notes": "All checks: exit 0 held / 1 VIOLATION / 2 inconclusive. VERIF_SEED seeds every generator. Known findings are in known_findings.json (never written at run time).",
 "not_applicable": [{"property_id": i, "reason": NOT_BUILT} for i in ids if i not in CLAIMED],
}
json.dump(m, open(os.path.join(HERE, "MANIFEST.json"), "w"), indent=1)
print("claimed:", sorted(CLAIMED))
