#!/usr/bin/env python3
"""Compare a `cargo test --workspace` log with BASELINE.json's stable_pass list.
usage: baseline_check.py <log>"""
import json, re, sys
base = json.load(open('/root/.vp/BASELINE.json'))
want = set(base['stable_pass'])
crate = None
got = {}
for line in open(sys.argv[1], errors='replace'):
    m = re.search(r'Running (?:unittests )?(\S+) \(target/debug/deps/([A-Za-z0-9_]+)-[0-9a-f]+\)', line)
    if m:
        crate = m.group(2).replace('_', '-')
        src = m.group(1)
        continue
    m = re.search(r'Doc-tests (\S+)', line)
    if m:
        crate = None
        continue
    m = re.match(r'test (\S+) \.\.\. (ok|FAILED|ignored)', line)
    if m and crate:
        got[f'{crate}::{m.group(1)}'] = m.group(2)
# integration test binaries are named after the test file, map them to their package heuristically
missing = [t for t in want if got.get(t) != 'ok']
alt = {}
for k, v in got.items():
    alt[k.split('::', 1)[1]] = v
    # integration test binary: "<bin>::<test>" appears in the baseline as "<pkg>::<bin>::<test>"
    alt[k.replace('-', '_')] = v
really_missing = [t for t in missing if alt.get(t.split('::', 1)[1]) != 'ok']
print(f'baseline stable_pass={len(want)} ok_in_log={len(want)-len(really_missing)} missing_or_failed={len(really_missing)}')
for t in really_missing[:40]:
    print('  MISSING/FAILED', t, got.get(t))
sys.exit(1 if really_missing else 0)
