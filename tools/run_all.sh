#!/bin/bash
# Runs every claimed check of MANIFEST.json at the given tier (default quick), sequentially; prints one line per check.
cd "$(dirname "$0")/.."
tier=${1:-quick}
rc_all=0
for id in $(python3 -c "import json;print(' '.join(c['property_id'] for c in json.load(open('MANIFEST.json'))['checks']))"); do
  s=$(date +%s)
  out=$(./check "$id" "$tier" 2>&1); rc=$?
  e=$(date +%s)
  echo "$id rc=$rc wall=$((e-s))s $(echo "$out" | grep -c '^KNOWN-FINDING') known; $(echo "$out" | grep -E '^(OK|VIOLATION|INCONCLUSIVE|FAILURE)' | head -2 | tr '\n' ' ')"
  [ $rc -ne 0 ] && rc_all=1
done
exit $rc_all
