#!/usr/bin/env python3
"""Sensitivity runs: apply a seeded change to /repo, run checks against it, undo it straight afterwards.

  tools/seeded.py try <seeded-name> [--tier quick|thorough] [--seed N] <Cxx> [<Cyy> ...]
  tools/seeded.py table            # markdown table of all recorded results

<seeded-name> is a directory /verif/seeded/<seeded-name>/ holding patch.diff (+ demonstration, meta.json).
Nothing is ever committed to /repo; the working tree is restored in a finally block and verified clean.
Results are recorded in /verif/seeded/<seeded-name>/result.json; the shrunk replay of a detection is kept
beside it as detected_by_<Cxx>.json.
"""
import json, os, re, shutil, subprocess, sys, time

ROOT = os.path.dirname(os.path.dirname(os.path.abspath(__file__)))
REPO = "/repo"


def sh(cmd, **kw):
    return subprocess.run(cmd, shell=True, text=True, capture_output=True, **kw)


def repo_clean():
    return sh(f"git -C {REPO} status --porcelain --untracked-files=no").stdout.strip() == ""


def try_patch(name, ids, tier, seed):
    d = os.path.join(ROOT, "seeded", name)
    patch = os.path.join(d, "patch.diff")
    assert os.path.isfile(patch), patch
    assert repo_clean(), "/repo working tree is not clean"
    res_path = os.path.join(d, "result.json")
    results = json.load(open(res_path)) if os.path.exists(res_path) else {}
    r = sh(f"git -C {REPO} apply --whitespace=nowarn {patch}")
    if r.returncode != 0:
        print("patch does not apply:", r.stderr)
        return 2
    try:
        for cid in ids:
            for f in os.listdir(os.path.join(ROOT, "replays", cid)) if os.path.isdir(os.path.join(ROOT, "replays", cid)) else []:
                if f.startswith("violation_"):
                    os.remove(os.path.join(ROOT, "replays", cid, f))
            env = dict(os.environ)
            if seed is not None:
                env["VERIF_SEED"] = str(seed)
            t0 = time.time()
            p = subprocess.run([os.path.join(ROOT, "check"), cid, tier], text=True, capture_output=True, env=env, cwd=ROOT)
            wall = round(time.time() - t0, 1)
            out = p.stdout + p.stderr
            viol = re.search(r"^VIOLATION property=(\S+) replay=(\S+)", out, re.M)
            fail = re.search(r"^FAILURE signature=(.*)$", out, re.M)
            detail = re.search(r"^DETAIL (.*)$", out, re.M)
            entry = {
                "tier": tier,
                "seed": seed,
                "exit": p.returncode,
                "wall_s": wall,
                "detected": bool(viol) and p.returncode == 1,
                "signature": fail.group(1) if fail else None,
                "detail": (detail.group(1)[:400] if detail else None),
            }
            if p.returncode not in (0, 1):
                entry["note"] = out[-600:]
            if viol and os.path.isfile(viol.group(2)):
                shutil.copy(viol.group(2), os.path.join(d, f"detected_by_{cid}.json"))
                os.remove(viol.group(2))
            results[f"{cid}:{tier}" + (f":{seed}" if seed is not None else "")] = entry
            print(f"{name} {cid} {tier} exit={p.returncode} wall={wall}s detected={entry['detected']} sig={entry['signature']}")
    finally:
        sh(f"git -C {REPO} apply -R --whitespace=nowarn {patch}")
        if not repo_clean():
            sh(f"git -C {REPO} checkout -- .")
        assert repo_clean(), "/repo not restored"
        json.dump(results, open(res_path, "w"), indent=1)
    return 0


def table():
    base = os.path.join(ROOT, "seeded")
    rows = []
    for name in sorted(os.listdir(base)):
        d = os.path.join(base, name)
        if not os.path.isdir(d):
            continue
        meta = json.load(open(os.path.join(d, "meta.json"))) if os.path.exists(os.path.join(d, "meta.json")) else {}
        res = json.load(open(os.path.join(d, "result.json"))) if os.path.exists(os.path.join(d, "result.json")) else {}
        caught = sorted({k.split(":")[0] + ("" if k.split(":")[1] == "quick" else "(thorough)") for k, v in res.items() if v.get("detected")})
        missed = sorted({k.split(":")[0] for k, v in res.items() if not v.get("detected")} - {c.split("(")[0] for c in caught})
        rows.append(f"| `{name}` | {meta.get('property','')} | {meta.get('summary','').replace('|','/')} | {', '.join(caught) or '—'} | {', '.join(missed) or '—'} |")
    print("| seeded change | aimed at | what it does | caught by | run but silent |")
    print("|---|---|---|---|---|")
    print("\n".join(rows))


if __name__ == "__main__":
    a = sys.argv[1:]
    if not a:
        print(__doc__)
        sys.exit(2)
    if a[0] == "table":
        table()
        sys.exit(0)
    if a[0] == "try":
        name = a[1]
        rest = a[2:]
        tier, seed, ids = "quick", None, []
        i = 0
        while i < len(rest):
            if rest[i] == "--tier":
                tier = rest[i + 1]
                i += 2
            elif rest[i] == "--seed":
                seed = int(rest[i + 1])
                i += 2
            else:
                ids.append(rest[i])
                i += 1
        sys.exit(try_patch(name, ids, tier, seed))
