#!/usr/bin/env python3
"""Seed corpus for harness/fuzz target `decode`: IETF serialization vectors with the target-selector byte in front."""
import json, os, sys, hashlib
root = os.path.dirname(os.path.dirname(os.path.abspath(__file__)))
out = sys.argv[1] if len(sys.argv) > 1 else os.path.join(root, "harness", "fuzz", "corpus", "decode")
os.makedirs(out, exist_ok=True)
v = json.load(open(os.path.join(root, "vectors", "serialization.json")))
msg = ["mls_welcome", "mls_group_info", "mls_key_package", "public_message_application", "public_message_proposal", "public_message_commit", "private_message"]
n = 0
for i, tc in enumerate(v):
    if i % 6:  # a spread is enough; the fuzzer mutates from there
        continue
    for k in msg:
        b = bytes.fromhex(tc[k])
        for sel in (0, 3):
            d = bytes([sel]) + b
            open(os.path.join(out, hashlib.sha1(d).hexdigest()), "wb").write(d)
            n += 1
    d = bytes([2]) + bytes.fromhex(tc["ratchet_tree"])
    open(os.path.join(out, hashlib.sha1(d).hexdigest()), "wb").write(d)
    n += 1
print(n)
