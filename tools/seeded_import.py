#!/usr/bin/env python3
"""Import a sub-agent's seeded changes from /tmp/seed/<id>/out into /verif/seeded/<id>-<A|B>/ (patch.diff, demonstration, meta.json)."""
import json, os, shutil, sys, glob
ROOT = os.path.dirname(os.path.dirname(os.path.abspath(__file__)))
for pid in sys.argv[1:]:
    out = f"/tmp/seed/{pid}/out"
    meta = json.load(open(f"{out}/meta.json"))
    for ch in meta["changes"]:
        n = ch["name"]
        d = os.path.join(ROOT, "seeded", f"{pid}-{n}")
        os.makedirs(d, exist_ok=True)
        shutil.copy(f"{out}/{n}.patch.diff", f"{d}/patch.diff")
        shutil.copy(f"{out}/{n}.demo.md", f"{d}/demonstration.md")
        for f in glob.glob(f"{out}/*demo*.rs"):
            base = os.path.basename(f)
            if len(glob.glob(f"{out}/*demo*.rs")) == 1 or f"_{n.lower()}." in base.lower() or base.startswith(f"{n}."):
                shutil.copy(f, d)
        m = {"property": pid, "name": f"{pid}-{n}", "origin": "fresh sub-agent given only the property text and a scratch worktree", "files": ch.get("files"), "summary": ch.get("summary"), "trigger": ch.get("trigger"),
             "existing_tests_run": ch.get("existing_tests_run"), "existing_tests_pass": ch.get("existing_tests_pass"), "demo_confirms_break": ch.get("demo_confirms_break")}
        json.dump(m, open(f"{d}/meta.json", "w"), indent=1)
        print("imported", d)
