#!/usr/bin/env python3
"""Import round-2 seeded changes from /tmp/seed2/<id>/out into /verif/seeded/<id>-<C|D>/ (A->C, B->D)."""
import json, os, shutil, sys, glob
ROOT = os.path.dirname(os.path.dirname(os.path.abspath(__file__)))
import os as _os
MAP = {"A": _os.environ.get("SEED_A", "C"), "B": _os.environ.get("SEED_B", "D")}
SRC = _os.environ.get("SEED_SRC", "/tmp/seed2")
for pid in sys.argv[1:]:
    out = f"{SRC}/{pid}/out"
    meta = json.load(open(f"{out}/meta.json"))
    for ch in meta["changes"]:
        n = ch["name"]
        nn = MAP.get(n, n)
        d = os.path.join(ROOT, "seeded", f"{pid}-{nn}")
        os.makedirs(d, exist_ok=True)
        shutil.copy(f"{out}/{n}.patch.diff", f"{d}/patch.diff")
        shutil.copy(f"{out}/{n}.demo.md", f"{d}/demonstration.md")
        for f in glob.glob(f"{out}/*demo*.rs"):
            base = os.path.basename(f)
            if len(glob.glob(f"{out}/*demo*.rs")) == 1 or f"_{n.lower()}." in base.lower() or base.startswith(f"{n}."):
                shutil.copy(f, d)
        m = {"property": pid, "name": f"{pid}-{nn}", "origin": "later round: fresh sub-agent given the property text, a scratch worktree and one-line summaries of the round-1 changes to avoid", "files": ch.get("files"), "summary": ch.get("summary"), "trigger": ch.get("trigger"),
             "existing_tests_run": ch.get("existing_tests_run"), "existing_tests_pass": ch.get("existing_tests_pass"), "demo_confirms_break": ch.get("demo_confirms_break")}
        json.dump(m, open(f"{d}/meta.json", "w"), indent=1)
        print("imported", d)
